CONSTANTS Keys = {1, 2}
          MaxMult = 2
          MaxLen = 4
          WalkLen = 0
          Presets <- PresetsSmall
SPECIFICATION CoverSpec
VIEW View
ACTION_CONSTRAINT Edge
CHECK_DEADLOCK FALSE
