------------------------------- MODULE NodesA -------------------------------
(***************************************************************************)
(* C02, allocation clause: "every node obtained from the allocator is       *)
(* returned exactly once".  The allocator hands out fresh ids; the          *)
(* container may only return an id it holds.  Trace_BTreeShape uses these   *)
(* actions for the recorded alloc / free events.                            *)
(***************************************************************************)
EXTENDS Integers, FiniteSets
CONSTANT MaxId
VARIABLES live, everFreed, frees
nvars == <<live, everFreed, frees>>
NInit == live = {} /\ everFreed = {} /\ frees = [i \in {} |-> 0]
Alloc(id) == id \notin live /\ id \notin everFreed /\ live' = live \cup {id} /\ UNCHANGED <<everFreed, frees>>
Free(id) == id \in live /\ live' = live \ {id} /\ everFreed' = everFreed \cup {id}
            /\ frees' = [i \in DOMAIN frees \cup {id} |-> IF i = id THEN (IF id \in DOMAIN frees THEN frees[id] + 1 ELSE 1) ELSE frees[i]]
NNext == \E id \in 1 .. MaxId : Alloc(id) \/ Free(id)
NSpec == NInit /\ [][NNext]_nvars
ReturnedAtMostOnce == \A i \in DOMAIN frees : frees[i] = 1
NoDangling == live \cap everFreed = {}
\* at the end of a container's life
AllReturned == live = {}
=============================================================================
