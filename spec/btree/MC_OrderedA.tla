---------------------------- MODULE MC_OrderedA ----------------------------
(* every well-formed content over Keys with <= MaxLen entries (payload 0) is one state; Laws holds in each *)
EXTENDS OrderedA
CONSTANTS Keys, MaxLen
VARIABLE s
Init == s = <<>>
Next == \E k \in Keys : Len(s) < MaxLen /\ \E p \in 1 .. Len(s) + 1 : s' = InsertAt(s, p, <<k, 0>>) /\ WellFormed(s')
Spec == Init /\ [][Next]_s
LawsHold == \A k \in Keys : Laws(s, k)
Trichotomy == \A k \in Keys : LET t == InsertAt(s, Lower(s, k), <<k, 0>>) IN (Multi \/ Count(s, k) = 0) => (LexLess(s, t) \/ LexLess(t, s)) /\ ~(LexLess(s, t) /\ LexLess(t, s))
=============================================================================
