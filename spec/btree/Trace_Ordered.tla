---------------------------- MODULE Trace_Ordered ----------------------------
(***************************************************************************)
(* C01 -- histories recorded from tlx::btree_set / multiset / map /         *)
(* multimap, judged by OrderedA.  One event per mutating call (with its     *)
(* results, the contents of both containers after it, the reverse walk and  *)
(* the query battery on the touched container):                             *)
(*  {"e":"reset","multi":b,"map":b,"desc":b}                                *)
(*  {"e":"op","op":code,"c":1|2,"k":key,"u":payload,"pos":p,"ins":b,"n":n,  *)
(*   "es":[[k,u]..],"s1":[[k,u]..],"s2":[..],"rev":[..],"size":n,           *)
(*   "empty":b,"bat":[[k,find,count,lower,upper,exists,eqlo,eqhi]..],       *)
(*   "cmp":[eq,ne,lt,gt,le,ge]}                                             *)
(* All executions in one file are of one flavour (constants from line 1).   *)
(***************************************************************************)
EXTENDS TraceIO, Integers
TraceMulti == TraceLog[1].multi
TraceMap == TraceLog[1].map
TraceDesc == TraceLog[1].desc
CONSTANTS Multi, IsMap, Desc
INSTANCE OrderedA
VARIABLES l, c1, c2
Ev == TraceLog[l]

Cur(c) == IF c = 1 THEN c1 ELSE c2
New(c) == IF c = 1 THEN Ev.s1 ELSE Ev.s2
OtherSame(c) == IF c = 1 THEN Ev.s2 = c2 ELSE Ev.s1 = c1

BatteryOK(s, q) ==
    /\ FindOK(s, q[1], q[2])
    /\ q[3] = Count(s, q[1]) /\ q[4] = Lower(s, q[1]) /\ q[5] = Upper(s, q[1])
    /\ q[6] = (IF Count(s, q[1]) > 0 THEN 1 ELSE 0)
    /\ q[7] = Lower(s, q[1]) /\ q[8] = Upper(s, q[1])

Observed(c) ==
    LET s == New(c) IN
    /\ WellFormed(Ev.s1) /\ WellFormed(Ev.s2)
    /\ Ev.rev = Reverse(s) /\ Ev.size = Len(s) /\ Ev.empty = (Len(s) = 0)
    /\ \A i \in 1 .. Len(Ev.bat) : BatteryOK(s, Ev.bat[i])

CmpOK ==
    LET lt == LexLess(c1, c2)  gt == LexLess(c2, c1)  eq == (c1 = c2) IN
    Ev.cmp = <<eq, ~eq, lt, gt, ~gt, ~lt>>

\* same keys position by position, same entries as bags (what a range insertion of s into an empty container may produce)
SameUpToEquivalents(s, t) ==
    /\ Len(t) = Len(s)
    /\ \A i \in 1 .. Len(s) : /\ KeyOf(t[i]) = KeyOf(s[i])
                               /\ Cardinality({j \in 1 .. Len(t) : t[j] = t[i]}) = Cardinality({j \in 1 .. Len(s) : s[j] = t[i]})

OpOK ==
    LET c == Ev.c  s == Cur(c)  t == New(c) IN
    CASE Ev.op = "I" -> InsertOK(s, Ev.k, Ev.u, Ev.pos, Ev.ins, t) /\ OtherSame(c)
      [] Ev.op = "H" -> (\E b \in BOOLEAN : InsertOK(s, Ev.k, Ev.u, Ev.pos, b, t)) /\ OtherSame(c)
      [] Ev.op = "R" -> InsertRangeFast(s, Ev.es, t) /\ OtherSame(c)      \* = InsertRangeOK (checked by TLC: MC_RangeEq), without its search
      [] Ev.op = "E" -> EraseKeyOK(s, Ev.k, Ev.n, t) /\ OtherSame(c)
      [] Ev.op = "O" -> EraseOneOK(s, Ev.k, Ev.ins, t) /\ OtherSame(c)
      [] Ev.op = "X" -> EraseIterOK(s, Ev.pos, t) /\ OtherSame(c)
      [] Ev.op = "C" -> t = <<>> /\ OtherSame(c)
      [] Ev.op = "B" -> BulkLoadOK(s, Ev.es, t) /\ OtherSame(c)
      [] Ev.op = "U" -> SubscriptOK(s, Ev.k, Ev.u, t) /\ OtherSame(c)
      [] Ev.op = "Y" -> Ev.s2 = c1 /\ Ev.s1 = c1              \* c2 copy-constructed from c1
      [] Ev.op = "YR" -> SameUpToEquivalents(c1, Ev.s2) /\ Ev.s1 = c1     \* c2 constructed from the range [c1.begin(), c1.end()): entries with equivalent keys may come in another order
      [] Ev.op = "A" -> (CASE Ev.n = 1 -> Ev.s1 = c2 /\ Ev.s2 = c2
                           [] Ev.n = 2 -> Ev.s2 = c1 /\ Ev.s1 = c1
                           [] OTHER -> Ev.s1 = c1 /\ Ev.s2 = c2)     \* self assignment
      [] Ev.op = "S" -> Ev.s1 = c2 /\ Ev.s2 = c1
      [] Ev.op = "M" -> CmpOK /\ Ev.s1 = c1 /\ Ev.s2 = c2
      [] OTHER -> FALSE

Step ==
    CASE Ev.e = "reset" -> c1' = <<>> /\ c2' = <<>>
      [] Ev.e = "op" -> OpOK /\ Observed(Ev.c) /\ c1' = Ev.s1 /\ c2' = Ev.s2
      [] OTHER -> FALSE

TInit == l = 1 /\ c1 = <<>> /\ c2 = <<>>
TNext == l <= TraceLen /\ Step /\ l' = l + 1
TraceSpec == TInit /\ [][TNext]_<<l, c1, c2>>
Progress == TrackProgress(l)
Report == ReportResult
=============================================================================
