---------------------------- MODULE Trace_BTreeI ----------------------------
(***************************************************************************)
(* C02 (implementation level) -- the node structure of the real tree after  *)
(* every insert / erase_one / erase(key) / clear, compared with the         *)
(* structure BTreeI computes for the same history: same levels, same fill   *)
(* of every node in pre-order, same separators, same keys.  A difference    *)
(* means the transcription and the code took different branches (DRIFT      *)
(* unless the property-level Trace_BTreeShape also rejects).                *)
(* Events: reset {ls, is, multi}, op {op: I|H|U|O|E|X|C|R|B, k, pos, ins, n, es},    *)
(* shape {nodes: [[level, use, isroot]..], seps: [[sep, maxbelow, minright]]*)
(* , keys}; alloc / free / end are skipped.                                 *)
(***************************************************************************)
EXTENDS TraceIO
TraceLeafMax == TraceLog[1].ls
TraceInnerMax == TraceLog[1].is
TraceDup == TraceLog[1].multi
CONSTANTS LeafMax, InnerMax, Keys, MaxMult, Dup, Mutation
VARIABLES t, bag, last, l
INSTANCE BTreeI
Ev == TraceLog[l]

RECURSIVE PreOrder(_, _)
PreOrder(tr, id) == <<<<tr.nodes[id].level, Len(tr.nodes[id].keys), IF id = tr.root THEN 1 ELSE 0>>>> \o
                    (LET RECURSIVE Cat(_) Cat(i) == IF i > Len(tr.nodes[id].kids) THEN <<>> ELSE PreOrder(tr, tr.nodes[id].kids[i]) \o Cat(i + 1) IN Cat(1))
RECURSIVE Seps(_, _)
Seps(tr, id) == IF tr.nodes[id].level = 0 THEN <<>>
                ELSE LET RECURSIVE Cat(_) Cat(i) == IF i > Len(tr.nodes[id].kids) THEN <<>>
                                                   ELSE (IF i > 1 THEN <<tr.nodes[id].keys[i - 1]>> ELSE <<>>) \o Seps(tr, tr.nodes[id].kids[i]) \o Cat(i + 1) IN Cat(1)
RECURSIVE Flat(_, _)
Flat(tr, id) == IF tr.nodes[id].level = 0 THEN tr.nodes[id].keys
                ELSE LET RECURSIVE Cat(_) Cat(i) == IF i > Len(tr.nodes[id].kids) THEN <<>> ELSE Flat(tr, tr.nodes[id].kids[i]) \o Cat(i + 1) IN Cat(1)

SameShape(tr) ==
    IF tr.root = Null THEN Ev.nodes = <<>> /\ Ev.keys = <<>>
    ELSE /\ Ev.nodes = PreOrder(tr, tr.root)
         /\ [i \in 1 .. Len(Ev.seps) |-> Ev.seps[i][1]] = Seps(tr, tr.root)
         /\ Ev.keys = Flat(tr, tr.root)
         /\ Ev.stats = <<tr.size, tr.leaves, tr.inner>>

RECURSIVE InsertAll(_, _)
InsertAll(tr, es) == IF es = <<>> THEN tr ELSE InsertAll(DoInsert(tr, es[1][1]).tr, Tail(es))
RECURSIVE EraseAll(_, _, _)
EraseAll(tr, k, n) == LET r == DoEraseOne(tr, k) IN IF ~r.found THEN [tr |-> tr, n |-> n] ELSE IF Dup THEN EraseAll(r.tr, k, n + 1) ELSE [tr |-> r.tr, n |-> n + 1]

Step ==
    CASE Ev.e = "reset" -> t' = EmptyTree
      [] Ev.e = "op" /\ Ev.c = 1 ->
            (CASE Ev.op \in {"I", "H", "U"} -> LET r == DoInsert(t, Ev.k) IN t' = r.tr /\ (Ev.op = "I" => Ev.ins = r.inserted)
               [] Ev.op = "R" -> t' = InsertAll(t, Ev.es)
               [] Ev.op = "O" -> LET r == DoEraseOne(t, Ev.k) IN t' = r.tr /\ Ev.ins = r.found
               [] Ev.op = "E" -> LET r == EraseAll(t, Ev.k, 0) IN t' = r.tr /\ Ev.n = r.n
               [] Ev.op = "X" -> LET r == DoEraseIter(t, Ev.pos - 1) IN t' = r.tr /\ r.found
               [] Ev.op = "C" -> t' = EmptyTree
               [] Ev.op = "B" -> t = EmptyTree /\ t' = DoBulkLoad([i \in 1 .. Len(Ev.es) |-> Ev.es[i][1]])
               [] OTHER -> FALSE)
      [] Ev.e = "shape" /\ Ev.c = 1 -> SameShape(t) /\ t' = t
      [] Ev.e \in {"alloc", "free", "end"} -> t' = t
      [] OTHER -> FALSE

TInit == l = 1 /\ t = EmptyTree /\ bag = [k \in {} |-> 0] /\ last = <<>>
TNext == l <= TraceLen /\ Step /\ l' = l + 1 /\ UNCHANGED <<bag, last>>
TraceSpec == TInit /\ [][TNext]_<<t, bag, last, l>>
Progress == TrackProgress(l)
Report == ReportResult
=============================================================================
