CONSTANTS Multi <- TraceMulti
          IsMap <- TraceMap
          Desc <- TraceDesc
SPECIFICATION TraceSpec
CONSTRAINT Progress
POSTCONDITION Report
CHECK_DEADLOCK FALSE
