------------------------------ MODULE Gen_BTreeI ------------------------------
(***************************************************************************)
(* One implementation test per branch of the case analysis: BFS over BTreeI *)
(* with a history variable kept out of the VIEW, so every distinct tree is  *)
(* reached by one shortest history; each state prints its history and the   *)
(* branch tags of its last call.  tools/props/c02.py keeps, for every       *)
(* (call kind, tag) pair, the shortest histories and runs them on the real  *)
(* tree (script tokens of harness/btree/btree_run.hpp).                     *)
(***************************************************************************)
EXTENDS BTreeI
VARIABLE hist
GInit == Init /\ hist = <<>>
GNext == \/ \E k \in Keys : (Insert(k) /\ hist' = Append(hist, <<"I", 1, k>>)) \/ (EraseOne(k) /\ hist' = Append(hist, <<"O", 1, k>>))
         \/ \E p \in 0 .. t.size - 1 : (EraseIter(p) /\ hist' = Append(hist, <<"X", 1, p>>))
GenSpec == GInit /\ [][GNext]_<<vars, hist>>
GView == View
\* every (call kind, set of branch tags) is printed the first time a worker sees it (TLC register 2 = keys seen by this worker);
\* with breadth-first search that is a shortest history
ASSUME TLCSet(2, {})
Emit == LET key == <<last[1], last[4]>> IN
        (last[4] # {} /\ key \notin TLCGet(2)) =>
            (TLCSet(2, TLCGet(2) \cup {key}) /\ PrintT(<<"@@GEN@@", ToJson([h |-> hist, how |-> last[4], op |-> last[1]])>>))
=============================================================================
