----------------------------- MODULE Gen_Ordered -----------------------------
(***************************************************************************)
(* History generator for C01 / C02.  The abstract state is what decides     *)
(* which calls make sense next: the multiplicity of every key in the two    *)
(* containers.  Two uses:                                                   *)
(*  - transition cover (BFS + VIEW + ACTION_CONSTRAINT Edge): every         *)
(*    (abstract state, call) pair once, stitched into tours;                *)
(*  - random walks (-simulate) with a phase variable that drives the tree   *)
(*    through fill / drain cycles, so that splits, all underflow cases,     *)
(*    root growth and collapse occur (Walk prints each finished history).   *)
(* The calls are driver script tokens (harness/btree/btree_run.hpp).        *)
(***************************************************************************)
EXTENDS Integers, Sequences, FiniteSets, TLC, Json

CONSTANTS Keys, MaxMult, MaxLen, WalkLen, Presets

VARIABLES n1, n2,     \* multiplicity of each key
          op,         \* the call that led here
          h,          \* history so far (random walks only; kept empty in cover mode)
          phase       \* "fill" | "drain" | "mix" (random walks)
PresetsSmall == {<<1, 2>>, <<2, 2, 1>>}
PresetsBig == {<<1, 2, 3, 4, 5>>, <<8, 7, 6, 6, 6>>, <<3, 3, 3>>, <<1, 2, 3, 4, 5, 6, 7, 8, 1>>, <<2, 4, 6, 8, 1, 3, 5, 7, 2, 4, 6, 8, 1>>}
state == <<n1, n2>>
gvars == <<n1, n2, op, h, phase>>

Size(n) == LET RECURSIVE Sum(_) Sum(S) == IF S = {} THEN 0 ELSE LET k == CHOOSE x \in S : TRUE IN n[k] + Sum(S \ {k}) IN Sum(Keys)
N(c) == IF c = 1 THEN n1 ELSE n2
Set(c, v) == IF c = 1 THEN n1' = v /\ n2' = n2 ELSE n2' = v /\ n1' = n1
Zero == [k \in Keys |-> 0]
Bump(n, k) == [n EXCEPT ![k] = IF @ < MaxMult THEN @ + 1 ELSE @]
Tok(s) == s

\* multiplicities after inserting the keys of a sequence
RECURSIVE AddAll(_, _)
AddAll(n, ks) == IF ks = <<>> THEN n ELSE AddAll(Bump(n, Head(ks)), Tail(ks))

Insert(c, k) == N(c)[k] < MaxMult /\ Set(c, Bump(N(c), k)) /\ op' = <<"I", c, k>>
InsertDup(c, k) == N(c)[k] = MaxMult /\ N(c)[k] > 0 /\ Set(c, N(c)) /\ op' = <<"I", c, k>>        \* rejected by unique flavours, capped here
Hint(c, k, hh) == N(c)[k] < MaxMult /\ Set(c, Bump(N(c), k)) /\ op' = <<"H", c, hh, k>>
Subscript(c, k) == N(c)[k] < MaxMult /\ Set(c, Bump(N(c), k)) /\ op' = <<"U", c, k>>
Range(c, ks) == (\A i \in 1 .. Len(ks) : N(c)[ks[i]] < MaxMult) /\ Set(c, AddAll(N(c), ks)) /\ op' = <<"R", c, Len(ks)>> \o ks
EraseKey(c, k) == Set(c, [N(c) EXCEPT ![k] = 0]) /\ op' = <<"E", c, k>>
EraseOne(c, k) == Set(c, [N(c) EXCEPT ![k] = IF @ > 0 THEN @ - 1 ELSE 0]) /\ op' = <<"O", c, k>>
\* erase(iterator): the driver addresses the i-th entry; the abstract effect depends on the flavour, so the generator
\* only uses it where the effect on multiplicities is known: the entry is the j-th of the run of key k in a multi container,
\* or the only one.  It is expressed through the position among all entries (keys ascending).
PosOf(n, k, j) == LET RECURSIVE Before(_) Before(S) == IF S = {} THEN 0 ELSE LET x == CHOOSE y \in S : TRUE IN n[x] + Before(S \ {x}) IN Before({x \in Keys : x < k}) + j - 1
EraseIter(c, k, j) == N(c)[k] >= j /\ Set(c, [N(c) EXCEPT ![k] = @ - 1]) /\ op' = <<"X", c, PosOf(N(c), k, j), k>>
Clear(c) == Set(c, Zero) /\ op' = <<"C", c>>
Copy == n2' = n1 /\ n1' = n1 /\ op' = <<"Y">>
Assign(a) == /\ (CASE a = 1 -> n1' = n2 /\ n2' = n2 [] a = 2 -> n2' = n1 /\ n1' = n1 [] OTHER -> UNCHANGED <<n1, n2>>)
             /\ op' = <<"A", a>>
Swap == n1' = n2 /\ n2' = n1 /\ op' = <<"S">>
Compare == UNCHANGED <<n1, n2>> /\ op' = <<"M">>
Bulk(c, ks) == Set(c, AddAll(Zero, ks)) /\ op' = <<"B", c, Len(ks)>> \o ks

Mutators(c) ==
    \/ \E k \in Keys : Insert(c, k) \/ InsertDup(c, k) \/ Subscript(c, k) \/ EraseKey(c, k) \/ EraseOne(c, k)
    \/ \E k \in Keys, hh \in {0, 1, 5} : Hint(c, k, hh)
    \/ \E k \in Keys, j \in 1 .. MaxMult : EraseIter(c, k, j)
    \/ \E ks \in Presets : Range(c, ks) \/ Bulk(c, ks)
    \/ Clear(c)
Whole == Copy \/ Swap \/ Compare \/ \E a \in 1 .. 3 : Assign(a)

(* ---- transition cover ---- *)
CInit == n1 = Zero /\ n2 = Zero /\ op = <<"init">> /\ h = <<>> /\ phase = "mix"
CNext == ((\E c \in 1 .. 2 : Mutators(c)) \/ Whole) /\ UNCHANGED <<h, phase>> /\ Size(n1') <= MaxLen /\ Size(n2') <= MaxLen
CoverSpec == CInit /\ [][CNext]_gvars
View == state
Edge == PrintT(<<"@@GEN@@", ToJson([f |-> ToString(state), o |-> op', t |-> ToString(state')])>>)

(* ---- random walks ---- *)
Fillers(c) == \/ \E k \in Keys : Insert(c, k) \/ Subscript(c, k)
              \/ \E k \in Keys, hh \in {0, 1, 5} : Hint(c, k, hh)
              \/ \E ks \in Presets : Range(c, ks)
Drainers(c) == \/ \E k \in Keys : EraseOne(c, k) \/ (N(c)[k] > 0 /\ EraseKey(c, k))
               \/ \E k \in Keys, j \in 1 .. MaxMult : EraseIter(c, k, j)
WInit == n1 = Zero /\ n2 = Zero /\ op = <<"init">> /\ h = <<>> /\ phase \in {"fill", "mix"}
WNext ==
    /\ Len(h) < WalkLen
    /\ \/ (phase = "fill" /\ Size(n1) < MaxLen /\ Fillers(1) /\ phase' = "fill")
       \/ (phase = "fill" /\ Size(n1) >= MaxLen \div 2 /\ Compare /\ phase' \in {"drain", "mix"})
       \/ (phase = "drain" /\ Size(n1) > 0 /\ Drainers(1) /\ phase' = "drain")
       \/ (phase = "drain" /\ Size(n1) <= MaxLen \div 3 /\ Compare /\ phase' \in {"fill", "mix"})
       \/ (phase = "mix" /\ ((\E c \in 1 .. 2 : Mutators(c)) \/ Whole) /\ Size(n1') <= MaxLen /\ Size(n2') <= MaxLen /\ phase' \in {"mix", "mix", "mix", "fill", "drain"})
    /\ h' = Append(h, op')
WalkSpec == WInit /\ [][WNext]_gvars
\* a finished walk is printed once (state constraint evaluated on every new state)
Walk == (Len(h) = WalkLen) => PrintT(<<"@@GEN@@", ToJson(h)>>)
=============================================================================
