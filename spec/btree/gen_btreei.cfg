CONSTANTS LeafMax = 4
          InnerMax = 4
          Keys = {1, 2, 3, 4}
          MaxMult = 4
          Dup = TRUE
          Mutation = "none"
SPECIFICATION GenSpec
VIEW GView
CONSTRAINT Emit
CHECK_DEADLOCK FALSE
