----------------------------- MODULE NodeSearchI -----------------------------
(***************************************************************************)
(* C01 -- the in-node searches of the B+ tree (find_lower / find_upper in   *)
(* btree.hpp), binary and linear, transcribed; TLC checks on every sorted   *)
(* key sequence of a node (duplicates allowed) and every key that all four  *)
(* compute the definitions BTreeI and OrderedA use:                         *)
(*   find_lower = number of keys < k,  find_upper = number of keys <= k.    *)
(* Variant = "lower_returns_on_match" is the seeded change C01b (binary     *)
(* find_lower returns as soon as it hits an equal key).                     *)
(***************************************************************************)
EXTENDS Integers, Sequences, FiniteSets
CONSTANTS Keys, MaxSlots, Variant
VARIABLES phase, ks, k
vars == <<phase, ks, k>>

LowerDef(s, x) == Cardinality({i \in 1 .. Len(s) : s[i] < x})
UpperDef(s, x) == Cardinality({i \in 1 .. Len(s) : s[i] <= x})

\* 0-based slots as in the code: key(mid) = s[mid + 1]
RECURSIVE BinLower(_, _, _, _)
BinLower(s, x, lo, hi) ==
    IF lo >= hi THEN lo
    ELSE LET mid == (lo + hi) \div 2 IN
         IF Variant = "lower_returns_on_match" /\ s[mid + 1] = x THEN mid
         ELSE IF x <= s[mid + 1] THEN BinLower(s, x, lo, mid) ELSE BinLower(s, x, mid + 1, hi)
RECURSIVE BinUpper(_, _, _, _)
BinUpper(s, x, lo, hi) ==
    IF lo >= hi THEN lo
    ELSE LET mid == (lo + hi) \div 2 IN IF x < s[mid + 1] THEN BinUpper(s, x, lo, mid) ELSE BinUpper(s, x, mid + 1, hi)
RECURSIVE LinLower(_, _, _)
LinLower(s, x, lo) == IF lo < Len(s) /\ s[lo + 1] < x THEN LinLower(s, x, lo + 1) ELSE lo
RECURSIVE LinUpper(_, _, _)
LinUpper(s, x, lo) == IF lo < Len(s) /\ s[lo + 1] <= x THEN LinUpper(s, x, lo + 1) ELSE lo
FindLowerBin(s, x) == IF Len(s) = 0 THEN 0 ELSE BinLower(s, x, 0, Len(s))
FindUpperBin(s, x) == IF Len(s) = 0 THEN 0 ELSE BinUpper(s, x, 0, Len(s))

Sorted == {s \in UNION {[1 .. n -> Keys] : n \in 0 .. MaxSlots} : \A i \in 1 .. Len(s) - 1 : s[i] <= s[i + 1]}
Init == phase = 0 /\ ks = <<>> /\ k = 0
Pick == phase = 0 /\ phase' = 1 /\ ks' \in Sorted /\ k' \in Keys
Spec == Init /\ [][Pick]_vars
SearchesAgree == phase = 1 =>
    /\ FindLowerBin(ks, k) = LowerDef(ks, k) /\ LinLower(ks, k, 0) = LowerDef(ks, k)
    /\ FindUpperBin(ks, k) = UpperDef(ks, k) /\ LinUpper(ks, k, 0) = UpperDef(ks, k)
=============================================================================
