-------------------------- MODULE Trace_BTreeShape --------------------------
(***************************************************************************)
(* C02 -- the clauses of the property evaluated by TLC on facts the driver  *)
(* reads from the real tree (through the btree_friend seam) after every     *)
(* mutating call, plus the node allocator as a state machine (NodesA):      *)
(*   live  = set of node ids handed out and not yet returned                *)
(*   Alloc(id): id \notin live        Free(id): id \in live                 *)
(*   End: live = {}                                                         *)
(* Events: reset (configuration), alloc / free, op (contents after the      *)
(* call), shape (facts), end (both containers destroyed).                   *)
(***************************************************************************)
EXTENDS TraceIO, Integers, FiniteSets
VARIABLES l, live, everFreed, frees, c1, c2, desc
MaxId == 0      \* unused here: ids come from the trace
INSTANCE NodesA
Ev == TraceLog[l]
vars == <<l, live, everFreed, frees, c1, c2, desc>>

KeyLeq(a, b) == IF desc THEN b <= a ELSE a <= b
Keys(s) == [i \in 1 .. Len(s) |-> s[i][1]]
Rev(s) == [i \in 1 .. Len(s) |-> s[Len(s) + 1 - i]]
SortedKeys(s) == \A i \in 1 .. Len(s) - 1 : KeyLeq(s[i], s[i + 1])
MinFill(level) == IF level = 0 THEN Ev.ls \div 2 ELSE Ev.is \div 2
MaxFill(level) == IF level = 0 THEN Ev.ls ELSE Ev.is

\* all leaves at the same depth
Balanced == \A i, j \in 1 .. Len(Ev.depths) : Ev.depths[i] = Ev.depths[j]
\* every non-root node at least half full, no node over-full, no empty node
Filled == \A i \in 1 .. Len(Ev.nodes) :
            LET n == Ev.nodes[i] IN
            /\ n[2] >= 1 /\ n[2] <= MaxFill(n[1])
            /\ (n[3] = 0 => n[2] >= MinFill(n[1]))
\* each separator equals the largest key below it and is no larger than the smallest key right of it
Separated == \A i \in 1 .. Len(Ev.seps) : Ev.seps[i][1] = Ev.seps[i][2] /\ KeyLeq(Ev.seps[i][1], Ev.seps[i][3])
\* keys ordered; the leaf chain visits all entries in order in both directions; they are the container's entries
Chained(s) ==
    /\ SortedKeys(Ev.keys) /\ Ev.keys = Keys(s)
    /\ Ev.fwd = Ev.keys /\ Ev.bwd = Rev(Ev.keys) /\ Ev.links
    /\ Ev.chain_leaves = Ev.counted[2]
\* bookkeeping equals structure
Counted == Ev.stats = Ev.counted /\ Ev.stats[1] = Len(Ev.keys) /\ Ev.size = Len(Ev.keys)
\* every live node block belongs to one of the two trees, and every element slot of a live node holds exactly one live element
Owned ==
    /\ Cardinality(live) = Ev.stats[2] + Ev.stats[3] + Ev.other_nodes
    /\ Ev.alloc_live = Cardinality(live) /\ Ev.alloc_err = 0 /\ Ev.ledger_err = 0
    /\ (Ev.tracked => Ev.elems_in_nodes = Ev.stats[2] * Ev.elem_per_leaf + Ev.stats[3] * Ev.elem_per_inner + Ev.other_cap)

ShapeOK == LET s == IF Ev.c = 1 THEN c1 ELSE c2 IN
           Ev.verify /\ Balanced /\ Filled /\ Separated /\ Chained(s) /\ Counted /\ Owned

Step ==
    CASE Ev.e = "reset" -> AllReturned /\ live' = {} /\ everFreed' = {} /\ frees' = [i \in {} |-> 0] /\ c1' = <<>> /\ c2' = <<>> /\ desc' = Ev.desc
      [] Ev.e = "alloc" -> Alloc(Ev.id) /\ UNCHANGED <<c1, c2, desc>>
      [] Ev.e = "free" -> Free(Ev.id) /\ ReturnedAtMostOnce' /\ UNCHANGED <<c1, c2, desc>>
      [] Ev.e = "op" -> c1' = Ev.s1 /\ c2' = Ev.s2 /\ UNCHANGED <<live, everFreed, frees, desc>>
      [] Ev.e = "shape" -> ShapeOK /\ UNCHANGED <<live, everFreed, frees, c1, c2, desc>>
      [] Ev.e = "end" -> AllReturned /\ Ev.alloc_live = 0 /\ Ev.alloc_err = 0 /\ Ev.ledger_err = 0 /\ Ev.elems_live = 0 /\ UNCHANGED <<live, everFreed, frees, c1, c2, desc>>
      [] OTHER -> FALSE

TInit == l = 1 /\ NInit /\ c1 = <<>> /\ c2 = <<>> /\ desc = FALSE
TNext == l <= TraceLen /\ Step /\ l' = l + 1
TraceSpec == TInit /\ [][TNext]_vars
Progress == TrackProgress(l)
Report == ReportResult
=============================================================================
