CONSTANTS Multi = TRUE
          IsMap = FALSE
          Desc = FALSE
          Keys = {1, 2, 3, 4}
          MaxLen = 6
SPECIFICATION Spec
INVARIANTS LawsHold Trichotomy
CHECK_DEADLOCK FALSE
