----------------------------- MODULE MC_RangeEq -----------------------------
(* TLC checks that the search-free characterisation of a range insertion (InsertRangeFast) accepts exactly what the step-by-step definition (InsertRangeOK)  *)
(* accepts: every well-formed s with distinct payloads, every range es of new entries, every candidate result t over those entries.                          *)
EXTENDS OrderedA, TLC
CONSTANTS Keys, MaxS, MaxE
VARIABLES s, es, t
Entries(n0, ks) == [i \in 1 .. Len(ks) |-> <<ks[i], IF IsMap THEN n0 + i ELSE 0>>]
KeySeqs(n) == UNION {[1 .. m -> Keys] : m \in 0 .. n}
AllEntries == {s[i] : i \in 1 .. Len(s)} \cup {es[i] : i \in 1 .. Len(es)}
Init == /\ \E ks \in KeySeqs(MaxS) : s = Entries(0, ks) /\ WellFormed(s)
        /\ \E ke \in KeySeqs(MaxE) : es = Entries(10, ke)
        /\ t = <<>>
Next == /\ UNCHANGED <<s, es>>
        /\ Len(t) < Len(s) + Len(es)
        /\ \E x \in AllEntries : t' = Append(t, x)
Spec == Init /\ [][Next]_<<s, es, t>>
Equivalent == InsertRangeOK(s, es, t) <=> InsertRangeFast(s, es, t)
=============================================================================
