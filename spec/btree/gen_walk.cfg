CONSTANTS Keys = {1, 2, 3, 4, 5, 6, 7, 8}
          MaxMult = 3
          MaxLen = 22
          WalkLen = 60
          Presets <- PresetsBig
SPECIFICATION WalkSpec
CONSTRAINT Walk
CHECK_DEADLOCK FALSE
