CONSTANTS LeafMax = 4
          InnerMax = 4
          Keys = {1, 2, 3}
          MaxMult = 3
          Dup = TRUE
          Mutation = "none"
SPECIFICATION Spec
INVARIANT TreeInv
INVARIANT Results
VIEW View
CONSTRAINT Note
CHECK_DEADLOCK FALSE
