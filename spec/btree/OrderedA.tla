------------------------------ MODULE OrderedA ------------------------------
(***************************************************************************)
(* C01 -- what std::set / multiset / map / multimap do, as relations       *)
(* between the contents before a call, its arguments, its results and the  *)
(* contents after it.  Contents are sequences of entries <<key, payload>>   *)
(* in container order (payload 0 for the set flavours).  Positions are      *)
(* 1-based indices into that sequence, Len+1 = end().                       *)
(*                                                                          *)
(* "Up to the relative order of entries with equivalent keys": where the    *)
(* std container fixes a place inside a run of equivalent keys (insert at   *)
(* its upper end, erase-one / find at its lower end) the relations allow    *)
(* any place inside the run.                                                *)
(***************************************************************************)
EXTENDS Integers, Sequences, FiniteSets

CONSTANTS Multi,     \* duplicates allowed (multiset, multimap)
          IsMap,     \* entries carry a payload (map, multimap)
          Desc       \* key order is std::greater

KeyLess(a, b) == IF Desc THEN b < a ELSE a < b
KeyLeq(a, b) == ~KeyLess(b, a)
KeyOf(e) == e[1]

Sorted(s) == \A i \in 1 .. Len(s) - 1 : KeyLeq(KeyOf(s[i]), KeyOf(s[i + 1]))
Unique(s) == \A i \in 1 .. Len(s) - 1 : KeyLess(KeyOf(s[i]), KeyOf(s[i + 1]))
WellFormed(s) == Sorted(s) /\ (~Multi => Unique(s)) /\ (~IsMap => \A i \in 1 .. Len(s) : s[i][2] = 0)

\* lower_bound / upper_bound as positions
Lower(s, k) == 1 + Cardinality({i \in 1 .. Len(s) : KeyLess(KeyOf(s[i]), k)})
Upper(s, k) == 1 + Cardinality({i \in 1 .. Len(s) : KeyLeq(KeyOf(s[i]), k)})
Count(s, k) == Upper(s, k) - Lower(s, k)
Run(s, k) == Lower(s, k) .. Upper(s, k) - 1

InsertAt(s, p, e) == SubSeq(s, 1, p - 1) \o <<e>> \o SubSeq(s, p, Len(s))
RemoveAt(s, p) == SubSeq(s, 1, p - 1) \o SubSeq(s, p + 1, Len(s))
RemoveRun(s, k) == SubSeq(s, 1, Lower(s, k) - 1) \o SubSeq(s, Upper(s, k), Len(s))
Reverse(s) == [i \in 1 .. Len(s) |-> s[Len(s) + 1 - i]]

(***************************************************************************)
(* Mutating calls                                                          *)
(***************************************************************************)
\* insert(value) -> (position, inserted)
InsertOK(s, k, u, pos, ins, t) ==
    IF ~Multi /\ Count(s, k) > 0
    THEN ins = FALSE /\ t = s /\ pos = Lower(s, k)
    ELSE ins = TRUE /\ pos \in Lower(s, k) .. Upper(s, k) /\ t = InsertAt(s, pos, <<k, u>>)

\* erase(key) -> number of erased entries
EraseKeyOK(s, k, n, t) == n = Count(s, k) /\ t = RemoveRun(s, k)

\* erase_one(key) -> whether an entry was erased (any one of the run)
EraseOneOK(s, k, b, t) ==
    /\ b = (Count(s, k) > 0)
    /\ IF b THEN \E p \in Run(s, k) : t = RemoveAt(s, p) ELSE t = s

\* erase(iterator): exactly that entry
EraseIterOK(s, p, t) == p \in 1 .. Len(s) /\ t = RemoveAt(s, p)

\* map[k] = u (map only): inserts <<k, default>> if absent, then assigns
SubscriptOK(s, k, u, t) ==
    IF Count(s, k) > 0 THEN t = [s EXCEPT ![Lower(s, k)] = <<k, u>>]
    ELSE t = InsertAt(s, Lower(s, k), <<k, u>>)

\* insert(first, last): the entries one after the other
RECURSIVE InsertRangeOK(_, _, _)
InsertRangeOK(s, es, t) ==
    IF es = <<>> THEN t = s
    ELSE IF ~Multi /\ Count(s, es[1][1]) > 0 THEN InsertRangeOK(s, Tail(es), t)
    ELSE \E d \in 0 .. (Upper(s, es[1][1]) - Lower(s, es[1][1])) :
            \* any place inside the run of equivalent keys; the places are tried from the END of the run backwards: that is where the std containers and the
            \* B+ tree put a new entry, so a correct execution is explained by the first path (tried from the front, a range of n equal keys cost n! paths)
            LET p == Upper(s, es[1][1]) - d IN InsertRangeOK(InsertAt(s, p, es[1]), Tail(es), t)

\* The same relation without search (MC_RangeEq.tla: TLC checks InsertRangeOK <=> InsertRangeFast on a bounded domain).  A range insertion leaves: the old
\* entries in their old relative order, plus the accepted new entries (all of them in a multi container; otherwise the first one of every key that is not
\* yet there) anywhere inside the runs of their keys -- i.e. t is sorted, has exactly these entries as a bag, and s is a subsequence of t.
RECURSIVE AcceptedOf(_, _)
AcceptedOf(s, es) ==
    IF es = <<>> THEN <<>>
    ELSE IF ~Multi /\ Count(s, es[1][1]) > 0 THEN AcceptedOf(s, Tail(es))
    ELSE <<es[1]>> \o AcceptedOf(InsertAt(s, Upper(s, es[1][1]), es[1]), Tail(es))
CountIn(q, x) == Cardinality({i \in 1 .. Len(q) : q[i] = x})
RECURSIVE IsSubseq(_, _, _, _)
IsSubseq(a, b, i, j) ==      \* a[i..] is a subsequence of b[j..] (greedy matching)
    IF i > Len(a) THEN TRUE ELSE IF j > Len(b) THEN FALSE
    ELSE IF a[i] = b[j] THEN IsSubseq(a, b, i + 1, j + 1) ELSE IsSubseq(a, b, i, j + 1)
InsertRangeFast(s, es, t) ==
    LET acc == AcceptedOf(s, es) IN
    /\ Len(t) = Len(s) + Len(acc)
    /\ Sorted(t)
    /\ \A i \in 1 .. Len(t) : CountIn(t, t[i]) = CountIn(s, t[i]) + CountIn(acc, t[i])
    /\ IsSubseq(s, t, 1, 1)

\* bulk_load(sorted range) into an empty container: exactly the range
BulkLoadOK(s, es, t) == s = <<>> /\ WellFormed(es) /\ t = es

(***************************************************************************)
(* Queries                                                                 *)
(***************************************************************************)
FindOK(s, k, pos) == IF Count(s, k) > 0 THEN pos \in Run(s, k) ELSE pos = Len(s) + 1

\* whole-container comparison: lexicographic on entries with the natural order of keys and payloads
EntryLess(a, b) == a[1] < b[1] \/ (a[1] = b[1] /\ a[2] < b[2])
LexLess(s, t) ==
    \E i \in 1 .. Len(t) :
        /\ i <= Len(s) + 1
        /\ \A j \in 1 .. i - 1 : s[j] = t[j]
        /\ (i = Len(s) + 1 \/ EntryLess(s[i], t[i]))

(***************************************************************************)
(* Laws TLC checks on a bounded domain (MC_OrderedA)                        *)
(***************************************************************************)
Laws(s, k) ==
    WellFormed(s) =>
        /\ Lower(s, k) <= Upper(s, k) /\ Upper(s, k) <= Len(s) + 1
        /\ (~Multi => Count(s, k) <= 1)
        /\ \A p \in Run(s, k) : KeyOf(s[p]) = k
        /\ WellFormed(RemoveRun(s, k)) /\ Count(RemoveRun(s, k), k) = 0
        /\ \A p \in Lower(s, k) .. Upper(s, k) : (Multi \/ Count(s, k) = 0) => WellFormed(InsertAt(s, p, <<k, 0>>))
        /\ \A p \in 1 .. Len(s) : WellFormed(RemoveAt(s, p))
        /\ ~LexLess(s, s)
=============================================================================
