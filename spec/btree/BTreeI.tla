------------------------------- MODULE BTreeI -------------------------------
(***************************************************************************)
(* C02 / C01 -- the B+ tree of tlx/container/btree.hpp as the code has it:  *)
(* a transcription of insert_descend / split_leaf_node / split_inner_node   *)
(* and of erase_one_descend with its six underflow cases, the last-key      *)
(* propagation, the merge fix-up and the rebalancing primitives             *)
(* (merge_leaves, merge_inner, shift_left_X, shift_right_X for leaves / inner). *)
(*                                                                          *)
(* The tree is one record t:                                                *)
(*   nodes  [id -> [level, keys, kids, prev, next]]  (live nodes only;      *)
(*          a leaf has kids = <<>>, an inner node Len(kids) = Len(keys)+1)  *)
(*   root, head, tail (0 = nullptr), leaves, inner, size                      *)
(* Slots are 0-based as in the code: slot s of node n is keys[s + 1].       *)
(* Every C++ function is an operator that takes the tree and returns the    *)
(* new tree (and its results).  TLC checks the clauses of C02 as            *)
(* invariants over every history of Insert / EraseOne on a bounded key set, *)
(* and that the leaf chain is exactly the abstract bag of keys (C01).       *)
(***************************************************************************)
EXTENDS Integers, Sequences, FiniteSets, TLC, Json

CONSTANTS LeafMax, InnerMax,   \* leaf_slotmax, inner_slotmax
          Keys,                \* finite set of integers
          MaxMult,             \* bound on the multiplicity of a key (model bound)
          Dup,                 \* allow_duplicates
          Mutation             \* "none" = the code as it is; other values reproduce a seeded mistake (negative self-tests of the invariants):
                               \*   "no_lastkey_to_grandparent"  a last-key update handed up by a child is not stored in the parent's separator
                               \*   "no_prev_fix"         split_leaf_node does not repair prev_leaf of the successor leaf
                               \*   "no_free_on_merge"    the node emptied by a merge is unlinked but not freed
                               \*   "bulk_leaf_capacity"  bulk_load sizes the inner levels >= 2 with the leaf capacity

LeafMin == LeafMax \div 2
InnerMin == InnerMax \div 2

VARIABLES t,        \* the tree
          bag,      \* ghost: multiplicity of every key (what std::multiset would hold)
          last      \* ghost: last call and its result, <<op, key, result>>
vars == <<t, bag, last>>

Null == 0
EmptyTree == [nodes |-> <<>>, root |-> Null, head |-> Null, tail |-> Null, leaves |-> 0, inner |-> 0, size |-> 0, how |-> {}]

(* ---- node access ---- *)
N(tr, id) == tr.nodes[id]
Use(tr, id) == Len(tr.nodes[id].keys)
IsLeaf(tr, id) == tr.nodes[id].level = 0
Key(tr, id, s) == tr.nodes[id].keys[s + 1]
Kid(tr, id, s) == tr.nodes[id].kids[s + 1]
\* (:> and @@ build explicit function values; TLC cannot write lazily built ones to its disk queue)
SetNode(tr, id, nd) == [tr EXCEPT !.nodes = (id :> nd) @@ tr.nodes]
\* a released node stays in the map as a tombstone (level -1); Live are the others
Dead == [level |-> -1, keys |-> <<>>, kids |-> <<>>, prev |-> 0, next |-> 0]
LiveOf(tr) == {i \in DOMAIN tr.nodes : tr.nodes[i].level >= 0}
SetKeys(tr, id, ks) == SetNode(tr, id, [N(tr, id) EXCEPT !.keys = ks])
SetKey(tr, id, s, k) == SetNode(tr, id, [N(tr, id) EXCEPT !.keys[s + 1] = k])
Drop(tr, id) == SetNode(tr, id, Dead)

IsFull(tr, id) == Use(tr, id) = (IF IsLeaf(tr, id) THEN LeafMax ELSE InnerMax)
IsFew(tr, id) == Use(tr, id) <= (IF IsLeaf(tr, id) THEN LeafMin ELSE InnerMin)
IsUnderflow(tr, id) == Use(tr, id) < (IF IsLeaf(tr, id) THEN LeafMin ELSE InnerMin)

\* find_lower: first slot whose key is >= k (both the linear and the binary variant compute this)
FindLower(ks, k) == Cardinality({i \in 1 .. Len(ks) : ks[i] < k})

InsAt(s, p, e) == SubSeq(s, 1, p) \o <<e>> \o SubSeq(s, p + 1, Len(s))        \* insert before 0-based position p
DelAt(s, p) == SubSeq(s, 1, p) \o SubSeq(s, p + 2, Len(s))                     \* delete 0-based position p

\* which branches of the case analysis an operation took (ghost, for the vacuity guard)
Tag(tr, s) == [tr EXCEPT !.how = @ \cup {s}]

(* ---- allocation ---- *)
\* the allocator hands out the smallest unused id (keeps the model finite; Canon below abstracts from ids altogether)
Fresh(tr) == CHOOSE i \in 1 .. Cardinality(DOMAIN tr.nodes) + 1 : i \notin LiveOf(tr) /\ \A j \in 1 .. i - 1 : j \in LiveOf(tr)
AllocLeaf(tr) ==
    LET id == Fresh(tr) IN
    [tr |-> [SetNode(tr, id, [level |-> 0, keys |-> <<>>, kids |-> <<>>, prev |-> Null, next |-> Null]) EXCEPT !.leaves = @ + 1], id |-> id]
AllocInner(tr, lvl) ==
    LET id == Fresh(tr) IN
    [tr |-> [SetNode(tr, id, [level |-> lvl, keys |-> <<>>, kids |-> <<>>, prev |-> Null, next |-> Null]) EXCEPT !.inner = @ + 1], id |-> id]
FreeNode(tr, id) == IF IsLeaf(tr, id) THEN [Drop(tr, id) EXCEPT !.leaves = @ - 1] ELSE [Drop(tr, id) EXCEPT !.inner = @ - 1]

(***************************************************************************)
(* Insertion                                                               *)
(***************************************************************************)
\* split_leaf_node -> [tr, key, node]
SplitLeaf(tr0, leaf) ==
    LET mid == Use(tr0, leaf) \div 2
        a == AllocLeaf(tr0)
        nl == a.id
        old == N(tr0, leaf)
        nxt == old.next
        tr1 == SetNode(a.tr, nl, [level |-> 0, keys |-> SubSeq(old.keys, mid + 1, Len(old.keys)), kids |-> <<>>, prev |-> leaf, next |-> nxt])
        tr2 == IF nxt = Null THEN [tr1 EXCEPT !.tail = nl] ELSE IF Mutation = "no_prev_fix" THEN tr1 ELSE SetNode(tr1, nxt, [N(tr1, nxt) EXCEPT !.prev = nl])
        tr3 == SetNode(tr2, leaf, [old EXCEPT !.keys = SubSeq(old.keys, 1, mid), !.next = nl])
    IN [tr |-> Tag(tr3, "split_leaf"), key |-> old.keys[mid], node |-> nl]

\* split_inner_node(inner, addslot) -> [tr, key, node]
SplitInner(tr0, inner, addslot) ==
    LET use == Use(tr0, inner)
        mid0 == use \div 2
        mid == IF addslot <= mid0 /\ mid0 > use - (mid0 + 1) THEN mid0 - 1 ELSE mid0
        old == N(tr0, inner)
        a == AllocInner(tr0, old.level)
        tr1 == SetNode(a.tr, a.id, [level |-> old.level, keys |-> SubSeq(old.keys, mid + 2, use), kids |-> SubSeq(old.kids, mid + 2, use + 1), prev |-> Null, next |-> Null])
        tr2 == SetNode(tr1, inner, [old EXCEPT !.keys = SubSeq(old.keys, 1, mid), !.kids = SubSeq(old.kids, 1, mid + 1)])
    IN [tr |-> Tag(tr2, IF mid = mid0 THEN "split_inner" ELSE "split_inner_left_smaller"), key |-> old.keys[mid + 1], node |-> a.id]

\* insert_descend -> [tr, inserted, split (node or Null), key]
RECURSIVE InsertDescend(_, _, _)
InsertDescend(tr0, n, k) ==
    IF ~IsLeaf(tr0, n)
    THEN LET slot == FindLower(N(tr0, n).keys, k)
             r == InsertDescend(tr0, Kid(tr0, n, slot), k)
         IN IF r.split = Null THEN [tr |-> r.tr, inserted |-> r.inserted, split |-> Null, key |-> 0]
            ELSE IF IsFull(r.tr, n)
            THEN LET sp == SplitInner(r.tr, n, slot)
                     tr1 == sp.tr
                 IN IF slot = Use(tr1, n) + 1 /\ Use(tr1, n) < Use(tr1, sp.node)
                    THEN \* special case: the insert key becomes the split key; move the split key into the left node
                         LET spn == N(tr1, sp.node)
                             tr2 == SetNode(tr1, n, [N(tr1, n) EXCEPT !.keys = Append(@, sp.key), !.kids = Append(@, spn.kids[1])])
                             tr3 == SetNode(tr2, sp.node, [spn EXCEPT !.kids[1] = r.split])
                         IN [tr |-> Tag(tr3, "split_inner_special"), inserted |-> r.inserted, split |-> sp.node, key |-> r.key]
                    ELSE LET right == slot >= Use(tr1, n) + 1
                             tgt == IF right THEN sp.node ELSE n
                             s2 == IF right THEN slot - (Use(tr1, n) + 1) ELSE slot
                             nd == N(tr1, tgt)
                             tr2 == SetNode(tr1, tgt, [nd EXCEPT !.keys = InsAt(@, s2, r.key), !.kids = InsAt(@, s2 + 1, r.split)])
                         IN [tr |-> Tag(tr2, IF right THEN "insert_into_new_inner" ELSE "insert_into_old_inner"), inserted |-> r.inserted, split |-> sp.node, key |-> sp.key]
            ELSE LET nd == N(r.tr, n)
                     tr2 == SetNode(r.tr, n, [nd EXCEPT !.keys = InsAt(@, slot, r.key), !.kids = InsAt(@, slot + 1, r.split)])
                 IN [tr |-> tr2, inserted |-> r.inserted, split |-> Null, key |-> 0]
    ELSE LET slot == FindLower(N(tr0, n).keys, k) IN
         IF ~Dup /\ slot < Use(tr0, n) /\ Key(tr0, n, slot) = k
         THEN [tr |-> tr0, inserted |-> FALSE, split |-> Null, key |-> 0]
         ELSE IF IsFull(tr0, n)
         THEN LET sp == SplitLeaf(tr0, n)
                  right == slot >= Use(sp.tr, n)
                  tgt == IF right THEN sp.node ELSE n
                  s2 == IF right THEN slot - Use(sp.tr, n) ELSE slot
                  tr2 == SetKeys(sp.tr, tgt, InsAt(N(sp.tr, tgt).keys, s2, k))
                  \* the new key became the last one of the left leaf: it is the split key
                  key2 == IF tgt # sp.node /\ s2 = Use(tr2, tgt) - 1 THEN k ELSE sp.key
              IN [tr |-> Tag(tr2, IF key2 = k /\ tgt # sp.node THEN "split_key_is_new_key" ELSE IF right THEN "insert_into_new_leaf" ELSE "insert_into_old_leaf"), inserted |-> TRUE, split |-> sp.node, key |-> key2]
         ELSE [tr |-> SetKeys(tr0, n, InsAt(N(tr0, n).keys, slot, k)), inserted |-> TRUE, split |-> Null, key |-> 0]

\* insert_start -> [tr, inserted]
DoInsert(tr0, k) ==
    LET trz == [tr0 EXCEPT !.how = {}]
        tr1 == IF trz.root = Null THEN LET a == AllocLeaf(trz) IN [a.tr EXCEPT !.root = a.id, !.head = a.id, !.tail = a.id] ELSE trz
        r == InsertDescend(tr1, tr1.root, k)
        tr2 == IF r.split = Null THEN r.tr
               ELSE LET a == AllocInner(r.tr, N(r.tr, r.tr.root).level + 1)
                    IN Tag([SetNode(a.tr, a.id, [N(a.tr, a.id) EXCEPT !.keys = <<r.key>>, !.kids = <<r.tr.root, r.split>>]) EXCEPT !.root = a.id], "new_root")
    IN [tr |-> IF r.inserted THEN [tr2 EXCEPT !.size = @ + 1] ELSE tr2, inserted |-> r.inserted]

(***************************************************************************)
(* Erase: rebalancing primitives.  Results carry flags as in result_t:     *)
(* [tr, found, upd (update_lastkey), lastkey, fixmerge]                     *)
(***************************************************************************)
Res(tr, found, upd, lastkey, fix) == [tr |-> tr, found |-> found, upd |-> upd, lastkey |-> lastkey, fixmerge |-> fix]
\* myres |= other
Or(a, tr, upd, lastkey, fix) == Res(tr, a.found, a.upd \/ upd, IF upd THEN lastkey ELSE a.lastkey, a.fixmerge \/ fix)

MergeLeaves(tr0, left, right) ==
    LET l == N(tr0, left)  r == N(tr0, right)
        tr1 == SetNode(tr0, left, [l EXCEPT !.keys = @ \o r.keys, !.next = r.next])
        tr2 == IF r.next # Null THEN SetNode(tr1, r.next, [N(tr1, r.next) EXCEPT !.prev = left]) ELSE [tr1 EXCEPT !.tail = left]
    IN SetKeys(tr2, right, <<>>)                 \* right->slotuse = 0; returns btree_fixmerge

MergeInner(tr0, left, right, parent, parentslot) ==
    LET l == N(tr0, left)  r == N(tr0, right)
        tr1 == SetNode(tr0, left, [l EXCEPT !.keys = Append(@, Key(tr0, parent, parentslot)) \o r.keys, !.kids = @ \o r.kids])
    IN SetNode(tr1, right, [r EXCEPT !.keys = <<>>, !.kids = <<>>])     \* slotuse = 0 (the child pointers are left behind in the code; they are dead)

\* shift_left_leaf -> [tr, upd, lastkey]
ShiftLeftLeaf(tr0, left, right, parent, parentslot) ==
    LET l == N(tr0, left)  r == N(tr0, right)
        shiftnum == (Len(r.keys) - Len(l.keys)) \div 2
        tr1 == SetKeys(tr0, left, l.keys \o SubSeq(r.keys, 1, shiftnum))
        tr2 == SetKeys(tr1, right, SubSeq(r.keys, shiftnum + 1, Len(r.keys)))
        lk == Key(tr2, left, Use(tr2, left) - 1)
    IN IF parentslot < Use(tr2, parent)
       THEN [tr |-> SetKey(tr2, parent, parentslot, lk), upd |-> FALSE, lastkey |-> 0]
       ELSE [tr |-> tr2, upd |-> TRUE, lastkey |-> lk]

ShiftLeftInner(tr0, left, right, parent, parentslot) ==
    LET l == N(tr0, left)  r == N(tr0, right)
        shiftnum == (Len(r.keys) - Len(l.keys)) \div 2
        tr1 == SetNode(tr0, left, [l EXCEPT !.keys = Append(@, Key(tr0, parent, parentslot)) \o SubSeq(r.keys, 1, shiftnum - 1),
                                           !.kids = @ \o SubSeq(r.kids, 1, shiftnum)])
        tr2 == SetKey(tr1, parent, parentslot, r.keys[shiftnum])
    IN SetNode(tr2, right, [r EXCEPT !.keys = SubSeq(@, shiftnum + 1, Len(r.keys)), !.kids = SubSeq(@, shiftnum + 1, Len(r.kids))])

ShiftRightLeaf(tr0, left, right, parent, parentslot) ==
    LET l == N(tr0, left)  r == N(tr0, right)
        shiftnum == (Len(l.keys) - Len(r.keys)) \div 2
        tr1 == SetKeys(tr0, right, SubSeq(l.keys, Len(l.keys) - shiftnum + 1, Len(l.keys)) \o r.keys)
        tr2 == SetKeys(tr1, left, SubSeq(l.keys, 1, Len(l.keys) - shiftnum))
    IN SetKey(tr2, parent, parentslot, Key(tr2, left, Use(tr2, left) - 1))

ShiftRightInner(tr0, left, right, parent, parentslot) ==
    LET l == N(tr0, left)  r == N(tr0, right)
        shiftnum == (Len(l.keys) - Len(r.keys)) \div 2
        lu == Len(l.keys)
        tr1 == SetNode(tr0, right, [r EXCEPT !.keys = SubSeq(l.keys, lu - shiftnum + 2, lu) \o <<Key(tr0, parent, parentslot)>> \o @,
                                            !.kids = SubSeq(l.kids, lu - shiftnum + 2, lu + 1) \o @])
        tr2 == SetKey(tr1, parent, parentslot, l.keys[lu - shiftnum + 1])
    IN SetNode(tr2, left, [l EXCEPT !.keys = SubSeq(@, 1, lu - shiftnum), !.kids = SubSeq(@, 1, lu - shiftnum + 1)])

(***************************************************************************)
(* erase_one_descend                                                       *)
(***************************************************************************)
\* the underflow handling shared by leaves and inner nodes (the code has the case analysis twice)
Rebalance(myres, curr, left, right, leftp, rightp, parent, parentslot) ==
    LET tr0 == myres.tr
        leaf == IsLeaf(tr0, curr)
        lfew == left = Null \/ IsFew(tr0, left)
        rfew == right = Null \/ IsFew(tr0, right)
        mergeL == IF leaf THEN Or(myres, MergeLeaves(tr0, left, curr), FALSE, 0, TRUE)
                          ELSE Or(myres, MergeInner(tr0, left, curr, leftp, parentslot - 1), FALSE, 0, TRUE)
        mergeR == IF leaf THEN Or(myres, MergeLeaves(tr0, curr, right), FALSE, 0, TRUE)
                          ELSE Or(myres, MergeInner(tr0, curr, right, rightp, parentslot), FALSE, 0, TRUE)
        shiftL == IF leaf THEN LET s == ShiftLeftLeaf(tr0, curr, right, rightp, parentslot) IN Or(myres, s.tr, s.upd, s.lastkey, FALSE)
                          ELSE Or(myres, ShiftLeftInner(tr0, curr, right, rightp, parentslot), FALSE, 0, FALSE)
        shiftR == IF leaf THEN Or(myres, ShiftRightLeaf(tr0, left, curr, leftp, parentslot - 1), FALSE, 0, FALSE)
                          ELSE Or(myres, ShiftRightInner(tr0, left, curr, leftp, parentslot - 1), FALSE, 0, FALSE)
    IN
    \* case: both siblings have few entries (or do not exist): merge with the one under the same parent
    LET T(r, s) == [r EXCEPT !.tr = Tag(@, (IF leaf THEN "leaf:" ELSE "inner:") \o s)] IN
    IF lfew /\ rfew THEN (IF leftp = parent THEN T(mergeL, "case1_merge_left") ELSE T(mergeR, "case1_merge_right"))
    \* case: left few, right has extra entries
    ELSE IF (left # Null /\ IsFew(tr0, left)) /\ (right # Null /\ ~IsFew(tr0, right)) THEN (IF rightp = parent THEN T(shiftL, "case2_shift_left") ELSE T(mergeL, "case2_merge_left"))
    \* case: right few, left has extra entries
    ELSE IF (left # Null /\ ~IsFew(tr0, left)) /\ (right # Null /\ IsFew(tr0, right)) THEN (IF leftp = parent THEN T(shiftR, "case3_shift_right") ELSE T(mergeR, "case3_merge_right"))
    \* case: both have extra entries, same parent: balance with the fuller one
    ELSE IF leftp = rightp THEN (IF Use(tr0, left) <= Use(tr0, right) THEN T(shiftL, "case4_shift_left") ELSE T(shiftR, "case4_shift_right"))
    ELSE (IF leftp = parent THEN T(shiftR, "case5_shift_right") ELSE T(shiftL, "case5_shift_left"))

\* erase_one_descend (tg = <<0, 0>>: the first entry with key k) and erase_iter_descend (tg = <<leaf, slot>>: exactly that entry;
\* the code searches the run of equal keys for the leaf, the model goes straight to the child that contains it) share everything else
RECURSIVE SubtreeOf(_, _)
SubtreeOf(tr, id) == IF IsLeaf(tr, id) THEN {id} ELSE {id} \cup UNION {SubtreeOf(tr, tr.nodes[id].kids[i]) : i \in 1 .. Len(tr.nodes[id].kids)}
RECURSIVE EraseOneDescend(_, _, _, _, _, _, _, _, _, _)
EraseOneDescend(tr0, k, tg, curr, left, right, leftp, rightp, parent, parentslot) ==
    IF IsLeaf(tr0, curr)
    THEN LET slot == IF tg[1] = Null THEN FindLower(N(tr0, curr).keys, k) ELSE tg[2] IN
         IF (tg[1] = Null /\ (slot >= Use(tr0, curr) \/ Key(tr0, curr, slot) # k)) \/ (tg[1] # Null /\ tg[1] # curr)
         THEN Res(tr0, FALSE, FALSE, 0, FALSE)
         ELSE LET tr1 == SetKeys(tr0, curr, DelAt(N(tr0, curr).keys, slot))
                  use == Use(tr1, curr)
                  \* the last key of the leaf changed: fix the parent's separator or hand the update upwards
                  r1 == IF slot = use
                        THEN IF parent # Null /\ parentslot < Use(tr1, parent)
                             THEN Res(Tag(SetKey(tr1, parent, parentslot, Key(tr1, curr, use - 1)), "lastkey_to_parent"), TRUE, FALSE, 0, FALSE)      \* (use >= 1 asserted by the code)
                             ELSE IF use >= 1 THEN Res(Tag(tr1, "lastkey_upwards"), TRUE, TRUE, Key(tr1, curr, use - 1), FALSE)
                             ELSE Res(tr1, TRUE, FALSE, 0, FALSE)
                        ELSE Res(tr1, TRUE, FALSE, 0, FALSE)
              IN IF IsUnderflow(r1.tr, curr) /\ ~(curr = r1.tr.root /\ use >= 1)
                 THEN IF left = Null /\ right = Null
                      THEN Res(Tag([FreeNode(r1.tr, curr) EXCEPT !.root = Null, !.head = Null, !.tail = Null], "last_leaf_freed"), TRUE, FALSE, 0, FALSE)
                      ELSE Rebalance(r1, curr, left, right, leftp, rightp, parent, parentslot)
                 ELSE r1
    ELSE LET inner == curr
             slot == IF tg[1] = Null THEN FindLower(N(tr0, inner).keys, k)
                     ELSE (CHOOSE s \in 0 .. Use(tr0, inner) : tg[1] \in SubtreeOf(tr0, Kid(tr0, inner, s)))
             use0 == Use(tr0, inner)
             myleft == IF slot = 0 THEN (IF left = Null THEN Null ELSE Kid(tr0, left, Use(tr0, left) - 1)) ELSE Kid(tr0, inner, slot - 1)
             myleftp == IF slot = 0 THEN leftp ELSE inner
             myright == IF slot = use0 THEN (IF right = Null THEN Null ELSE Kid(tr0, right, 0)) ELSE Kid(tr0, inner, slot + 1)
             myrightp == IF slot = use0 THEN rightp ELSE inner
             result == EraseOneDescend(tr0, k, tg, Kid(tr0, inner, slot), myleft, myright, myleftp, myrightp, inner, slot)
         IN IF ~result.found THEN result
            ELSE LET tr1 == result.tr
                     r1 == IF result.upd
                           THEN IF parent # Null /\ parentslot < Use(tr1, parent)
                                THEN Res(Tag(IF Mutation = "no_lastkey_to_grandparent" THEN tr1 ELSE SetKey(tr1, parent, parentslot, result.lastkey), "lastkey_to_grandparent"), TRUE, FALSE, 0, FALSE)
                                ELSE Res(Tag(tr1, "lastkey_further_upwards"), TRUE, TRUE, result.lastkey, FALSE)
                           ELSE Res(tr1, TRUE, FALSE, 0, FALSE)
                     r2 == IF result.fixmerge
                           THEN LET tr2 == r1.tr
                                    s2 == IF Use(tr2, Kid(tr2, inner, slot)) # 0 THEN slot + 1 ELSE slot      \* the emptied child
                                    dead == Kid(tr2, inner, s2)
                                    tr3 == IF Mutation = "no_free_on_merge" THEN tr2 ELSE FreeNode(tr2, dead)
                                    nd == N(tr3, inner)
                                    tr4 == SetNode(tr3, inner, [nd EXCEPT !.keys = DelAt(@, s2 - 1), !.kids = DelAt(@, s2)])
                                    tr5 == IF N(tr4, inner).level = 1
                                           THEN LET child == Kid(tr4, inner, s2 - 1) IN
                                                \* the code writes slotkey[slot] even when slot = slotuse (last child): an unused array slot
                                                IF s2 - 1 < Use(tr4, inner) THEN SetKey(tr4, inner, s2 - 1, Key(tr4, child, Use(tr4, child) - 1)) ELSE tr4
                                           ELSE tr4
                                IN [r1 EXCEPT !.tr = Tag(tr5, IF s2 = slot THEN "fixmerge_current_child" ELSE "fixmerge_next_child")]
                           ELSE r1
                 IN IF IsUnderflow(r2.tr, inner) /\ ~(inner = r2.tr.root /\ Use(r2.tr, inner) >= 1)
                    THEN IF left = Null /\ right = Null
                         THEN \* the root has no key left: its only child becomes the root
                              Res(Tag([FreeNode(r2.tr, inner) EXCEPT !.root = Kid(r2.tr, inner, 0)], "root_collapse"), TRUE, FALSE, 0, FALSE)
                         ELSE Rebalance(r2, inner, left, right, leftp, rightp, parent, parentslot)
                    ELSE r2

\* erase_one -> [tr, found]
DoEraseOne(tr0, k) ==
    IF tr0.root = Null THEN [tr |-> [tr0 EXCEPT !.how = {}], found |-> FALSE]
    ELSE LET r == EraseOneDescend([tr0 EXCEPT !.how = {}], k, <<Null, 0>>, tr0.root, Null, Null, Null, Null, Null, 0)
         IN [tr |-> IF r.found THEN [r.tr EXCEPT !.size = @ - 1] ELSE r.tr, found |-> r.found]

\* erase(iterator) of the entry at 0-based position p in container order -> [tr, found, key]
RECURSIVE LeafAt(_, _, _)
LeafAt(tr, leaf, p) == IF p < Use(tr, leaf) THEN <<leaf, p>> ELSE LeafAt(tr, N(tr, leaf).next, p - Use(tr, leaf))
DoEraseIter(tr0, p) ==
    LET tg == LeafAt(tr0, tr0.head, p)
        k == Key(tr0, tg[1], tg[2])
        r == EraseOneDescend([tr0 EXCEPT !.how = {"erase_iter"}], k, tg, tr0.root, Null, Null, Null, Null, Null, 0)
    IN [tr |-> IF r.found THEN [r.tr EXCEPT !.size = @ - 1] ELSE r.tr, found |-> r.found, key |-> k]

(***************************************************************************)
(* bulk_load(sorted range) into an empty tree: leaves filled evenly, then   *)
(* one level of inner nodes after the other                                 *)
(***************************************************************************)
CeilDiv(a, b) == (a + b - 1) \div b
\* n items over p nodes, node i gets remaining / (p - i)
RECURSIVE Groups(_, _)
Groups(rem, p) == IF p = 0 THEN <<>> ELSE <<rem \div p>> \o Groups(rem - rem \div p, p - 1)
RECURSIVE Starts(_, _)
Starts(sizes, from) == IF sizes = <<>> THEN <<>> ELSE <<from>> \o Starts(Tail(sizes), from + Head(sizes))

\* one level of inner nodes over `kids` = sequence of [id, maxkey]; ids from `firstId` on; returns [nodes (function on the new ids), up (sequence of [id, maxkey])]
InnerLevel(kids, level, firstId, P) ==
    LET sizes == Groups(Len(kids), P)
        starts == Starts(sizes, 0)
        Mk(i) == LET mine == SubSeq(kids, starts[i] + 1, starts[i] + sizes[i]) IN
                 [level |-> level, keys |-> [j \in 1 .. Len(mine) - 1 |-> mine[j].maxkey], kids |-> [j \in 1 .. Len(mine) |-> mine[j].id], prev |-> Null, next |-> Null]
    IN [nodes |-> [id \in firstId .. firstId + P - 1 |-> Mk(id - firstId + 1)],
        up |-> [i \in 1 .. P |-> [id |-> firstId + i - 1, maxkey |-> kids[starts[i] + sizes[i]].maxkey]]]

RECURSIVE BuildUp(_, _, _, _)
BuildUp(nodes, kids, level, inner) ==      \* -> [nodes, root, inner]
    IF Len(kids) = 1 THEN [nodes |-> nodes, root |-> kids[1].id, inner |-> inner]
    ELSE LET cap == IF Mutation = "bulk_leaf_capacity" /\ level >= 2 THEN LeafMax + 1 ELSE InnerMax + 1
             P == CeilDiv(Len(kids), cap)
             firstId == Cardinality(DOMAIN nodes) + 1
             lv == InnerLevel(kids, level, firstId, P)
         IN BuildUp(lv.nodes @@ nodes, lv.up, level + 1, inner + P)

DoBulkLoad(ks) ==
    IF ks = <<>> THEN EmptyTree
    ELSE LET n == Len(ks)
             L == CeilDiv(n, LeafMax)
             sizes == Groups(n, L)
             starts == Starts(sizes, 0)
             leaves == [id \in 1 .. L |-> [level |-> 0, keys |-> SubSeq(ks, starts[id] + 1, starts[id] + sizes[id]), kids |-> <<>>,
                                           prev |-> IF id = 1 THEN Null ELSE id - 1, next |-> IF id = L THEN Null ELSE id + 1]]
             up == [id \in 1 .. L |-> [id |-> id, maxkey |-> ks[starts[id] + sizes[id]]]]
             b == BuildUp(leaves, up, 1, 0)
         IN [nodes |-> b.nodes, root |-> b.root, head |-> 1, tail |-> L, leaves |-> L, inner |-> b.inner, size |-> n, how |-> {"bulk_load"}]

(***************************************************************************)
(* The state machine                                                       *)
(***************************************************************************)
Init == t = EmptyTree /\ bag = [k \in Keys |-> 0] /\ last = <<"init", 0, FALSE, {}>>

\* alternative start: the tree bulk-loaded with the first n keys (each once); histories then continue with insert / erase
SortedKeys == LET RECURSIVE Asc(_) Asc(S) == IF S = {} THEN <<>> ELSE LET k == CHOOSE x \in S : \A y \in S : x <= y IN <<k>> \o Asc(S \ {k}) IN Asc(Keys)
BulkInit == \E n \in 0 .. Cardinality(Keys) :
                /\ t = DoBulkLoad(SubSeq(SortedKeys, 1, n))
                /\ bag = [k \in Keys |-> IF \E i \in 1 .. n : SortedKeys[i] = k THEN 1 ELSE 0]
                /\ last = <<"bulk_load", n, TRUE, {"bulk_load"}>>


Insert(k) ==
    /\ bag[k] < MaxMult
    /\ LET r == DoInsert(t, k) IN
       /\ t' = r.tr
       /\ last' = <<"insert", k, r.inserted, r.tr.how>>
       /\ bag' = IF r.inserted THEN [bag EXCEPT ![k] = @ + 1] ELSE bag

EraseOne(k) ==
    LET r == DoEraseOne(t, k) IN
    /\ t' = r.tr
    /\ last' = <<"erase_one", k, r.found, r.tr.how>>
    /\ bag' = IF r.found THEN [bag EXCEPT ![k] = @ - 1] ELSE bag

EraseIter(p) ==
    /\ p < t.size
    /\ LET r == DoEraseIter(t, p) IN
       /\ t' = r.tr
       /\ last' = <<"erase_iter", p, r.found, r.tr.how>>
       /\ bag' = IF r.found THEN [bag EXCEPT ![r.key] = @ - 1] ELSE bag

Next == (\E k \in Keys : Insert(k) \/ EraseOne(k)) \/ (\E p \in 0 .. t.size - 1 : EraseIter(p))
Spec == Init /\ [][Next]_vars
BulkSpec == BulkInit /\ [][Next]_vars
\* bulk load only (no further calls): for checking large n cheaply
BulkOnlySpec == BulkInit /\ [][UNCHANGED vars]_vars

(***************************************************************************)
(* Properties: the clauses of C02, and the contents (C01)                  *)
(***************************************************************************)
Live == LiveOf(t)
RECURSIVE Subtree(_)
Subtree(id) == IF IsLeaf(t, id) THEN {id} ELSE {id} \cup UNION {Subtree(t.nodes[id].kids[i]) : i \in 1 .. Len(t.nodes[id].kids)}
Reachable == IF t.root = Null THEN {} ELSE Subtree(t.root)
RECURSIVE InOrder(_)
InOrder(id) == IF IsLeaf(t, id) THEN t.nodes[id].keys
               ELSE LET RECURSIVE Cat(_) Cat(i) == IF i > Len(t.nodes[id].kids) THEN <<>> ELSE InOrder(t.nodes[id].kids[i]) \o Cat(i + 1) IN Cat(1)
RECURSIVE LeafDepths(_, _)
LeafDepths(id, d) == IF IsLeaf(t, id) THEN {d} ELSE UNION {LeafDepths(t.nodes[id].kids[i], d + 1) : i \in 1 .. Len(t.nodes[id].kids)}
RECURSIVE MaxKey(_)
MaxKey(id) == IF IsLeaf(t, id) THEN t.nodes[id].keys[Len(t.nodes[id].keys)] ELSE MaxKey(t.nodes[id].kids[Len(t.nodes[id].kids)])
RECURSIVE MinKey(_)
MinKey(id) == IF IsLeaf(t, id) THEN t.nodes[id].keys[1] ELSE MinKey(t.nodes[id].kids[1])
RECURSIVE ChainFwd(_)
ChainFwd(id) == IF id = Null THEN <<>> ELSE t.nodes[id].keys \o ChainFwd(t.nodes[id].next)
RECURSIVE ChainBwd(_)
ChainBwd(id) == IF id = Null THEN <<>> ELSE ChainBwd(t.nodes[id].prev) \o t.nodes[id].keys
RECURSIVE BagSeq(_)
BagSeq(S) == IF S = {} THEN <<>> ELSE LET k == CHOOSE x \in S : \A y \in S : x <= y IN [i \in 1 .. bag[k] |-> k] \o BagSeq(S \ {k})

\* every pointer in the tree refers to a live node; every live node is in the tree: nothing dangling, nothing leaked
NoDanglingNoLeak == (t.root # Null => t.root \in Live) /\ (t.root # Null => Reachable = Live) /\ (t.root = Null => Live = {})
WellShaped == \A id \in Live : LET n == t.nodes[id] IN IF n.level = 0 THEN n.kids = <<>> ELSE Len(n.kids) = Len(n.keys) + 1 /\ \A i \in 1 .. Len(n.kids) : n.kids[i] \in Live /\ t.nodes[n.kids[i]].level = n.level - 1
Balanced == t.root # Null => Cardinality(LeafDepths(t.root, 0)) = 1
Filled == \A id \in Live : /\ Use(t, id) >= 1 /\ Use(t, id) <= (IF IsLeaf(t, id) THEN LeafMax ELSE InnerMax)
                           /\ (id # t.root => ~IsUnderflow(t, id))
Separated == \A id \in Live : ~IsLeaf(t, id) => \A s \in 1 .. Len(t.nodes[id].keys) :
                /\ t.nodes[id].keys[s] = MaxKey(t.nodes[id].kids[s])
                /\ t.nodes[id].keys[s] <= MinKey(t.nodes[id].kids[s + 1])
Ordered == t.root # Null => LET s == InOrder(t.root) IN \A i \in 1 .. Len(s) - 1 : s[i] <= s[i + 1]
Chained == /\ (t.root = Null) = (t.head = Null) /\ (t.root = Null) = (t.tail = Null)
           /\ t.root # Null => /\ ChainFwd(t.head) = InOrder(t.root) /\ ChainBwd(t.tail) = InOrder(t.root)
                               /\ t.nodes[t.head].prev = Null /\ t.nodes[t.tail].next = Null
Counted == /\ t.leaves = Cardinality({id \in Live : IsLeaf(t, id)}) /\ t.inner = Cardinality({id \in Live : ~IsLeaf(t, id)})
           /\ t.size = (IF t.root = Null THEN 0 ELSE Len(InOrder(t.root)))
\* C01: the tree holds exactly what the std container would, and the calls report what it would report
Contents == (IF t.root = Null THEN <<>> ELSE InOrder(t.root)) = BagSeq(Keys)
Results == CASE last[1] = "insert" -> last[3] = TRUE \/ ~Dup
             [] last[1] = "erase_iter" -> last[3] = TRUE
             [] OTHER -> TRUE
\* the tree up to the names of its nodes (VIEW): nested <<level, keys, children>> plus both chain walks
RECURSIVE Canon(_)
Canon(id) == <<t.nodes[id].level, t.nodes[id].keys, [i \in 1 .. Len(t.nodes[id].kids) |-> Canon(t.nodes[id].kids[i])]>>
View == <<IF t.root = Null THEN <<>> ELSE Canon(t.root), IF t.root = Null THEN <<>> ELSE <<ChainFwd(t.head), ChainBwd(t.tail)>>,
          t.leaves, t.inner, t.size, Cardinality(Live), bag, last>>
\* vacuity guard: printed once per state in the coverage run; the check collects the branch tags
Note == PrintT(<<"@@GEN@@", ToJson([how |-> last[4], height |-> IF t.root = Null THEN -1 ELSE t.nodes[t.root].level])>>)
TreeInv == NoDanglingNoLeak /\ WellShaped /\ Balanced /\ Filled /\ Separated /\ Ordered /\ Chained /\ Counted /\ Contents
=============================================================================
