------------------------------- MODULE MC_SVA -------------------------------
(***************************************************************************)
(* TLC checks algebraic laws that relate the definitions of SVA to each     *)
(* other on every (haystack, needle) of a bounded domain: a mistake in one  *)
(* definition breaks a law.                                                 *)
(***************************************************************************)
EXTENDS SVA
CONSTANTS Bytes, MaxH, MaxN
VARIABLES h, n
Strs(k) == UNION {[1 .. m -> Bytes] : m \in 0 .. k}
Init == h \in Strs(MaxH) /\ n \in Strs(MaxN)
Next == UNCHANGED <<h, n>>
Spec == Init /\ [][Next]_<<h, n>>
Pos == 0 .. (MaxH + 1)
Laws ==
    /\ Compare(h, n) = -Compare(n, h)
    /\ (Compare(h, n) = 0) <=> (h = n)
    /\ StartsWith(h, n) <=> (Find(h, n, 0) = 0)
    /\ EndsWith(h, n) <=> (Len(n) <= Len(h) /\ RFind(h, n, Npos) = Len(h) - Len(n))
    /\ (Find(h, n, 0) = Npos) <=> (RFind(h, n, Npos) = Npos)
    /\ Find(h, n, 0) <= RFind(h, n, Npos)
    /\ \A p \in Pos : Find(h, n, p) # Npos => (Find(h, n, p) >= p /\ Match(h, n, Find(h, n, p)))
    /\ \A p \in Pos : RFind(h, n, p) # Npos => (RFind(h, n, p) <= p /\ Match(h, n, RFind(h, n, p)))
    /\ \A p \in Pos : (FindFirstOf(h, n, p) = Npos) \/ (FindFirstNotOf(h, n, p) = Npos) \/ (FindFirstOf(h, n, p) # FindFirstNotOf(h, n, p))
    /\ \A p \in Pos : p <= Len(h) => (Substr(h, p, Npos) = RemovePrefix(h, p) /\ Copy(h, Npos, p) = Substr(h, p, Npos))
    /\ \A p \in Pos : p <= Len(h) => Compare3(h, p, Npos, RemovePrefix(h, p)) = 0
    /\ Substr(h, Len(h) + 1, 0) = OorSeq /\ AtChecked(h, Len(h)) = Oor
=============================================================================
