------------------------------- MODULE Trace_SV -------------------------------
(***************************************************************************)
(* C18 -- one event per (haystack h, needle n): what tlx::StringView        *)
(* returned for every query and every position / count argument of          *)
(* P = <<0, 1, .., 5, npos>>  ("t" fields), and what std::string_view       *)
(* returned on the same bytes ("s" fields).  The tlx result is judged       *)
(* against SVA; a disagreement between SVA and std::string_view would be a  *)
(* mistake in SVA and is reported as an internal error by the checker.      *)
(***************************************************************************)
EXTENDS SVA, TraceIO
VARIABLE l
Ev == TraceLog[l]
P == <<0, 1, 2, 3, 4, 5, -1>>
NP == 7
Sg(x) == IF x < 0 THEN -1 ELSE IF x > 0 THEN 1 ELSE 0

\* r: record of results (either the tlx or the std one)
Judge(h, n, r) ==
    /\ Sg(r.compare) = Compare(h, n)
    /\ r.eq = (Compare(h, n) = 0) /\ r.ne = (Compare(h, n) # 0)
    /\ r.lt = (Compare(h, n) < 0) /\ r.gt = (Compare(h, n) > 0) /\ r.le = (Compare(h, n) <= 0) /\ r.ge = (Compare(h, n) >= 0)
    /\ r.starts = StartsWith(h, n) /\ r.ends = EndsWith(h, n)
    /\ r.to_string = h
    /\ \A i \in 1 .. NP :
         /\ r.find[i] = Find(h, n, P[i]) /\ r.rfind[i] = RFind(h, n, P[i])
         /\ r.ffo[i] = FindFirstOf(h, n, P[i]) /\ r.flo[i] = FindLastOf(h, n, P[i])
         /\ r.ffno[i] = FindFirstNotOf(h, n, P[i]) /\ r.flno[i] = FindLastNotOf(h, n, P[i])
         /\ r.at[i] = AtChecked(h, P[i])
         /\ (P[i] # Npos /\ P[i] <= Len(h)) => (r.rmpre[i] = RemovePrefix(h, P[i]) /\ r.rmsuf[i] = RemoveSuffix(h, P[i]))
         /\ \A j \in 1 .. NP :
              /\ r.substr[i][j] = Substr(h, P[i], P[j])
              /\ r.copy[i][j] = Copy(h, P[j], P[i])
              /\ (IF Compare3(h, P[i], P[j], n) = Oor THEN r.compare3[i][j] = Oor ELSE Sg(r.compare3[i][j]) = Compare3(h, P[i], P[j], n))
    /\ (Len(n) = 1 => /\ r.starts_c = StartsWith(h, n) /\ r.ends_c = EndsWith(h, n)
                      /\ \A i \in 1 .. NP : r.find_c[i] = Find(h, n, P[i]) /\ r.rfind_c[i] = RFind(h, n, P[i]))

Step ==
    CASE Ev.e = "reset" -> TRUE
      [] Ev.e = "sv" -> Judge(Ev.h, Ev.n, Ev.t)
      [] Ev.e = "sv_std" -> Judge(Ev.h, Ev.n, Ev.s)      \* self-check of SVA against std::string_view
      [] OTHER -> FALSE
TInit == l = 1
TNext == l <= TraceLen /\ Step /\ l' = l + 1
TraceSpec == TInit /\ [][TNext]_l
Progress == TrackProgress(l)
Report == ReportResult
=============================================================================
