------------------------------- MODULE Trace_SV -------------------------------
(***************************************************************************)
(* C18 -- one event per (haystack h, needle n): what tlx::StringView        *)
(* returned for every query and every position / count argument of          *)
(* P = <<0, 1, .., 5, npos>>  ("t" fields), and what std::string_view       *)
(* returned on the same bytes ("s" fields).  The tlx result is judged       *)
(* against SVA; a disagreement between SVA and std::string_view would be a  *)
(* mistake in SVA and is reported as an internal error by the checker.      *)
(***************************************************************************)
EXTENDS SVA, TraceIO
VARIABLE l
Ev == TraceLog[l]
P == <<0, 1, 2, 3, 4, 5, -1, 1000000>>      \* the last one stands for npos - 1: a count or position far beyond any length, for which pos + n wraps around
NP == 8
Sg(x) == IF x < 0 THEN -1 ELSE IF x > 0 THEN 1 ELSE 0

\* r: record of results (either the tlx or the std one)
Judge(h, n, r) ==
    /\ Sg(r.compare) = Compare(h, n)
    /\ r.eq = (Compare(h, n) = 0) /\ r.ne = (Compare(h, n) # 0)
    /\ r.lt = (Compare(h, n) < 0) /\ r.gt = (Compare(h, n) > 0) /\ r.le = (Compare(h, n) <= 0) /\ r.ge = (Compare(h, n) >= 0)
    /\ r.starts = StartsWith(h, n) /\ r.ends = EndsWith(h, n)
    /\ r.to_string = h
    /\ \A i \in 1 .. NP :
         /\ r.find[i] = Find(h, n, P[i]) /\ r.rfind[i] = RFind(h, n, P[i])
         /\ r.ffo[i] = FindFirstOf(h, n, P[i]) /\ r.flo[i] = FindLastOf(h, n, P[i])
         /\ r.ffno[i] = FindFirstNotOf(h, n, P[i]) /\ r.flno[i] = FindLastNotOf(h, n, P[i])
         /\ r.at[i] = AtChecked(h, P[i])
         /\ (P[i] # Npos /\ P[i] <= Len(h)) => (r.rmpre[i] = RemovePrefix(h, P[i]) /\ r.rmsuf[i] = RemoveSuffix(h, P[i]))
         /\ \A j \in 1 .. NP :
              /\ r.substr[i][j] = Substr(h, P[i], P[j])
              /\ r.copy[i][j] = Copy(h, P[j], P[i])
              /\ (IF Compare3(h, P[i], P[j], n) = Oor THEN r.compare3[i][j] = Oor ELSE Sg(r.compare3[i][j]) = Compare3(h, P[i], P[j], n))
    /\ (Len(n) = 1 => /\ r.starts_c = StartsWith(h, n) /\ r.ends_c = EndsWith(h, n)
                      /\ \A i \in 1 .. NP : r.find_c[i] = Find(h, n, P[i]) /\ r.rfind_c[i] = RFind(h, n, P[i]))

\* ---- second event per case ("svx"): C-string / (pointer, length) / char / std::string overloads, iterators, aliasing views
RECURSIVE CzLen(_, _)
CzLen(s, k) == IF k > Len(s) \/ s[k] = 0 THEN k - 1 ELSE CzLen(s, k + 1)
Cz(s) == SubSeq(s, 1, CzLen(s, 1))                 \* what a const char* argument denotes: the bytes before the first NUL
Rel6(a, b) == LET c == Compare(a, b) IN <<c = 0, c # 0, c < 0, c > 0, c <= 0, c >= 0>>
Rev(s) == [i \in 1 .. Len(s) |-> s[Len(s) + 1 - i]]
SgOr(x, expected) == IF expected = Oor THEN x = Oor ELSE Sg(x) = expected
InRange(p, h) == p # Npos /\ p <= Len(h)

JudgeX(h, n, r) ==
    LET nz == Cz(n) IN
    /\ Sg(r.cmp_cs) = Compare(h, nz)
    /\ \A i \in 1 .. NP : \A j \in 1 .. NP :
         /\ SgOr(r.cmp3_cs[i][j], Compare3(h, P[i], P[j], nz))
         /\ SgOr(r.cmp4_cs[i][j], Compare3(h, P[i], P[j], n))
         /\ SgOr(r.cmp5[i][j], Compare5(h, P[i], P[j], n, P[j], P[i]))
         /\ IF InRange(P[i], h)
            THEN LET sub == Sub(h, P[i], P[j]) IN
                 /\ r.al[i][j] = Rel6(h, sub) \o Rel6(sub, h) \o <<StartsWith(h, sub), EndsWith(h, sub)>>
                 /\ Len(r.al_n[i][j]) = 7
                 /\ Sg(r.al_n[i][j][1]) = Compare(h, sub) /\ Sg(r.al_n[i][j][2]) = Compare(sub, h)
                 /\ r.al_n[i][j][3] = Find(h, sub, 0) /\ r.al_n[i][j][4] = RFind(h, sub, Npos) /\ r.al_n[i][j][5] = Find(sub, h, 0)
                 /\ r.al_n[i][j][6] = FindFirstOf(h, sub, 0) /\ r.al_n[i][j][7] = FindLastNotOf(h, sub, Npos)
            ELSE r.al[i][j] = <<>> /\ r.al_n[i][j] = <<>>
    /\ \A i \in 1 .. NP :
         /\ r.find_p[i] = Find(h, n, P[i]) /\ r.find_z[i] = Find(h, nz, P[i])
         /\ r.rfind_p[i] = RFind(h, n, P[i]) /\ r.rfind_z[i] = RFind(h, nz, P[i])
         /\ r.ffo_p[i] = FindFirstOf(h, n, P[i]) /\ r.ffo_z[i] = FindFirstOf(h, nz, P[i])
         /\ r.flo_p[i] = FindLastOf(h, n, P[i]) /\ r.flo_z[i] = FindLastOf(h, nz, P[i])
         /\ r.ffno_p[i] = FindFirstNotOf(h, n, P[i]) /\ r.ffno_z[i] = FindFirstNotOf(h, nz, P[i])
         /\ r.flno_p[i] = FindLastNotOf(h, n, P[i]) /\ r.flno_z[i] = FindLastNotOf(h, nz, P[i])
    /\ (Len(n) = 1 => \A i \in 1 .. NP :
            /\ r.ffo_c[i] = FindFirstOf(h, n, P[i]) /\ r.flo_c[i] = FindLastOf(h, n, P[i])
            /\ r.ffno_c[i] = FindFirstNotOf(h, n, P[i]) /\ r.flno_c[i] = FindLastNotOf(h, n, P[i]))
    /\ r.rel_s = Rel6(h, n) /\ r.rel_s2 = Rel6(h, n) /\ r.rel_z = Rel6(h, nz) /\ r.rel_z2 = Rel6(Cz(h), n)
    /\ r.fwd = h /\ r.cfwd = h /\ r.rev = Rev(h) /\ r.crev = Rev(h)
    /\ r.front = (IF Len(h) = 0 THEN Oor ELSE h[1]) /\ r.back = (IF Len(h) = 0 THEN Oor ELSE h[Len(h)])
    /\ r.len = Len(h) /\ r.size = Len(h) /\ r.empty = (Len(h) = 0)
    /\ r.swap_a = n /\ r.swap_b = h /\ r.dflt_len = 0
    /\ (HasField(r, "clear_len") =>      \* members / conversions that only tlx::StringView has (clear, to_string, <<, std interop)
            /\ r.clear_len = 0 /\ r.clear_empty = TRUE /\ r.to_string2 = h /\ r.stream = h /\ r.to_std = h /\ r.from_std = h
            /\ r.from_string = h /\ r.from_cstr = Cz(h) /\ r.from_range = h)

Step ==
    CASE Ev.e = "reset" -> TRUE
      [] Ev.e = "sv" -> Judge(Ev.h, Ev.n, Ev.t)
      [] Ev.e = "sv_std" -> Judge(Ev.h, Ev.n, Ev.s)      \* self-check of SVA against std::string_view
      [] Ev.e = "svx" -> JudgeX(Ev.h, Ev.n, Ev.t) /\ HasField(Ev.t, "clear_len")
      [] Ev.e = "svx_std" -> JudgeX(Ev.h, Ev.n, Ev.s)
      [] OTHER -> FALSE
TInit == l = 1
TNext == l <= TraceLen /\ Step /\ l' = l + 1
TraceSpec == TInit /\ [][TNext]_l
Progress == TrackProgress(l)
Report == ReportResult
=============================================================================
