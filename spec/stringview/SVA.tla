--------------------------------- MODULE SVA ---------------------------------
(***************************************************************************)
(* C18 -- the queries of std::string_view ([string.view]) as definitions on *)
(* sequences of bytes 0..255 (unsigned char values: comparison is by        *)
(* unsigned value, an embedded 0 is an ordinary byte).  Positions are       *)
(* 0-based as in C++; Npos = -1; an out_of_range exception is the result    *)
(* Oor = -2 (for operations returning bytes: the one-element sequence       *)
(* <<-2>>).  Behaviour that is undefined for std::string_view is not        *)
(* defined here and never generated.                                        *)
(***************************************************************************)
EXTENDS Integers, Sequences, FiniteSets

Npos == -1
Oor == -2
OorSeq == <<-2>>
Min2(a, b) == IF a < b THEN a ELSE b
SetMin(S) == CHOOSE x \in S : \A y \in S : x <= y
SetMax(S) == CHOOSE x \in S : \A y \in S : y <= x
\* s[pos, pos + n) clipped to the end, 0-based pos
Sub(s, pos, n) == SubSeq(s, pos + 1, pos + (IF n = Npos THEN Len(s) - pos ELSE Min2(n, Len(s) - pos)))
At(s, i) == s[i + 1]
Match(h, n, i) == i + Len(n) <= Len(h) /\ \A k \in 1 .. Len(n) : h[i + k] = n[k]

\* traits_type::compare then length: -1, 0, 1
RECURSIVE Lex(_, _, _)
Lex(a, b, k) == IF k > Len(a) /\ k > Len(b) THEN 0
                ELSE IF k > Len(a) THEN -1 ELSE IF k > Len(b) THEN 1
                ELSE IF a[k] < b[k] THEN -1 ELSE IF a[k] > b[k] THEN 1 ELSE Lex(a, b, k + 1)
Compare(a, b) == Lex(a, b, 1)
Beyond(pos, s) == pos = Npos \/ pos > Len(s)
Compare3(a, pos1, n1, b) == IF Beyond(pos1, a) THEN Oor ELSE Compare(Sub(a, pos1, n1), b)
Compare5(a, pos1, n1, b, pos2, n2) == IF Beyond(pos1, a) \/ Beyond(pos2, b) THEN Oor ELSE Compare(Sub(a, pos1, n1), Sub(b, pos2, n2))

StartsWith(h, n) == Len(n) <= Len(h) /\ Match(h, n, 0)
EndsWith(h, n) == Len(n) <= Len(h) /\ Match(h, n, Len(h) - Len(n))

Find(h, n, pos) ==
    LET C == {i \in 0 .. Len(h) : i >= pos /\ Match(h, n, i)} IN IF pos = Npos \/ C = {} THEN Npos ELSE SetMin(C)
RFind(h, n, pos) ==
    LET C == {i \in 0 .. Len(h) : (pos = Npos \/ i <= pos) /\ Match(h, n, i)} IN IF C = {} THEN Npos ELSE SetMax(C)
InSet(c, n) == \E k \in 1 .. Len(n) : n[k] = c
FindFirstOf(h, n, pos) ==
    LET C == {i \in 0 .. (Len(h) - 1) : pos # Npos /\ i >= pos /\ InSet(At(h, i), n)} IN IF C = {} THEN Npos ELSE SetMin(C)
FindLastOf(h, n, pos) ==
    LET C == {i \in 0 .. (Len(h) - 1) : (pos = Npos \/ i <= pos) /\ InSet(At(h, i), n)} IN IF C = {} THEN Npos ELSE SetMax(C)
FindFirstNotOf(h, n, pos) ==
    LET C == {i \in 0 .. (Len(h) - 1) : pos # Npos /\ i >= pos /\ ~InSet(At(h, i), n)} IN IF C = {} THEN Npos ELSE SetMin(C)
FindLastNotOf(h, n, pos) ==
    LET C == {i \in 0 .. (Len(h) - 1) : (pos = Npos \/ i <= pos) /\ ~InSet(At(h, i), n)} IN IF C = {} THEN Npos ELSE SetMax(C)

Substr(h, pos, n) == IF pos = Npos \/ pos > Len(h) THEN OorSeq ELSE Sub(h, pos, n)
\* copy(dest, n, pos): the bytes written to dest (their number is the return value)
Copy(h, n, pos) == IF pos = Npos \/ pos > Len(h) THEN OorSeq ELSE Sub(h, pos, n)
AtChecked(h, i) == IF i = Npos \/ i >= Len(h) THEN Oor ELSE At(h, i)
RemovePrefix(h, n) == SubSeq(h, n + 1, Len(h))
RemoveSuffix(h, n) == SubSeq(h, 1, Len(h) - n)
=============================================================================
