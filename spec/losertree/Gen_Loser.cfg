CONSTANTS MaxK = 3
          MaxKey = 2
          D = 3
          MinK = 1
SPECIFICATION GenSpec
INVARIANT Emit
CHECK_DEADLOCK FALSE
