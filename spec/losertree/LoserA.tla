------------------------------- MODULE LoserA -------------------------------
(***************************************************************************)
(* C09 -- property-level (abstract) specification of a loser tree.          *)
(*                                                                          *)
(* A loser tree over players 0..k-1.  Each player currently shows one key   *)
(* (a rank in 1..MaxKey, compared by the caller's strict weak order, which  *)
(* the drivers realise as less / greater / a coarser equivalence) or is     *)
(* exhausted, written 0.  The only observable is the reported winner.       *)
(* The specification says what winners are *legal*; which legal winner an   *)
(* unstable variant reports is deliberately left open.                      *)
(***************************************************************************)
EXTENDS Integers, FiniteSets, Sequences

CONSTANTS MaxK,      \* largest number of players explored
          MaxKey     \* keys are ranks 1..MaxKey; 0 means "exhausted" (sup)

VARIABLES k,         \* number of players of the current tree
          stable,    \* TRUE: ties must go to the smallest player index
          guarded,   \* FALSE: caller promises never to exhaust a player
          cur,       \* cur[p]: key shown by player p, 0 = exhausted
          winner,    \* player last reported by min_source()  (-1: none/invalid)
          phase      \* "new" (no tree), "run" (initialised)

vars == <<k, stable, guarded, cur, winner, phase>>

Sup     == 0
Keys    == 1 .. MaxKey
Players == 0 .. (k - 1)

Live(c)  == {p \in DOMAIN c : c[p] # Sup}

\* w is a legal answer of min_source() when the players show c
LegalWinner(c, w, st) ==
    IF Live(c) = {} THEN TRUE     \* nothing is promised once all are exhausted
    ELSE /\ w \in Live(c)
         /\ \A p \in Live(c) : c[w] <= c[p]
         /\ st => \A p \in Live(c) : (c[p] = c[w]) => w <= p

TypeOK ==
    /\ k \in 0 .. MaxK
    /\ stable \in BOOLEAN /\ guarded \in BOOLEAN
    /\ phase \in {"new", "run"}
    /\ phase = "run" => /\ DOMAIN cur = Players
                        /\ \A p \in Players : cur[p] \in Keys \cup {Sup}

Init ==
    /\ k = 0 /\ stable = FALSE /\ guarded = TRUE
    /\ cur = <<>> /\ winner = -1 /\ phase = "new"

\* construct a tree with kk players showing keys c, run init(), observe w
Start(kk, st, gd, c, w) ==
    /\ kk \in 1 .. MaxK
    /\ DOMAIN c = 0 .. (kk - 1)
    /\ \A p \in DOMAIN c : c[p] \in Keys \cup {Sup}
    /\ gd = FALSE => \A p \in DOMAIN c : c[p] # Sup   \* documented precondition
    /\ LegalWinner(c, w, st)
    /\ k' = kk /\ stable' = st /\ guarded' = gd /\ cur' = c
    /\ winner' = w /\ phase' = "run"

\* delete_min_insert: the caller replaces the winner's key by x (0 = it ran out)
Replace(x, w) ==
    /\ phase = "run"
    /\ Live(cur) # {}                     \* callers stop when everything is exhausted
    /\ winner \in Players
    /\ x \in Keys \cup {Sup}
    /\ guarded = FALSE => x # Sup
    /\ LET c == [cur EXCEPT ![winner] = x] IN
         /\ LegalWinner(c, w, stable)
         /\ cur' = c
    /\ winner' = w
    /\ UNCHANGED <<k, stable, guarded, phase>>

DoStart ==
    \E kk \in 1 .. MaxK, st \in BOOLEAN, gd \in BOOLEAN :
      \E c \in [0 .. (kk - 1) -> Keys \cup {Sup}] :
        \E w \in -1 .. (kk - 1) : Start(kk, st, gd, c, w)

DoReplace == \E x \in Keys \cup {Sup}, w \in Players \cup {-1} : Replace(x, w)

Next == DoStart \/ DoReplace

Spec == Init /\ [][Next]_vars

(***************************************************************************)
(* Properties of the specification itself (checked by TLC).                 *)
(***************************************************************************)
\* the reported winner always holds a minimum of the live keys
WinnerIsMin ==
    (phase = "run" /\ Live(cur) # {}) =>
        /\ winner \in Live(cur)
        /\ \A p \in Live(cur) : cur[winner] <= cur[p]

\* never an exhausted player while a live one remains
NoExhaustedWinner ==
    (phase = "run" /\ Live(cur) # {}) => cur[winner] # Sup

StableTie ==
    (phase = "run" /\ stable /\ Live(cur) # {}) =>
        \A p \in Live(cur) : cur[p] = cur[winner] => winner <= p

\* unguarded trees never see an exhausted player
UnguardedNeverExhausted ==
    (phase = "run" /\ ~guarded) => Live(cur) = Players

\* draining: consecutive winners' keys never decrease as long as the caller
\* only feeds keys >= the key it removes (the merge use case)
=============================================================================
