CONSTANTS MaxK = 3
          MaxKey = 2
SPECIFICATION Spec
INVARIANTS EachPlayerOnce WinnerBeatsAll UnguardedNoSup AbsWinnerLegal
PROPERTY Refines
CHECK_DEADLOCK FALSE
