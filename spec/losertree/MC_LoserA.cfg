CONSTANTS MaxK = 3
          MaxKey = 2
SPECIFICATION Spec
INVARIANTS TypeOK WinnerIsMin NoExhaustedWinner StableTie UnguardedNeverExhausted
CHECK_DEADLOCK FALSE
