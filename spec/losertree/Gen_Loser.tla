------------------------------ MODULE Gen_Loser ------------------------------
(***************************************************************************)
(* C09 -- behaviour generator.  LoserI extended by a history variable; TLC  *)
(* enumerates (BFS, CONSTRAINT Bound) or samples (-simulate) its behaviours *)
(* and prints each complete history as JSON.  The driver replays the inputs *)
(* of a history on the real classes; "ws" are the winners LoserI predicts   *)
(* (used for the drift comparison only, never for the verdict).             *)
(***************************************************************************)
EXTENDS LoserI, TLC, Json

CONSTANTS D,         \* number of replace operations per history
          MinK       \* smallest number of players generated

VARIABLE h

gvars == <<ivars, h>>

W == IF L[0].source = Invalid THEN -1 ELSE L[0].source

GInit == Init /\ h = [k |-> 0, stable |-> FALSE, guarded |-> TRUE, keys |-> <<>>, xs |-> <<>>, ws |-> <<>>]

\* players are added one key at a time (keeps the branching small enough for
\* -simulate); the tree is built once at least MinK keys are there
GAdd ==
    /\ phase = "new" /\ Len(h.keys) < MaxK
    /\ \E x \in Keys \cup {0} : h' = [h EXCEPT !.keys = Append(@, x)]
    /\ UNCHANGED ivars

GStart ==
    /\ phase = "new" /\ Len(h.keys) >= MinK
    /\ \E st \in BOOLEAN, gd \in BOOLEAN :
         LET kk == Len(h.keys)
             c  == [p \in 0 .. (kk - 1) |-> h.keys[p + 1]]
         IN /\ Start(kk, st, gd, c)
            /\ h' = [h EXCEPT !.k = kk, !.stable = st, !.guarded = gd,
                     !.ws = <<IF L'[0].source = Invalid THEN -1 ELSE L'[0].source>>]

GReplace ==
    /\ Len(h.xs) < D
    /\ \E x \in Keys \cup {0} :
         /\ Replace(x)
         /\ h' = [h EXCEPT !.xs = Append(@, x),
                           !.ws = Append(@, IF L'[0].source = Invalid THEN -1 ELSE L'[0].source)]

GNext == GAdd \/ GStart \/ GReplace
GenSpec == GInit /\ [][GNext]_gvars

Finished == phase = "run" /\ (Len(h.xs) = D \/ L[0].source = Invalid \/ (guarded /\ L[0].sup))

Emit == Finished => PrintT(<<"@@GEN@@", ToJson(h)>>)
=============================================================================
