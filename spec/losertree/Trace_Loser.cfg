CONSTANTS MaxK = 64
          MaxKey = 20
SPECIFICATION TraceSpec
INVARIANTS WinnerIsMin NoExhaustedWinner StableTie
CONSTRAINT Progress
POSTCONDITION Report
CHECK_DEADLOCK FALSE
