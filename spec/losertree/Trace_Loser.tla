----------------------------- MODULE Trace_Loser -----------------------------
(***************************************************************************)
(* C09 -- trace specification: a recorded execution of a real tlx loser     *)
(* tree (events written by harness/drv_losertree.cpp) is accepted iff it is *)
(* a behaviour of LoserA.  Every event carries its arguments and the        *)
(* observed winner, so validation is linear in the trace length.            *)
(*   {"e":"reset","k":3,"stable":true,"guarded":true,"keys":[1,0,2],"w":0}  *)
(*   {"e":"replace","x":2,"w":0}                                            *)
(***************************************************************************)
EXTENDS LoserA, TraceIO

VARIABLE l

tvars == <<vars, l>>

Ev == TraceLog[l]

TStart ==
    /\ l <= TraceLen /\ Ev.e = "reset"
    /\ Start(Ev.k, Ev.stable, Ev.guarded, [p \in 0 .. (Ev.k - 1) |-> Ev.keys[p + 1]], Ev.w)
    /\ l' = l + 1

TReplace ==
    /\ l <= TraceLen /\ Ev.e = "replace"
    /\ Replace(Ev.x, Ev.w)
    /\ l' = l + 1

TInit == Init /\ l = 1
TNext == TStart \/ TReplace
TraceSpec == TInit /\ [][TNext]_tvars

Progress == TrackProgress(l)
Report == ReportResult
=============================================================================
