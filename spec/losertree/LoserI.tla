------------------------------- MODULE LoserI -------------------------------
(***************************************************************************)
(* C09 -- implementation-shaped specification of tlx's loser trees.         *)
(*                                                                          *)
(* Transcribes tlx/container/loser_tree.hpp: the array losers_[0 .. 2K-1]   *)
(* (K = k rounded up to a power of two), insert_start, the recursive        *)
(* init_winner with "left wins ties", and the four leaf-to-root replays of  *)
(* delete_min_insert (guarded / unguarded x stable / unstable).  The Copy   *)
(* and Pointer classes differ only in how a key is stored, not in control   *)
(* flow, so they share this model.                                          *)
(*                                                                          *)
(* TLC checks that every behaviour of this module is a behaviour of LoserA  *)
(* under the mapping  cur[p] = key of the unique entry of player p among    *)
(* losers_[0 .. K-1]  (refinement), plus the tournament invariants below.   *)
(***************************************************************************)
EXTENDS Integers, FiniteSets, Sequences

CONSTANTS MaxK, MaxKey

VARIABLES k, K, stable, guarded, L, phase

ivars == <<k, K, stable, guarded, L, phase>>

Invalid  == 99              \* Source(-1): compares greater than every player
Sentinel == MaxKey + 1      \* unguarded trees: key greater than every real key
Keys     == 1 .. MaxKey
Players  == 0 .. (k - 1)

Pow2Up(n) == IF n <= 1 THEN 1 ELSE IF n <= 2 THEN 2 ELSE IF n <= 4 THEN 4
             ELSE IF n <= 8 THEN 8 ELSE 16

Node(sp, sr, ky) == [sup |-> sp, source |-> sr, key |-> ky]

\* cmp_(a.key, b.key): the caller's strict order on keys
Less(a, b) == a < b

(***************************************************************************)
(* init_winner(root): plays the tournament below root; stores the loser at  *)
(* root and returns the (leaf) index of the winner.  Result <<array, idx>>. *)
(***************************************************************************)
RECURSIVE InitWinner(_, _, _, _)
InitWinner(A, root, KK, gd) ==
    IF root >= KK THEN <<A, root>>
    ELSE LET lres  == InitWinner(A, 2 * root, KK, gd)
             rres  == InitWinner(lres[1], 2 * root + 1, KK, gd)
             B     == rres[1]
             left  == lres[2]
             right == rres[2]
             leftWins ==
                 IF gd THEN B[right].sup \/ (~B[left].sup /\ ~Less(B[right].key, B[left].key))
                       ELSE ~Less(B[right].key, B[left].key)
         IN IF leftWins THEN <<[B EXCEPT ![root] = B[right]], left>>
                        ELSE <<[B EXCEPT ![root] = B[left]], right>>

(***************************************************************************)
(* One match of delete_min_insert at inner node pos between the travelling  *)
(* candidate c and the stored loser: TRUE iff "the other one is smaller",   *)
(* i.e. the stored loser is promoted and c stays behind.                    *)
(***************************************************************************)
OtherWins(st, gd, o, c) ==
    IF gd THEN
        IF st THEN
            \/ (c.sup /\ (~o.sup \/ o.source < c.source))
            \/ (~c.sup /\ ~o.sup /\ (Less(o.key, c.key) \/ (~Less(c.key, o.key) /\ o.source < c.source)))
        ELSE
            IF c.sup THEN TRUE
            ELSE IF o.sup THEN FALSE
            ELSE Less(o.key, c.key)
    ELSE
        IF st THEN Less(o.key, c.key) \/ (~Less(c.key, o.key) /\ o.source < c.source)
              ELSE Less(o.key, c.key)

RECURSIVE Walk(_, _, _, _, _)
Walk(A, pos, c, st, gd) ==
    IF pos = 0 THEN [A EXCEPT ![0] = c]
    ELSE IF OtherWins(st, gd, A[pos], c)
         THEN Walk([A EXCEPT ![pos] = c], pos \div 2, A[pos], st, gd)
         ELSE Walk(A, pos \div 2, c, st, gd)

Init ==
    /\ k = 0 /\ K = 0 /\ stable = FALSE /\ guarded = TRUE
    /\ L = <<>> /\ phase = "new"

\* constructor + insert_start for every player + init()
Start(kk, st, gd, c) ==
    /\ gd = FALSE => \A p \in DOMAIN c : c[p] # 0
    /\ LET KK == Pow2Up(kk)
           first == c[0]       \* first_insert_ copies the first key everywhere
           leaf(p) == IF p < kk
                      THEN Node(gd /\ c[p] = 0, p, c[p])
                      ELSE IF gd THEN Node(TRUE, Invalid, first)
                                 ELSE Node(FALSE, Invalid, Sentinel)
           A0 == [i \in 0 .. (2 * KK - 1) |->
                     IF i >= KK THEN leaf(i - KK)
                     ELSE IF gd THEN Node(FALSE, Invalid, first)
                                ELSE Node(FALSE, Invalid, Sentinel)]
           res == InitWinner(A0, 1, KK, gd)
       IN /\ K' = KK
          /\ L' = [res[1] EXCEPT ![0] = res[1][res[2]]]
    /\ k' = kk /\ stable' = st /\ guarded' = gd /\ phase' = "run"

\* delete_min_insert(keyp, sup): x = 0 means sup
Replace(x) ==
    /\ phase = "run"
    /\ L[0].source # Invalid
    /\ (guarded /\ L[0].sup) = FALSE        \* callers stop once the winner is exhausted
    /\ guarded = FALSE => x # 0
    /\ LET src == L[0].source
           c   == Node(guarded /\ x = 0, src, x)
       IN L' = Walk(L, (K + src) \div 2, c, stable, guarded)
    /\ UNCHANGED <<k, K, stable, guarded, phase>>

\* one tree per behaviour: its whole replace history is explored
DoStart ==
    /\ phase = "new"
    /\ \E kk \in 1 .. MaxK, st \in BOOLEAN, gd \in BOOLEAN :
         \E c \in [0 .. (kk - 1) -> Keys \cup {0}] : Start(kk, st, gd, c)

DoReplace == \E x \in Keys \cup {0} : Replace(x)

Next == DoStart \/ DoReplace

Spec == Init /\ [][Next]_ivars

(***************************************************************************)
(* Refinement mapping to LoserA.                                            *)
(***************************************************************************)
Inner == 0 .. (K - 1)
EntryOf(p) == CHOOSE i \in Inner : L[i].source = p
AbsCur == IF phase = "new" THEN <<>>
          ELSE [p \in Players |-> IF L[EntryOf(p)].sup THEN 0 ELSE L[EntryOf(p)].key]
AbsWinner == IF phase = "new" \/ L[0].source = Invalid THEN -1 ELSE L[0].source

Abs == INSTANCE LoserA WITH cur <- AbsCur, winner <- AbsWinner

Refines == Abs!Spec

(***************************************************************************)
(* Representation invariants.                                               *)
(***************************************************************************)
\* every player occupies exactly one of the K tournament slots
EachPlayerOnce ==
    phase = "run" => \A p \in Players : Cardinality({i \in Inner : L[i].source = p}) = 1

\* the overall winner beats (is not greater than) every stored loser
WinnerBeatsAll ==
    (phase = "run" /\ guarded /\ ~L[0].sup) =>
        \A i \in Inner : L[i].sup \/ ~Less(L[i].key, L[0].key)

\* the loser stored at inner node i lost against the winner of the path above:
\* weaker, local form of the tournament property used for drift comparison
UnguardedNoSup == (phase = "run" /\ ~guarded) => \A i \in Inner : ~L[i].sup

AbsWinnerLegal == phase = "run" => Abs!LegalWinner(AbsCur, AbsWinner, stable)
=============================================================================
