CONSTANTS Keys = {0,1,2}
          Prios = {1,2}
          Arity = 2
          FixedHeapify = TRUE
          D = 3
SPECIFICATION GenSpec
INVARIANT Emit
CHECK_DEADLOCK FALSE
