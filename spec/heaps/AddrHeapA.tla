------------------------------ MODULE AddrHeapA ------------------------------
(***************************************************************************)
(* C13 -- property-level specification of tlx::DAryAddressableIntHeap: a    *)
(* set of distinct integer keys ordered through an external priority table  *)
(* (the custom-comparator use case).  The table belongs to the environment: *)
(* SetPrio changes an entry and obliges the caller to call update(k) (or    *)
(* update_all()) before anything else -- otherwise behaviour is documented  *)
(* as undefined, so the generators never offer it.                          *)
(***************************************************************************)
EXTENDS Integers, Sequences, FiniteSets

CONSTANTS Keys, Prios
VARIABLES items,    \* set of keys in the heap
          prio,     \* [Keys -> Prios], the external table
          dirty     \* keys whose priority changed and which were not updated yet

vars == <<items, prio, dirty>>

IsMin(k) == k \in items /\ \A j \in items : prio[k] <= prio[j]

Init == items = {} /\ prio \in [Keys -> Prios] /\ dirty = {}

New(p) == items' = {} /\ prio' = p /\ dirty' = {}

Clean == dirty = {}

Push(k) == Clean /\ k \notin items /\ items' = items \cup {k} /\ UNCHANGED <<prio, dirty>>
Remove(k) == Clean /\ k \in items /\ items' = items \ {k} /\ UNCHANGED <<prio, dirty>>
Top(ret) == Clean /\ IsMin(ret) /\ UNCHANGED vars
Pop(ret) == Clean /\ IsMin(ret) /\ items' = items \ {ret} /\ UNCHANGED <<prio, dirty>>
Contains(k, ret) == ret = (k \in items) /\ UNCHANGED vars

SetPrio(k, p) == prio' = [prio EXCEPT ![k] = p] /\ dirty' = (IF k \in items THEN dirty \cup {k} ELSE dirty) /\ UNCHANGED items
\* update(k): re-establishes the order for k; adds k when it is absent
Update(k) ==
    /\ dirty \subseteq {k}
    /\ items' = items \cup {k}
    /\ dirty' = {}
    /\ UNCHANGED prio
UpdateAll == dirty' = {} /\ UNCHANGED <<items, prio>>
\* build_heap(list of distinct keys): contents become exactly the list
BuildHeap(S) == items' = S /\ dirty' = {} /\ UNCHANGED prio
Clear == items' = {} /\ dirty' = {} /\ UNCHANGED prio

LegalDrain(d) ==
    /\ Len(d) = Cardinality(items)
    /\ {d[i] : i \in DOMAIN d} = items
    /\ \A i \in 1 .. (Len(d) - 1) : prio[d[i]] <= prio[d[i + 1]]

Next ==
    \/ \E k \in Keys : Push(k) \/ Remove(k) \/ Update(k) \/ Top(k) \/ Pop(k)
    \/ \E k \in Keys, p \in Prios : SetPrio(k, p)
    \/ \E S \in SUBSET Keys : BuildHeap(S)
    \/ UpdateAll \/ Clear

Spec == Init /\ [][Next]_vars

DirtyInItems == dirty \subseteq items
=============================================================================
