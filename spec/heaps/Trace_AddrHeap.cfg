CONSTANTS Keys = {0}
          Prios = {0}
SPECIFICATION TraceSpec
INVARIANT DirtyInItems
CONSTRAINT Progress
POSTCONDITION Report
CHECK_DEADLOCK FALSE
