---------------------------- MODULE Trace_AddrHeap ----------------------------
(***************************************************************************)
(* C13 -- trace specification for DAryAddressableIntHeap executions         *)
(* (harness/drv_addr.cpp).  obs: size(), contains(k) for every key of the   *)
(* universe, the drain order of a copy, sanity_check() (logged as a fact,   *)
(* judged here only as "must be true when the table is clean").             *)
(***************************************************************************)
EXTENDS AddrHeapA, TraceIO
VARIABLE l
tvars == <<vars, l>>
Ev == TraceLog[l]

SeqToSet(s) == {s[i] : i \in DOMAIN s}
Distinct(s) == \A i, j \in DOMAIN s : i # j => s[i] # s[j]
ToFn(s) == [k \in 0 .. (Len(s) - 1) |-> s[k + 1]]

ObsOK(e) ==
    /\ e.obs.size = Cardinality(items')
    /\ \A k \in 0 .. (Len(e.obs.contains) - 1) : e.obs.contains[k + 1] = (k \in items')
    /\ dirty' = {} =>
         /\ Len(e.obs.drain) = Cardinality(items')
         /\ SeqToSet(e.obs.drain) = items'
         /\ \A i \in 1 .. (Len(e.obs.drain) - 1) : prio'[e.obs.drain[i]] <= prio'[e.obs.drain[i + 1]]
         /\ e.obs.sane = TRUE

Step(e) ==
    CASE e.e = "reset"      -> New(ToFn(e.prio))
      [] e.e = "push"       -> Push(e.k)
      [] e.e = "remove"     -> Remove(e.k)
      [] e.e = "top"        -> Top(e.ret)
      [] e.e = "pop"        -> Pop(e.ret)
      [] e.e = "setprio"    -> SetPrio(e.k, e.p)
      [] e.e = "update"     -> Update(e.k)
      [] e.e = "update_all" -> UpdateAll
      [] e.e = "build"      -> Distinct(e.list) /\ BuildHeap(SeqToSet(e.list))
      [] e.e = "clear"      -> Clear
      [] e.e = "reserve"    -> UNCHANGED vars       \* reserve(n): contents untouched (capacity is a hint; the addressable heap only grows it together with its handle table)
      [] OTHER              -> FALSE

TInit == items = {} /\ prio = <<>> /\ dirty = {} /\ l = 1
TNext == l <= TraceLen /\ Step(Ev) /\ ObsOK(Ev) /\ l' = l + 1
TraceSpec == TInit /\ [][TNext]_tvars
Progress == TrackProgress(l)
Report == ReportResult
=============================================================================
