------------------------------ MODULE BagHeapA ------------------------------
(***************************************************************************)
(* C13 -- property-level specification shared by tlx::DAryHeap (items are   *)
(* keys, ordered by the heap's comparator) and tlx::RadixHeap (items are    *)
(* key/payload pairs, keys monotone).  Items are <<key, id>> pairs; keys    *)
(* are ranks in the heap's order (the drivers map ranks to concrete values  *)
(* of every key type, comparator and signedness).                           *)
(*                                                                          *)
(* top may be *any* item of minimal key.  For the monotone (radix) flavour  *)
(* the environment may only push keys >= frontier, the minimum last exposed *)
(* by top / pop / swap_top_bucket (documented "insertion limit").           *)
(***************************************************************************)
EXTENDS Integers, Sequences, FiniteSets

CONSTANTS Keys, Ids
VARIABLES items,      \* set of <<key, id>>
          monotone,   \* TRUE: radix heap rules
          frontier    \* monotone only: smallest key that may still be pushed

vars == <<items, monotone, frontier>>

MinusInf == -1
KeysOf(S) == {x[1] : x \in S}
IsMin(x) == x \in items /\ \A y \in items : x[1] <= y[1]
MinKey == CHOOSE k \in KeysOf(items) : \A j \in KeysOf(items) : k <= j

Init == items = {} /\ monotone = FALSE /\ frontier = MinusInf

New(m) == items' = {} /\ monotone' = m /\ frontier' = MinusInf

Push(k, id) ==
    /\ <<k, id>> \notin items
    /\ monotone => k >= frontier
    /\ items' = items \cup {<<k, id>>}
    /\ UNCHANGED <<monotone, frontier>>

\* top(): ret is some minimal item; the radix heap moves its frontier there
Top(ret) ==
    /\ IsMin(ret)
    /\ frontier' = IF monotone THEN ret[1] ELSE frontier
    /\ UNCHANGED <<items, monotone>>

\* pop() / extract_top(): removes the item top() shows
Pop(ret) ==
    /\ IsMin(ret)
    /\ items' = items \ {ret}
    /\ frontier' = IF monotone THEN ret[1] ELSE frontier
    /\ UNCHANGED monotone

\* peak_top_key(): smallest key, no frontier change
PeakTopKey(k) == items # {} /\ k = MinKey /\ UNCHANGED vars

\* swap_top_bucket(out): out receives exactly the items of minimal key
SwapTopBucket(out) ==
    /\ items # {}
    /\ out = {x \in items : x[1] = MinKey}
    /\ items' = items \ out
    /\ frontier' = MinKey
    /\ UNCHANGED monotone

\* build_heap(list): contents become exactly the list
BuildHeap(S) == ~monotone /\ items' = S /\ UNCHANGED <<monotone, frontier>>
UpdateAll == ~monotone /\ UNCHANGED vars
Clear == items' = {} /\ frontier' = MinusInf /\ UNCHANGED monotone

Size == Cardinality(items)

\* a drain (repeated extract_top on a copy) is legal iff it lists every item
\* once and its keys never decrease
LegalDrain(d) ==
    /\ Len(d) = Cardinality(items)
    /\ {d[i] : i \in DOMAIN d} = items
    /\ \A i \in 1 .. (Len(d) - 1) : d[i][1] <= d[i + 1][1]

Next ==
    \/ \E m \in BOOLEAN : New(m)
    \/ \E k \in Keys, id \in Ids : Push(k, id)
    \/ \E x \in items : Top(x) \/ Pop(x)
    \/ \E k \in Keys : PeakTopKey(k)
    \/ (monotone /\ items # {} /\ SwapTopBucket({x \in items : x[1] = MinKey}))
    \/ \E S \in SUBSET (Keys \X Ids) : BuildHeap(S)
    \/ UpdateAll \/ Clear

Spec == Init /\ [][Next]_vars

FrontierBelowAll == (monotone /\ items # {}) => \A x \in items : x[1] >= frontier
=============================================================================
