CONSTANTS Keys = {0,1,2}
          Ids = {1,2}
SPECIFICATION Spec
INVARIANT FrontierBelowAll
CHECK_DEADLOCK FALSE
