---------------------------- MODULE Trace_BagHeap ----------------------------
(***************************************************************************)
(* C13 -- trace specification for DAryHeap and RadixHeap executions         *)
(* (harness/drv_dary.cpp, drv_radix.cpp).  Items are [key rank, id].  After *)
(* every call the driver logs size() and the drain order of a *copy* of the *)
(* heap (repeated top/pop), which must list exactly the abstract items in   *)
(* non-decreasing key order; "peak" is peak_top_key() of the radix heap.    *)
(***************************************************************************)
EXTENDS BagHeapA, TraceIO
VARIABLE l
tvars == <<vars, l>>
Ev == TraceLog[l]

SeqToSet(s) == {s[i] : i \in DOMAIN s}
Distinct(s) == \A i, j \in DOMAIN s : i # j => s[i] # s[j]

\* LegalDrain evaluated on the primed state
LegalDrainNext(d) ==
    /\ Len(d) = Cardinality(items')
    /\ SeqToSet(d) = items'
    /\ \A i \in 1 .. (Len(d) - 1) : d[i][1] <= d[i + 1][1]

ObsOK(e) ==
    /\ e.obs.size = Cardinality(items')
    /\ e.obs.empty = (items' = {})
    /\ LegalDrainNext(e.obs.drain)
    /\ (HasField(e.obs, "peak") /\ items' # {}) => \A x \in items' : e.obs.peak <= x[1] /\ e.obs.peak \in KeysOf(items')
    /\ e.obs.sane = TRUE

Step(e) ==
    CASE e.e = "reset"      -> New(e.monotone)
      [] e.e = "push"       -> Push(e.k, e.id)
      [] e.e = "top"        -> Top(e.ret)
      [] e.e = "pop"        -> Pop(e.ret)
      [] e.e = "peak"       -> PeakTopKey(e.k)
      [] e.e = "swap"       -> Distinct(e.out) /\ SwapTopBucket(SeqToSet(e.out))
      [] e.e = "build"      -> Distinct(e.list) /\ BuildHeap(SeqToSet(e.list))
      [] e.e = "update_all" -> UpdateAll
      [] e.e = "clear"      -> Clear
      [] e.e = "reserve"    -> UNCHANGED vars       \* reserve(n): contents untouched (capacity is a hint; the addressable heap only grows it together with its handle table)
      [] OTHER              -> FALSE

TInit == Init /\ l = 1
TNext == l <= TraceLen /\ Step(Ev) /\ ObsOK(Ev) /\ l' = l + 1
TraceSpec == TInit /\ [][TNext]_tvars
Progress == TrackProgress(l)
Report == ReportResult
=============================================================================
