-------------------------- MODULE Trace_RadixHeapI --------------------------
(***************************************************************************)
(* C13, implementation level: insertion_limit_, current_bucket_ and the     *)
(* size of every bucket of the real RadixHeap after every call ("ist"),     *)
(* compared with what RadixHeapI computes for the same history.  Only for   *)
(* the 8- and 16-bit key types (their encoder ranks, "ikey", fit the        *)
(* model's integers).  A rejection that the property-level Trace_BagHeap    *)
(* accepts is DRIFT.  One key type / radix per file (constants from the     *)
(* first reset event).                                                      *)
(***************************************************************************)
EXTENDS TraceIO
TraceW == TraceLog[1].w
TraceRB == TraceLog[1].rb
CONSTANTS W, RadixBits, MaxSize, Mutation
VARIABLES bkt, mins, filled, limit, cur, size, frontier, bag, last, l
INSTANCE RadixHeapI
Ev == TraceLog[l]
core == <<bkt, mins, filled, limit, cur, size>>

DoPush(k) ==
    LET idx == Bucket(k, limit) IN
    /\ k >= limit
    /\ bkt' = [bkt EXCEPT ![idx] = Append(@, k)] /\ filled' = filled \cup {idx}
    /\ mins' = [mins EXCEPT ![idx] = IF @ > k THEN k ELSE @]
    /\ size' = size + 1 /\ UNCHANGED <<limit, cur>>
DoTop == size > 0 /\ ApplyReorg(Reorg) /\ size' = size
DoPop ==
    /\ size > 0
    /\ LET r == Reorg  rest == SubSeq(r.bkt[r.cur], 1, Len(r.bkt[r.cur]) - 1) IN
       /\ bkt' = [r.bkt EXCEPT ![r.cur] = rest] /\ filled' = (IF rest = <<>> THEN r.filled \ {r.cur} ELSE r.filled)
       /\ mins' = r.mins /\ limit' = r.limit /\ cur' = r.cur
    /\ size' = size - 1
DoSwap ==
    /\ size > 0
    /\ LET r == Reorg IN
       /\ bkt' = [r.bkt EXCEPT ![r.cur] = <<>>] /\ filled' = r.filled \ {r.cur}
       /\ mins' = r.mins /\ limit' = r.limit /\ cur' = r.cur /\ size' = size - Len(r.bkt[r.cur])
DoClear == bkt' = [i \in Buckets |-> <<>>] /\ mins' = [i \in Buckets |-> Inf] /\ filled' = {} /\ limit' = 0 /\ cur' = 0 /\ size' = 0

Step ==
    CASE Ev.e = "reset" -> DoClear
      [] Ev.e = "push" -> DoPush(Ev.ikey)
      [] Ev.e = "top" -> DoTop
      [] Ev.e = "pop" -> DoPop
      [] Ev.e = "swap" -> DoSwap
      [] Ev.e = "peak" -> UNCHANGED core
      [] Ev.e = "clear" -> DoClear
      [] OTHER -> FALSE
SameState == HasField(Ev, "ist") =>
    /\ Ev.ist.limit = limit' /\ Ev.ist.cur = cur'
    /\ Ev.ist.sizes = [i \in 1 .. NumBuckets |-> Len(bkt'[i - 1])]
    /\ Ev.obs.size = size'
TInit == l = 1 /\ bkt = [i \in Buckets |-> <<>>] /\ mins = [i \in Buckets |-> Inf] /\ filled = {} /\ limit = 0 /\ cur = 0 /\ size = 0
         /\ frontier = 0 /\ bag = <<>> /\ last = <<>>
TNext == l <= TraceLen /\ Step /\ SameState /\ l' = l + 1 /\ UNCHANGED <<frontier, bag, last>>
TraceSpec == TInit /\ [][TNext]_<<bkt, mins, filled, limit, cur, size, frontier, bag, last, l>>
Progress == TrackProgress(l)
Report == ReportResult
=============================================================================
