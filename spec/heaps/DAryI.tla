-------------------------------- MODULE DAryI --------------------------------
(***************************************************************************)
(* C13 -- implementation-shaped specification of                            *)
(* tlx::DAryAddressableIntHeap (d_ary_addressable_int_heap.hpp): the array  *)
(* heap_ (0-based, children of k are Arity*k+1 ..), the handles_ table      *)
(* (key -> position or NP), sift_up / sift_down / heapify transcribed       *)
(* statement by statement.  DAryHeap is the same code without handles_.     *)
(*                                                                          *)
(* TLC checks DAryI => AddrHeapA (items = the keys in heap_) and the        *)
(* representation invariants HeapOrder and HandlesExact.                    *)
(* FixedHeapify = FALSE reproduces the unrepaired heapify(), which did not  *)
(* clear handles_ of keys that are no longer in the heap: TLC then reports  *)
(* HandlesExact violated after build_heap on a non-empty heap.              *)
(***************************************************************************)
EXTENDS Integers, Sequences, FiniteSets

CONSTANTS Keys, Prios, Arity, FixedHeapify

VARIABLES heap,      \* sequence of keys; heap[i + 1] is heap_[i]
          handles,   \* [Keys -> 0 .. n-1 or NP]
          prio, dirty

ivars == <<heap, handles, prio, dirty>>

NP == -1
N(H) == Len(H)
At(H, i) == H[i + 1]
Set(H, i, v) == [H EXCEPT ![i + 1] = v]
Less(a, b) == prio[a] < prio[b]            \* cmp_(a, b) through the external table
Parent(k) == (k - 1) \div Arity
Left(k) == Arity * k + 1
Min2(a, b) == IF a < b THEN a ELSE b

\* sift_up(k): returns <<heap, handles>>
RECURSIVE SiftUpLoop(_, _, _, _)
SiftUpLoop(H, Hd, k, value) ==
    IF k > 0 /\ ~Less(At(H, Parent(k)), value)
    THEN LET moved == At(H, Parent(k))
         IN SiftUpLoop(Set(H, k, moved), [Hd EXCEPT ![moved] = k], Parent(k), value)
    ELSE <<Set(H, k, value), [Hd EXCEPT ![value] = k]>>
SiftUp(H, Hd, k) == SiftUpLoop(H, Hd, k, At(H, k))

\* index of the smallest child of k among l .. right-1 (first one wins ties)
RECURSIVE MinChild(_, _, _, _)
MinChild(H, c, l, right) ==
    IF l >= right THEN c
    ELSE MinChild(H, IF Less(At(H, l), At(H, c)) THEN l ELSE c, l + 1, right)

RECURSIVE SiftDownLoop(_, _, _, _)
SiftDownLoop(H, Hd, k, value) ==
    LET l == Left(k) IN
    IF l >= N(H) THEN <<Set(H, k, value), [Hd EXCEPT ![value] = k]>>
    ELSE LET c == MinChild(H, l, l + 1, Min2(N(H), l + Arity)) IN
         IF ~Less(At(H, c), value) THEN <<Set(H, k, value), [Hd EXCEPT ![value] = k]>>
         ELSE LET moved == At(H, c)
              IN SiftDownLoop(Set(H, k, moved), [Hd EXCEPT ![moved] = k], c, value)
SiftDown(H, Hd, k) == SiftDownLoop(H, Hd, k, At(H, k))

\* heapify(): bottom-up construction, then the handles_ pass
RECURSIVE HeapifyDown(_, _, _, _)
HeapifyDown(H, cur, value, lastInternal) ==       \* the do { } while (cur <= last_internal) loop
    LET l == Left(cur)
        c == MinChild(H, l, l + 1, Min2(N(H), l + Arity))
    IN IF Less(At(H, c), value)
       THEN IF c <= lastInternal THEN HeapifyDown(Set(H, cur, At(H, c)), c, value, lastInternal)
                                 ELSE Set(Set(H, cur, At(H, c)), c, value)
       ELSE Set(H, cur, value)
RECURSIVE HeapifyFrom(_, _, _)
HeapifyFrom(H, i, lastInternal) ==                 \* for (i = last_internal + 1; i != 0; --i)
    IF i = 0 THEN H
    ELSE HeapifyFrom(HeapifyDown(H, i - 1, At(H, i - 1), lastInternal), i - 1, lastInternal)
HeapifyArray(H) == IF N(H) >= 2 THEN HeapifyFrom(H, (N(H) - 2) \div Arity + 1, (N(H) - 2) \div Arity) ELSE H
HeapifyHandles(H, Hd) ==
    LET base == IF FixedHeapify THEN [k \in Keys |-> NP] ELSE Hd      \* the repair: forget stale positions first
    IN [k \in Keys |-> IF \E i \in 0 .. (N(H) - 1) : At(H, i) = k
                       THEN CHOOSE i \in 0 .. (N(H) - 1) : At(H, i) = k
                       ELSE base[k]]

Init == heap = <<>> /\ handles = [k \in Keys |-> NP] /\ prio \in [Keys -> Prios] /\ dirty = {}

Clean == dirty = {}
Contains(k) == handles[k] # NP

Push(k) ==
    /\ Clean /\ ~Contains(k)
    /\ LET H == Append(heap, k)
           r == SiftUp(H, [handles EXCEPT ![k] = N(heap)], N(heap))
       IN heap' = r[1] /\ handles' = r[2]
    /\ UNCHANGED <<prio, dirty>>

\* remove(key): swap with the last slot, pop_back, then sift in the right direction
RemoveAt(h) ==
    LET last == N(heap) - 1
        H1 == Set(Set(heap, h, At(heap, last)), last, At(heap, h))
        Hd1 == [handles EXCEPT ![At(H1, h)] = h, ![At(H1, last)] = NP]
        H2 == SubSeq(H1, 1, last)
    IN IF h < N(H2)
       THEN IF h > 0 /\ Less(At(H2, h), At(H2, Parent(h))) THEN SiftUp(H2, Hd1, h) ELSE SiftDown(H2, Hd1, h)
       ELSE <<H2, Hd1>>
Remove(k) ==
    /\ Clean /\ Contains(k)
    /\ LET r == RemoveAt(handles[k]) IN heap' = r[1] /\ handles' = r[2]
    /\ UNCHANGED <<prio, dirty>>
Pop ==
    /\ Clean /\ heap # <<>>
    /\ LET r == RemoveAt(0) IN heap' = r[1] /\ handles' = r[2]
    /\ UNCHANGED <<prio, dirty>>

SetPrio(k, p) ==
    /\ prio' = [prio EXCEPT ![k] = p]
    /\ dirty' = (IF Contains(k) THEN dirty \cup {k} ELSE dirty)
    /\ UNCHANGED <<heap, handles>>

Update(k) ==
    /\ dirty \subseteq {k}
    /\ IF ~Contains(k)
       THEN LET H == Append(heap, k)
                r == SiftUp(H, [handles EXCEPT ![k] = N(heap)], N(heap))
            IN heap' = r[1] /\ handles' = r[2]
       ELSE LET h == handles[k]
                r == IF h > 0 /\ Less(At(heap, h), At(heap, Parent(h))) THEN SiftUp(heap, handles, h)
                     ELSE SiftDown(heap, handles, h)
            IN heap' = r[1] /\ handles' = r[2]
    /\ dirty' = {} /\ UNCHANGED prio

UpdateAll ==
    /\ LET H == HeapifyArray(heap) IN heap' = H /\ handles' = HeapifyHandles(H, handles)
    /\ dirty' = {} /\ UNCHANGED prio

\* build_heap(keys): heap_ = keys; heapify()
BuildHeap(ks) ==
    /\ LET H == HeapifyArray(ks) IN heap' = H /\ handles' = HeapifyHandles(H, handles)
    /\ dirty' = {} /\ UNCHANGED prio

Clear == heap' = <<>> /\ handles' = [k \in Keys |-> NP] /\ dirty' = {} /\ UNCHANGED prio

\* all sequences of distinct keys
DistinctSeqs == UNION {{s \in [1 .. n -> Keys] : \A i, j \in 1 .. n : i # j => s[i] # s[j]} : n \in 0 .. Cardinality(Keys)}

Next ==
    \/ \E k \in Keys : Push(k) \/ Remove(k) \/ Update(k)
    \/ Pop
    \/ \E k \in Keys, p \in Prios : SetPrio(k, p)
    \/ \E ks \in DistinctSeqs : BuildHeap(ks)
    \/ UpdateAll \/ Clear

Spec == Init /\ [][Next]_ivars

(***************************************************************************)
Abs == INSTANCE AddrHeapA WITH items <- {k \in Keys : handles[k] # NP}
Refines == Abs!Spec

HeapOrder == Clean => \A i \in 1 .. (N(heap) - 1) : ~Less(At(heap, i), At(heap, Parent(i)))
HandlesExact ==
    /\ \A i \in 0 .. (N(heap) - 1) : handles[At(heap, i)] = i
    /\ \A k \in Keys : handles[k] # NP => (handles[k] < N(heap) /\ At(heap, handles[k]) = k)
TopIsMin == (Clean /\ heap # <<>>) => \A i \in 0 .. (N(heap) - 1) : ~Less(At(heap, i), At(heap, 0))
=============================================================================
