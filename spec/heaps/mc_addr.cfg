CONSTANTS Keys = {0,1,2}
          Prios = {1,2}
SPECIFICATION Spec
INVARIANT DirtyInItems
CHECK_DEADLOCK FALSE
