----------------------------- MODULE RadixHeapI -----------------------------
(***************************************************************************)
(* C13 -- tlx::RadixHeap as the code has it (radix_heap.hpp): buckets_data_,*)
(* mins_, the filled_ bit set, insertion_limit_, current_bucket_ and size_; *)
(* BucketComputation (highest differing bit -> row -> digit), reorganize_() *)
(* (advance to the first non-empty bucket; if that lies above row 0, raise  *)
(* the insertion limit to its minimum and redistribute it), push, top, pop, *)
(* swap_top_bucket, peak_top_key, clear.  Keys are W-bit naturals (the      *)
(* ranks of the encoder), Radix is a power of two.                          *)
(* TLC checks over every monotone history: each stored key sits in the      *)
(* bucket BucketComputation assigns to it under the current limit, mins_    *)
(* and filled_ describe the buckets, redistribution only moves keys to      *)
(* lower buckets, top() / pop() / peak_top_key() deliver a minimum, and the *)
(* contents equal the abstract bag.                                         *)
(* Mutation reproduces seeded mistakes for the negative self-tests.         *)
(***************************************************************************)
EXTENDS Integers, Sequences, FiniteSets

CONSTANTS W,          \* key width in bits
          RadixBits,  \* log2(Radix)
          MaxSize,    \* model bound on the number of stored keys
          Mutation    \* "none" | "clear_keeps_current" (clear() does not reset current_bucket_) | "swap_keeps_filled" (swap_top_bucket leaves the bit set)

Radix == 2 ^ RadixBits
MaxKey == 2 ^ W - 1
KeySet == 0 .. MaxKey
RECURSIVE NB(_)
NB(bits) == IF bits >= RadixBits THEN (Radix - 1) + NB(bits - RadixBits) ELSE 2 ^ bits - 1
NumBuckets == NB(W) + 1
Buckets == 0 .. NumBuckets - 1
Inf == MaxKey + 1          \* numeric_limits::max() of the rank type: above every key of the model

VARIABLES bkt,      \* bkt[i]: sequence of keys (vector: push_back / back / pop_back)
          mins, filled, limit, cur, size,
          frontier, \* ghost: the last key delivered by top / pop / swap_top_bucket since the last clear: the heap is monotone, smaller keys may not be pushed
          bag,      \* ghost: multiplicity of every stored key
          last      \* ghost: <<call, argument, result>>
vars == <<bkt, mins, filled, limit, cur, size, frontier, bag, last>>

Bit(x, i) == (x \div (2 ^ i)) % 2
DiffBit(x, l) == CHOOSE i \in 0 .. W - 1 : Bit(x, i) # Bit(l, i) /\ \A j \in i + 1 .. W - 1 : Bit(x, j) = Bit(l, j)
\* BucketComputation::operator()
Bucket(x, l) ==
    IF x = l THEN 0
    ELSE LET row == DiffBit(x, l) \div RadixBits
             digit == (x \div (2 ^ (RadixBits * row))) % Radix
         IN row * Radix + (digit - row)
MinOf(s) == IF s = <<>> THEN Inf ELSE CHOOSE m \in {s[i] : i \in 1 .. Len(s)} : \A i \in 1 .. Len(s) : m <= s[i]
FindLsb == CHOOSE i \in filled : \A j \in filled : i <= j

Init ==
    /\ bkt = [i \in Buckets |-> <<>>] /\ mins = [i \in Buckets |-> Inf] /\ filled = {} /\ limit = 0 /\ cur = 0 /\ size = 0
    /\ frontier = 0 /\ bag = [k \in KeySet |-> 0] /\ last = <<"init", 0, 0>>

\* push(key): precondition key >= everything delivered so far (the monotonicity the heap requires; implies key >= insertion limit)
Push(k) ==
    /\ k >= frontier /\ k >= limit /\ size < MaxSize
    /\ LET idx == Bucket(k, limit) IN
       /\ bkt' = [bkt EXCEPT ![idx] = Append(@, k)]
       /\ filled' = filled \cup {idx}
       /\ mins' = [mins EXCEPT ![idx] = IF @ > k THEN k ELSE @]
    /\ size' = size + 1 /\ bag' = [bag EXCEPT ![k] = @ + 1] /\ last' = <<"push", k, 0>>
    /\ UNCHANGED <<limit, cur, frontier>>

\* reorganize_() as a function of the state: [bkt, mins, filled, limit, cur, moved_down]
Reorg ==
    IF bkt[cur] # <<>> THEN [bkt |-> bkt, mins |-> mins, filled |-> filled, limit |-> limit, cur |-> cur, down |-> TRUE]
    ELSE LET mins1 == [mins EXCEPT ![cur] = Inf]
             filled1 == filled \ {cur}
             first == CHOOSE i \in filled1 : \A j \in filled1 : i <= j
         IN IF first < Radix THEN [bkt |-> bkt, mins |-> mins1, filled |-> filled1, limit |-> limit, cur |-> first, down |-> TRUE]
            ELSE LET newlimit == mins1[first]
                     src == bkt[first]
                     Into(i) == LET RECURSIVE Sel(_) Sel(p) == IF p > Len(src) THEN <<>> ELSE (IF Bucket(src[p], newlimit) = i THEN <<src[p]>> ELSE <<>>) \o Sel(p + 1) IN Sel(1)
                     bkt2 == [i \in Buckets |-> IF i = first THEN <<>> ELSE bkt[i] \o Into(i)]
                     touched == {Bucket(src[p], newlimit) : p \in 1 .. Len(src)}
                     mins2 == [i \in Buckets |-> IF i = first THEN Inf ELSE IF i \in touched /\ MinOf(Into(i)) < mins1[i] THEN MinOf(Into(i)) ELSE mins1[i]]
                     filled2 == (filled1 \ {first}) \cup touched
                 IN [bkt |-> bkt2, mins |-> mins2, filled |-> filled2, limit |-> newlimit,
                     cur |-> (CHOOSE i \in filled2 : \A j \in filled2 : i <= j), down |-> \A i \in touched : i < first]

ApplyReorg(r) == bkt' = r.bkt /\ mins' = r.mins /\ filled' = r.filled /\ limit' = r.limit /\ cur' = r.cur

Top ==
    /\ size > 0
    /\ LET r == Reorg IN
       /\ ApplyReorg(r)
       /\ last' = <<"top", IF r.down THEN 1 ELSE 0, r.bkt[r.cur][Len(r.bkt[r.cur])]>>
       /\ frontier' = r.bkt[r.cur][Len(r.bkt[r.cur])]
    /\ UNCHANGED <<size, bag>>
Pop ==
    /\ size > 0
    /\ LET r == Reorg
           k == r.bkt[r.cur][Len(r.bkt[r.cur])]
           rest == SubSeq(r.bkt[r.cur], 1, Len(r.bkt[r.cur]) - 1)
       IN /\ bkt' = [r.bkt EXCEPT ![r.cur] = rest]
          /\ filled' = IF rest = <<>> THEN r.filled \ {r.cur} ELSE r.filled
          /\ mins' = r.mins /\ limit' = r.limit /\ cur' = r.cur
          /\ bag' = [bag EXCEPT ![k] = @ - 1] /\ last' = <<"pop", IF r.down THEN 1 ELSE 0, k>> /\ frontier' = k
    /\ size' = size - 1
SwapTopBucket ==
    /\ size > 0
    /\ LET r == Reorg
           out == r.bkt[r.cur]
       IN /\ bkt' = [r.bkt EXCEPT ![r.cur] = <<>>]
          /\ filled' = IF Mutation = "swap_keeps_filled" THEN r.filled ELSE r.filled \ {r.cur}
          /\ mins' = r.mins /\ limit' = r.limit /\ cur' = r.cur
          /\ size' = size - Len(out)
          /\ bag' = [k \in KeySet |-> bag[k] - Cardinality({p \in 1 .. Len(out) : out[p] = k})]
          /\ last' = <<"swap_top_bucket", IF r.down THEN 1 ELSE 0, out[1]>> /\ frontier' = out[1]
\* peak_top_key(): mins_[filled_.find_lsb()]
PeakTopKey ==
    /\ size > 0 /\ filled # {}
    /\ last' = <<"peak_top_key", 0, mins[FindLsb]>>
    /\ UNCHANGED <<bkt, mins, filled, limit, cur, size, frontier, bag>>
Clear ==
    /\ bkt' = [i \in Buckets |-> <<>>] /\ mins' = [i \in Buckets |-> Inf] /\ filled' = {} /\ limit' = 0 /\ size' = 0
    /\ cur' = IF Mutation = "clear_keeps_current" THEN cur ELSE 0
    /\ frontier' = 0 /\ bag' = [k \in KeySet |-> 0] /\ last' = <<"clear", 0, 0>>

Next == (\E k \in KeySet : Push(k)) \/ Top \/ Pop \/ SwapTopBucket \/ PeakTopKey \/ Clear
Spec == Init /\ [][Next]_vars

(***************************************************************************)
Stored == UNION {{bkt[i][p] : p \in 1 .. Len(bkt[i])} : i \in Buckets}
AbsMin == CHOOSE m \in {k \in KeySet : bag[k] > 0} : \A k \in KeySet : bag[k] > 0 => m <= k
\* every stored key is at least the insertion limit and sits in the bucket the bucket computation assigns to it
BucketsRight == \A i \in Buckets : \A p \in 1 .. Len(bkt[i]) : bkt[i][p] >= limit /\ Bucket(bkt[i][p], limit) = i
\* mins_ and filled_ describe the buckets; size_ counts the keys; the contents are the abstract bag
Bookkeeping ==
    /\ \A i \in Buckets : (bkt[i] # <<>>) => mins[i] = MinOf(bkt[i])
    /\ \A i \in Buckets : (bkt[i] = <<>> /\ i # cur) => mins[i] = Inf
    /\ \A i \in Buckets : (bkt[i] # <<>>) => i \in filled
    /\ \A i \in filled : bkt[i] # <<>> \/ i = cur
    /\ size = Cardinality({<<i, p>> \in Buckets \X (1 .. MaxSize) : p <= Len(bkt[i])})
    /\ \A k \in KeySet : bag[k] = Cardinality({<<i, p>> \in Buckets \X (1 .. MaxSize) : p <= Len(bkt[i]) /\ bkt[i][p] = k})
\* what the calls deliver: a minimum, and redistribution only ever moves keys into lower buckets
Delivers ==
    CASE last[1] \in {"top", "pop", "swap_top_bucket"} -> last[2] = 1
      [] OTHER -> TRUE
\* (the minimum is judged against the bag *before* pop / swap removed it: for those the delivered key must not exceed anything still stored)
DeliversMin ==
    CASE last[1] = "top" -> last[3] = AbsMin
      [] last[1] \in {"pop", "swap_top_bucket"} -> \A k \in KeySet : bag[k] > 0 => last[3] <= k
      [] last[1] = "peak_top_key" -> last[3] = AbsMin
      [] OTHER -> TRUE
CurInRange == cur \in Buckets /\ (size > 0 /\ last[1] \in {"top", "pop"} => cur < Radix)
=============================================================================
