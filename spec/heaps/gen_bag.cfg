CONSTANTS Keys = {0,1,2}
          Ids = {0}
          D = 4
          Mono = TRUE
          MaxBuild = 0
SPECIFICATION GenSpec
INVARIANT Emit
CHECK_DEADLOCK FALSE
