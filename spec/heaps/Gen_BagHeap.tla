----------------------------- MODULE Gen_BagHeap -----------------------------
\* C13 -- history generator for BagHeapA (DAryHeap: monotone = FALSE, RadixHeap: TRUE)
EXTENDS BagHeapA, TLC, Json
CONSTANTS D, Mono, MaxBuild
VARIABLE h
gvars == <<vars, h>>
Op(o, k, id) == [o |-> o, k |-> k, id |-> id]
GInit == items = {} /\ monotone = Mono /\ frontier = MinusInf /\ h = <<>>
Rec(o) == h' = Append(h, o)
NextId == Len(h) + 1
GNext ==
    /\ Len(h) < D
    /\ \/ \E k \in Keys : (Push(k, NextId) /\ Rec(Op("push", k, NextId)))
       \/ \E x \in items : (Top(x) /\ Rec(Op("top", 0, 0)))
       \/ \E x \in items : (Pop(x) /\ Rec(Op("pop", 0, 0)))
       \/ (Mono /\ items # {} /\ UNCHANGED vars /\ Rec(Op("peak", 0, 0)))
       \/ (Mono /\ items # {} /\ SwapTopBucket({x \in items : x[1] = MinKey}) /\ Rec(Op("swap", 0, 0)))
       \/ (~Mono /\ \E n \in 0 .. MaxBuild : \E f \in [1 .. n -> Keys] :
              (BuildHeap({<<f[i], NextId * 10 + i>> : i \in 1 .. n}) /\ Rec([o |-> "build", k |-> 0, id |-> NextId * 10, list |-> f])))
       \/ (~Mono /\ UpdateAll /\ Rec(Op("update_all", 0, 0)))
       \/ (Clear /\ Rec(Op("clear", 0, 0)))
GenSpec == GInit /\ [][GNext]_gvars
Emit == (Len(h) = D) => PrintT(<<"@@GEN@@", ToJson(h)>>)
=============================================================================
