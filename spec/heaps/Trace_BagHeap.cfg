CONSTANTS Keys = {0}
          Ids = {0}
SPECIFICATION TraceSpec
INVARIANT FrontierBelowAll
CONSTRAINT Progress
POSTCONDITION Report
CHECK_DEADLOCK FALSE
