CONSTANTS W = 4
          RadixBits = 1
          MaxSize = 3
          Mutation = "none"
SPECIFICATION Spec
INVARIANTS BucketsRight Bookkeeping Delivers DeliversMin CurInRange
CHECK_DEADLOCK FALSE
