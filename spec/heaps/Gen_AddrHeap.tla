---------------------------- MODULE Gen_AddrHeap ----------------------------
(***************************************************************************)
(* C13 -- history generator: DAryI (so that generated histories follow the  *)
(* implementation-shaped model and array shapes can be compared) extended   *)
(* by a history variable.  BFS with Bound = all histories up to D calls;    *)
(* -simulate = long random histories.  prio0 is the initial table.          *)
(***************************************************************************)
EXTENDS DAryI, TLC, Json
CONSTANT D
VARIABLE h
gvars == <<ivars, h>>
Op(o, k, p, list) == [o |-> o, k |-> k, p |-> p, list |-> list]
FnToSeq(f) == [i \in 1 .. Cardinality(Keys) |-> f[i - 1]]

GInit == Init /\ prio = [k \in Keys |-> 1] /\ h = [prio0 |-> FnToSeq(prio), ops |-> <<>>]
Rec(o) == h' = [h EXCEPT !.ops = Append(@, o)]
GNext ==
    /\ Len(h.ops) < D
    /\ \/ \E k \in Keys : \/ (Push(k) /\ Rec(Op("push", k, 0, <<>>)))
                          \/ (Remove(k) /\ Rec(Op("remove", k, 0, <<>>)))
                          \/ (Update(k) /\ Rec(Op("update", k, 0, <<>>)))
       \/ (Pop /\ Rec(Op("pop", 0, 0, <<>>)))
       \/ \E k \in Keys, p \in Prios : (prio[k] # p /\ SetPrio(k, p) /\ Rec(Op("setprio", k, p, <<>>)))
       \/ \E ks \in DistinctSeqs : (BuildHeap(ks) /\ Rec(Op("build", 0, 0, ks)))
       \/ (UpdateAll /\ Rec(Op("update_all", 0, 0, <<>>)))
       \/ (Clear /\ Rec(Op("clear", 0, 0, <<>>)))
GenSpec == GInit /\ [][GNext]_gvars
Emit == (Len(h.ops) = D) => PrintT(<<"@@GEN@@", ToJson(h)>>)
=============================================================================
