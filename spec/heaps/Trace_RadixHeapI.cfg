CONSTANTS W <- TraceW
          RadixBits <- TraceRB
          MaxSize = 0
          Mutation = "none"
SPECIFICATION TraceSpec
CONSTRAINT Progress
POSTCONDITION Report
CHECK_DEADLOCK FALSE
