CONSTANTS Keys = {0,1,2,3}
          Prios = {1,2}
          Arity = 2
          FixedHeapify = TRUE
SPECIFICATION Spec
INVARIANTS HeapOrder HandlesExact TopIsMin
PROPERTY Refines
CHECK_DEADLOCK FALSE
