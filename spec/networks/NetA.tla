-------------------------------- MODULE NetA --------------------------------
(***************************************************************************)
(* C15 -- sorting networks.  A network is the sequence of compare-exchange  *)
(* operations <<l, r>> it performs ("afterwards position l holds the        *)
(* smaller, position r the larger value"), recorded from the real code.     *)
(* By the zero-one principle a data-oblivious comparator sequence sorts     *)
(* every input under every strict weak order iff it sorts all 2^n inputs    *)
(* over {0, 1}.  A zero-one vector is a bit mask (bit i = value at position *)
(* i); the whole set of vectors is pushed through the network at once.      *)
(***************************************************************************)
EXTENDS Integers, Sequences, FiniteSets

Pow2(k) == 2 ^ k
Bit(v, i) == (v \div Pow2(i)) % 2
\* compare-exchange on positions l, r: a 1 at l and a 0 at r change places
CE(v, l, r) == IF Bit(v, l) = 1 /\ Bit(v, r) = 0 THEN v - Pow2(l) + Pow2(r) ELSE v

RECURSIVE Run(_, _, _)
Run(S, net, k) == IF k > Len(net) THEN S ELSE Run({CE(v, net[k][1], net[k][2]) : v \in S}, net, k + 1)

\* ascending order: all zeros below all ones, i.e. the mask is 2^n - 2^k for some k
SortedMasks(n) == {Pow2(n) - Pow2(k) : k \in 0 .. n}
AllInputs(n) == 0 .. (Pow2(n) - 1)

WellFormed(n, net) == \A k \in DOMAIN net : net[k][1] \in 0 .. (n - 1) /\ net[k][2] \in 0 .. (n - 1) /\ net[k][1] # net[k][2]
SortsAllZeroOne(n, net) == WellFormed(n, net) /\ Run(AllInputs(n), net, 1) \subseteq SortedMasks(n)

\* the compare-exchange functor itself, on a strict weak order given by key classes:
\* result positions hold the same two elements, and the right one is not smaller than the left one
CSwapOK(ka, ida, kb, idb, outl, outr) ==
    /\ {outl, outr} = {<<ka, ida>>, <<kb, idb>>}
    /\ ~(outr[1] < outl[1])
    /\ (ka <= kb) => (outl = <<ka, ida>> /\ outr = <<kb, idb>>)      \* no swap unless right < left
=============================================================================
