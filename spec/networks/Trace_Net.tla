------------------------------ MODULE Trace_Net ------------------------------
(***************************************************************************)
(* C15 -- every event is one network recorded from the real code (by a      *)
(* recording compare-exchange functor for the size-specific entry points,   *)
(* by a recording comparator for the dispatching sort(begin, end)), or one  *)
(* compare-exchange call.  TLC decides each by the zero-one principle.      *)
(*   {"e":"net","family":"best","n":16,"entry":"direct","seq":[[0,1],...],  *)
(*    "variants":1,"bad_outputs":0}                                         *)
(***************************************************************************)
EXTENDS NetA, TraceIO
VARIABLE l
Ev == TraceLog[l]
Step ==
    CASE Ev.e = "reset" -> TRUE
      [] Ev.e = "net" -> /\ Ev.variants = 1                 \* data-oblivious: one comparator sequence for all 2^n zero-one inputs
                         /\ Ev.bad_outputs = 0              \* the real outputs were sorted permutations of the zero-one inputs
                         /\ SortsAllZeroOne(Ev.n, Ev.seq)
      [] Ev.e = "cswap" -> CSwapOK(Ev.ka, Ev.ida, Ev.kb, Ev.idb, Ev.outl, Ev.outr)
      [] OTHER -> FALSE
TInit == l = 1
TNext == l <= TraceLen /\ Step /\ l' = l + 1
TraceSpec == TInit /\ [][TNext]_l
Progress == TrackProgress(l)
Report == ReportResult
=============================================================================
