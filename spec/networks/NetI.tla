-------------------------------- MODULE NetI --------------------------------
(***************************************************************************)
(* C15 -- the networks as state machines: TLC starts from every recorded    *)
(* network (read from the trace file) x every zero-one input vector, applies *)
(* the comparators one per step and checks the final vector.  Same verdict  *)
(* as Trace_Net's SortsAllZeroOne, obtained by explicit state exploration.  *)
(***************************************************************************)
EXTENDS NetA, TraceIO
CONSTANT MaxN
VARIABLES k, pc, v
vars == <<k, pc, v>>
NetIdx == {i \in 1 .. TraceLen : TraceLog[i].e = "net" /\ TraceLog[i].n <= MaxN}
Init == /\ k \in NetIdx /\ pc = 1 /\ v \in AllInputs(TraceLog[k].n)
Next == /\ pc <= Len(TraceLog[k].seq)
        /\ v' = CE(v, TraceLog[k].seq[pc][1], TraceLog[k].seq[pc][2])
        /\ pc' = pc + 1 /\ UNCHANGED k
Spec == Init /\ [][Next]_vars
SortedAtEnd == pc = Len(TraceLog[k].seq) + 1 => v \in SortedMasks(TraceLog[k].n)
=============================================================================
