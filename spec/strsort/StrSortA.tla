------------------------------ MODULE StrSortA ------------------------------
(***************************************************************************)
(* C03 / C04 -- what a string sorter must deliver.  in[i] is the i-th input *)
(* string (a sequence of bytes 1..255: NUL-free); out[p] is the index of    *)
(* the original string object found at position p afterwards (identities,   *)
(* so a duplicated or lost pointer is visible); lcp[p], p >= 2, is the      *)
(* stored longest-common-prefix value for positions p-1 and p.              *)
(***************************************************************************)
EXTENDS Integers, Sequences, FiniteSets

Min2(a, b) == IF a < b THEN a ELSE b
\* unsigned-byte lexicographic order
RECURSIVE LexLeqFrom(_, _, _)
LexLeqFrom(a, b, k) == IF k > Len(a) THEN TRUE ELSE IF k > Len(b) THEN FALSE
                       ELSE IF a[k] < b[k] THEN TRUE ELSE IF a[k] > b[k] THEN FALSE ELSE LexLeqFrom(a, b, k + 1)
LexLeq(a, b) == LexLeqFrom(a, b, 1)
RECURSIVE LcpFrom(_, _, _)
LcpFrom(a, b, k) == IF k > Len(a) \/ k > Len(b) \/ a[k] # b[k] THEN k - 1 ELSE LcpFrom(a, b, k + 1)
LCP(a, b) == LcpFrom(a, b, 1)

IsPerm(n, out) == Len(out) = n /\ {out[p] : p \in 1 .. n} = 1 .. n
\* TLC evaluates \A over a large range recursively (stack depth ~ range size); a set filter is evaluated iteratively
ForAllPos(lo, hi, P(_)) == {p \in lo .. hi : ~P(p)} = {}
Sorted(in, out) == ForAllPos(1, Len(out) - 1, LAMBDA p : LexLeq(in[out[p]], in[out[p + 1]]))
LcpOK(in, out, lcp) == Len(lcp) = Len(out) /\ ForAllPos(2, Len(out), LAMBDA p : lcp[p] = LCP(in[out[p - 1]], in[out[p]]))

SortOK(in, out) == IsPerm(Len(in), out) /\ Sorted(in, out)
SortLcpOK(in, out, lcp) == SortOK(in, out) /\ LcpOK(in, out, lcp)
=============================================================================
