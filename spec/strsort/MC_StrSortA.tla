----------------------------- MODULE MC_StrSortA -----------------------------
\* laws of the definitions on every triple of strings of a bounded domain
EXTENDS StrSortA
CONSTANTS Bytes, MaxLen
VARIABLES a, b, c
Strs == UNION {[1 .. n -> Bytes] : n \in 0 .. MaxLen}
Init == a \in Strs /\ b \in Strs /\ c \in Strs
Next == UNCHANGED <<a, b, c>>
Spec == Init /\ [][Next]_<<a, b, c>>
Laws ==
    /\ LexLeq(a, b) \/ LexLeq(b, a)
    /\ (LexLeq(a, b) /\ LexLeq(b, a)) => a = b
    /\ (LexLeq(a, b) /\ LexLeq(b, c)) => LexLeq(a, c)
    /\ LCP(a, b) = LCP(b, a) /\ LCP(a, a) = Len(a) /\ LCP(a, b) <= Min2(Len(a), Len(b))
    \* in sorted order the LCP of the outer pair is the minimum of the adjacent LCPs (what the LCP-merging code relies on)
    /\ (LexLeq(a, b) /\ LexLeq(b, c)) => LCP(a, c) = Min2(LCP(a, b), LCP(b, c))
    /\ (a # b) => (LexLeq(a, b) <=> (LCP(a, b) = Len(a) \/ (LCP(a, b) < Len(b) /\ LCP(a, b) < Len(a) /\ a[LCP(a, b) + 1] < b[LCP(a, b) + 1])))
=============================================================================
