CONSTANTS Bytes = {1, 2, 255}
          MaxLen = 2
SPECIFICATION Spec
INVARIANT Laws
CHECK_DEADLOCK FALSE
