---------------------------- MODULE Trace_StrSort ----------------------------
(***************************************************************************)
(* C03 / C04 -- one event per sort call:                                    *)
(* {"e":"ssort","in":[[bytes]..],"out":[1-based original indices],          *)
(*  "lcp":[..] (only with "haslcp":true), "variant":..., "memory":...}      *)
(* Parallel calls (C04) additionally carry the shim's verdicts.             *)
(***************************************************************************)
EXTENDS StrSortA, TraceIO
VARIABLE l
Ev == TraceLog[l]
Step ==
    CASE Ev.e = "reset" -> TRUE
      [] Ev.e = "ssort" -> /\ (IF Ev.haslcp THEN SortLcpOK(Ev.in, Ev.out, Ev.lcp) ELSE SortOK(Ev.in, Ev.out))
                           /\ (HasField(Ev, "problems") => (Ev.problems = 0 /\ Ev.deadlock = FALSE))
      [] OTHER -> FALSE
TInit == l = 1
TNext == l <= TraceLen /\ Step /\ l' = l + 1
TraceSpec == TInit /\ [][TNext]_l
Progress == TrackProgress(l)
Report == ReportResult
=============================================================================
