CONSTANTS Chars = {1, 2}
          MaxLen = 2
          MaxN = 4
          InsThreshold = 2
          Mutation = "none"
SPECIFICATION Spec
INVARIANTS SortedPermutation LcpExact
CHECK_DEADLOCK FALSE
