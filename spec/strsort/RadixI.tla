-------------------------------- MODULE RadixI --------------------------------
(***************************************************************************)
(* C03 -- radixsort_CE2 (tlx/sort/strings/radix_sort.hpp) as the code has   *)
(* it: the out-of-place 8-bit radix sort with a shadow array.                *)
(*   - A is the caller's array, S the shadow array, lcp the LCP array.       *)
(*   - A StringShadowPtr is [off, len, flipped]: its active strings are      *)
(*     A[off+1 .. off+len] if not flipped, S[...] if flipped; flip(o, n)     *)
(*     swaps the roles for a sub-range, copy_back() moves the active strings *)
(*     of a flipped pointer into the other array and un-flips it.            *)
(*   - RadixStep(ptr, depth): distribute the active strings by their         *)
(*     character at `depth` into the shadow range (stable), copy the strings *)
(*     that end here (bucket 0) back, set the LCPs at the bucket borders.    *)
(*   - the loop: every further bucket is skipped (empty), handed to          *)
(*     insertion sort (small), handed to multikey quicksort (no memory for   *)
(*     another RadixStep) -- both after copy_back() -- or recursed into on   *)
(*     the flipped sub-range.                                                *)
(* insertion sort and multikey quicksort are abstract here ("sort this       *)
(* range of the pointer's active array from this depth on and set the inner  *)
(* LCPs"): C03's driver decides them on the real code.                       *)
(* TLC checks for every small input, every memory level and LCP on / off:    *)
(* A ends up a sorted permutation of the input and lcp is exact.             *)
(* Mutation = "fallback_without_copy_back" is the seeded change C03b.        *)
(***************************************************************************)
EXTENDS Integers, Sequences, FiniteSets

CONSTANTS Chars,        \* characters (positive integers); 0 = end of string
          MaxLen, MaxN,
          InsThreshold, \* g_inssort_threshold (32 in the code)
          Mutation

VARIABLES phase, input, maxLevels, withLcp
vars == <<phase, input, maxLevels, withLcp>>

Strings == UNION {[1 .. n -> Chars] : n \in 0 .. MaxLen}
CharAt(s, d) == IF d + 1 <= Len(s) THEN s[d + 1] ELSE 0          \* get_uint8(s, depth), 0-based depth
\* an element is <<string, original position>>
Str(e) == e[1]
RECURSIVE LcpOf(_, _, _)
LcpOf(a, b, d) == IF d + 1 <= Len(a) /\ d + 1 <= Len(b) /\ a[d + 1] = b[d + 1] THEN LcpOf(a, b, d + 1) ELSE d
LexLeq(a, b) == LET l == LcpOf(a, b, 0) IN l = Len(a) \/ (l < Len(b) /\ a[l + 1] < b[l + 1])

\* ---- pointers
Ptr(off, len, fl) == [off |-> off, len |-> len, fl |-> fl]
Flip(p, o, n) == Ptr(p.off + o, n, ~p.fl)
Active(st, p) == IF p.fl THEN st.S ELSE st.A
\* overwrite positions off+1 .. off+len of array arr with sequence vals
Put(arr, off, vals) == [i \in 1 .. Len(arr) |-> IF i > off /\ i <= off + Len(vals) THEN vals[i - off] ELSE arr[i]]
Range(arr, off, len) == SubSeq(arr, off + 1, off + len)
\* copy_back(): -> [st, p]
CopyBack(st, p) ==
    IF ~p.fl THEN [st |-> st, p |-> p]
    ELSE [st |-> [st EXCEPT !.A = Put(st.A, p.off, Range(st.S, p.off, p.len))], p |-> Ptr(p.off, p.len, FALSE)]
SetLcp(st, p, i, v) == IF withLcp THEN [st EXCEPT !.lcp[p.off + i + 1] = v] ELSE st      \* set_lcp(i, v): lcp[i] of the sub-range, 0-based i

\* sort a sequence of elements by their strings (any order among equal strings)
SortedSeq(s) == CHOOSE t \in [1 .. Len(s) -> {s[i] : i \in 1 .. Len(s)}] :
                    /\ \A i \in 1 .. Len(s) - 1 : LexLeq(Str(t[i]), Str(t[i + 1]))
                    /\ \A x \in {s[i] : i \in 1 .. Len(s)} : Cardinality({i \in 1 .. Len(s) : t[i] = x}) = Cardinality({i \in 1 .. Len(s) : s[i] = x})
\* insertion_sort / multikey_quicksort on pointer p (abstract): sorts p's ACTIVE array range in place, sets lcp[1 .. len-1] of the range
RECURSIVE SetInner(_, _, _, _)
SetInner(st, p, srt, i) == IF i >= Len(srt) THEN st ELSE SetInner(SetLcp(st, p, i, LcpOf(Str(srt[i]), Str(srt[i + 1]), 0)), p, srt, i + 1)
SubSort(st, p) ==
    LET srt == SortedSeq(Range(Active(st, p), p.off, p.len))
        st1 == IF p.fl THEN [st EXCEPT !.S = Put(st.S, p.off, srt)] ELSE [st EXCEPT !.A = Put(st.A, p.off, srt)]
    IN SetInner(st1, p, srt, 1)

\* ---- RadixStep constructor: -> [st, sizes (function on bucket characters incl. 0), pos]
Buckets == {0} \cup Chars
RECURSIVE Concat(_, _)
Concat(f, cs) == IF cs = <<>> THEN <<>> ELSE f[Head(cs)] \o Concat(f, Tail(cs))
BucketOrder == LET RECURSIVE Asc(_) Asc(S) == IF S = {} THEN <<>> ELSE LET c == CHOOSE x \in S : \A y \in S : x <= y IN <<c>> \o Asc(S \ {c}) IN Asc(Buckets)
RECURSIVE Borders(_, _, _, _, _)
\* set_lcp at every border between two non-empty buckets
Borders(st, p, sizes, cs, acc) ==
    IF cs = <<>> THEN st
    ELSE LET n == sizes[Head(cs)]
             st1 == IF n > 0 /\ acc > 0 /\ acc < p.len THEN SetLcp(st, p, acc, p.depth) ELSE st
         IN Borders(st1, p, sizes, Tail(cs), acc + n)
RECURSIVE FillZero(_, _, _, _)
FillZero(st, p, i, pos) == IF i >= pos THEN st ELSE FillZero(SetLcp(st, p, i, p.depth), p, i + 1, pos)

MakeStep(st, p, depth) ==
    LET act == Range(Active(st, p), p.off, p.len)
        bk == [c \in Buckets |-> LET RECURSIVE Sel(_) Sel(i) == IF i > Len(act) THEN <<>> ELSE (IF CharAt(Str(act[i]), depth) = c THEN <<act[i]>> ELSE <<>>) \o Sel(i + 1) IN Sel(1)]
        sizes == [c \in Buckets |-> Len(bk[c])]
        dist == Concat(bk, BucketOrder)
        \* distribute into the shadow range
        st1 == IF p.fl THEN [st EXCEPT !.A = Put(st.A, p.off, dist)] ELSE [st EXCEPT !.S = Put(st.S, p.off, dist)]
        pos == sizes[0]
        cb == CopyBack(st1, Flip(p, 0, pos))
        pd == [off |-> p.off, len |-> p.len, fl |-> p.fl, depth |-> depth]
        st2 == FillZero(cb.st, pd, 1, pos)
        st3 == Borders(st2, pd, sizes, BucketOrder, 0)
    IN [st |-> st3, sizes |-> sizes, pos |-> pos]

\* ---- the loop of radixsort_CE2_loop, written as recursion over the buckets of one step and over the steps
RECURSIVE RunStep(_, _, _, _)
RECURSIVE RunBuckets(_, _, _, _, _, _, _)
\* process the step for pointer p at `depth`; level = radixstack.size() once this step is on the stack
RunStep(st, p, depth, level) ==
    LET ms == MakeStep(st, p, depth) IN RunBuckets(ms.st, p, depth, level, ms.sizes, Tail(BucketOrder), ms.pos)
RunBuckets(st, p, depth, level, sizes, cs, pos) ==
    IF cs = <<>> THEN st
    ELSE LET n == sizes[Head(cs)] IN
         IF n = 0 THEN RunBuckets(st, p, depth, level, sizes, Tail(cs), pos)
         ELSE IF n < InsThreshold
         THEN LET cb == CopyBack(st, Flip(p, pos, n)) IN RunBuckets(SubSort(cb.st, cb.p), p, depth, level, sizes, Tail(cs), pos + n)
         ELSE IF level + 1 > maxLevels                        \* memory < sizeof(RadixStep) * (radixstack.size() + 1)
         THEN LET fp == Flip(p, pos, n)
                  cb == IF Mutation = "fallback_without_copy_back" THEN [st |-> st, p |-> fp] ELSE CopyBack(st, fp)
              IN RunBuckets(SubSort(cb.st, cb.p), p, depth, level, sizes, Tail(cs), pos + n)
         ELSE RunBuckets(RunStep(st, Flip(p, pos, n), depth + 1, level + 1), p, depth, level, sizes, Tail(cs), pos + n)

\* radixsort_CE2(strptr, 0, memory): small inputs go to insertion sort, otherwise the loop starts with one step on the stack
Result ==
    LET n == Len(input)
        st0 == [A |-> [i \in 1 .. n |-> <<input[i], i>>], S |-> [i \in 1 .. n |-> <<<<>>, 0>>], lcp |-> [i \in 1 .. n |-> -1]]
        p0 == Ptr(0, n, FALSE)
    IN IF n < InsThreshold THEN SubSort(st0, p0) ELSE RunStep(st0, p0, 0, 1)

Init == phase = 0 /\ input = <<>> /\ maxLevels = 0 /\ withLcp = FALSE
PickInput == phase = 0 /\ phase' = 1 /\ input' \in UNION {[1 .. n -> Strings] : n \in 0 .. MaxN} /\ UNCHANGED <<maxLevels, withLcp>>
PickRest == phase = 1 /\ phase' = 2 /\ maxLevels' \in 1 .. MaxLen + 2 /\ withLcp' \in BOOLEAN /\ UNCHANGED input
Spec == Init /\ [][PickInput \/ PickRest]_vars

\* the caller's array is a sorted permutation of the input
SortedPermutation == phase = 2 =>
    LET r == Result IN
    /\ \A i \in 1 .. Len(input) - 1 : LexLeq(Str(r.A[i]), Str(r.A[i + 1]))
    /\ {r.A[i] : i \in 1 .. Len(input)} = {<<input[i], i>> : i \in 1 .. Len(input)}
\* lcp[i] = LCP(out[i-1], out[i]) exactly (lcp[0] is not written)
LcpExact == (phase = 2 /\ withLcp) =>
    LET r == Result IN \A i \in 2 .. Len(input) : r.lcp[i] = LcpOf(Str(r.A[i - 1]), Str(r.A[i]), 0)
=============================================================================
