------------------------------- MODULE StreamI -------------------------------
(***************************************************************************)
(* C14 -- the buffering state machine shared by tlx's MD5 / SHA-1 / SHA-256 *)
(* (block B = 64, pad threshold P = 56, length field W = 8 bytes) and       *)
(* SHA-512 (B = 128, P = 112, W = 16): process() splits its input exactly   *)
(* like the code (whole blocks straight from the input while the buffer is  *)
(* empty, otherwise fill the buffer and flush at B), finalize() appends     *)
(* 0x80, an extra block when curlen > P, zero padding and the length.       *)
(* Bytes are symbolic:  i >= 1  = i-th message byte,  -1 = 0x80,  0 = 0x00, *)
(* LenField + 32 * bits + j = j-th byte of the length field holding `bits`. *)
(* The compression function is uninterpreted: the machine's observable is   *)
(* the sequence of blocks handed to it.  TLC checks that for *every* way of *)
(* cutting a message into process() calls that sequence is the standard's   *)
(* padding of the message (so the digest cannot depend on the chunking).    *)
(***************************************************************************)
EXTENDS Integers, Sequences

CONSTANTS B, P, W, MaxL

VARIABLES pos,        \* message bytes consumed so far
          curlen,     \* bytes in the buffer
          lengthBits, \* length_ counter
          buf,        \* buffer content (sequence of curlen symbolic bytes)
          blocks,     \* blocks given to the compression function so far
          done

vars == <<pos, curlen, lengthBits, buf, blocks, done>>
LenField == 100000
X80 == -1
Zeros(n) == [i \in 1 .. n |-> 0]
Msg(a, b) == [i \in 1 .. (b - a + 1) |-> a + i - 1]          \* message bytes a .. b
LenBytes(bits) == [j \in 1 .. W |-> LenField + 32 * bits + j]
Min2(x, y) == IF x < y THEN x ELSE y

Init == pos = 0 /\ curlen = 0 /\ lengthBits = 0 /\ buf = <<>> /\ blocks = <<>> /\ done = FALSE

\* the loop of process(data, size), as a function of the state: returns <<pos, curlen, lengthBits, buf, blocks>>
RECURSIVE Loop(_, _, _, _, _, _)
Loop(p, cl, lb, bf, bl, size) ==
    IF size = 0 THEN <<p, cl, lb, bf, bl>>
    ELSE IF cl = 0 /\ size >= B
    THEN Loop(p + B, 0, lb + 8 * B, <<>>, Append(bl, Msg(p + 1, p + B)), size - B)           \* compress straight from the input
    ELSE LET n == Min2(size, B - cl)
             bf2 == bf \o Msg(p + 1, p + n) IN
         IF cl + n = B THEN Loop(p + n, 0, lb + 8 * B, <<>>, Append(bl, bf2), size - n)        \* buffer full: compress it
         ELSE Loop(p + n, cl + n, lb, bf2, bl, size - n)

Process(n) ==
    /\ ~done /\ pos + n <= MaxL
    /\ LET r == Loop(pos, curlen, lengthBits, buf, blocks, n) IN
         pos' = r[1] /\ curlen' = r[2] /\ lengthBits' = r[3] /\ buf' = r[4] /\ blocks' = r[5]
    /\ UNCHANGED done

Finalize ==
    /\ ~done
    /\ LET lb == lengthBits + 8 * curlen
           b1 == Append(buf, X80)
           cl1 == curlen + 1 IN
       IF cl1 > P
       THEN blocks' = blocks \o <<b1 \o Zeros(B - cl1), Zeros(P) \o LenBytes(lb)>>
       ELSE blocks' = Append(blocks, b1 \o Zeros(P - cl1) \o LenBytes(lb))
    /\ lengthBits' = lengthBits + 8 * curlen
    /\ done' = TRUE /\ UNCHANGED <<pos, curlen, buf>>

Next == (\E n \in 0 .. MaxL : Process(n)) \/ Finalize
Spec == Init /\ [][Next]_vars

(***************************************************************************)
(* The standard's padding of an L-byte message, cut into blocks of B.       *)
(***************************************************************************)
PadZeros(L) == (P - ((L + 1) % B) + B) % B
Padded(L) == Msg(1, L) \o <<X80>> \o Zeros(PadZeros(L)) \o LenBytes(8 * L)
Canonical(L) == LET s == Padded(L) IN [k \in 1 .. (Len(s) \div B) |-> SubSeq(s, (k - 1) * B + 1, k * B)]

\* after finalize the compression function has seen exactly the padded message
DigestInputIsCanonical == done => (Len(Padded(pos)) % B = 0 /\ blocks = Canonical(pos))
\* while streaming: buffer and counters are what the consumed prefix dictates
StreamingInv == ~done => /\ curlen = pos % B /\ Len(buf) = curlen /\ lengthBits = 8 * (pos - curlen)
                         /\ buf = Msg(pos - curlen + 1, pos)
                         /\ blocks = [k \in 1 .. (pos \div B) |-> Msg((k - 1) * B + 1, k * B)]
=============================================================================
