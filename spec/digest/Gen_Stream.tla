------------------------------ MODULE Gen_Stream ------------------------------
\* C14 -- transition generator for StreamI: every (buffer fill, chunk length) step and every Finalize (idiom: ringbuffer/Gen_Ring.tla)
EXTENDS StreamI, TLC, Json
VARIABLE op
gvars == <<vars, op>>
GInit == Init /\ op = [o |-> "init", n |-> 0]
GNext == \/ \E n \in 0 .. MaxL : (Process(n) /\ op' = [o |-> "process", n |-> n])
         \/ (Finalize /\ op' = [o |-> "finalize", n |-> 0])
GenSpec == GInit /\ [][GNext]_gvars
View == <<pos, curlen, done>>
St == <<pos, curlen, done>>
Edge == PrintT(<<"@@GEN@@", ToJson([f |-> ToString(St), o |-> op', t |-> ToString(St')])>>)
=============================================================================
