CONSTANTS B = 64
          P = 56
          W = 8
          MaxL = 130
SPECIFICATION Spec
INVARIANTS DigestInputIsCanonical StreamingInv
CHECK_DEADLOCK FALSE
