----------------------------- MODULE Trace_Digest -----------------------------
(***************************************************************************)
(* C14 -- events recorded by harness/drv_digest.cpp.                        *)
(* "digest": one message of length len, cut into process() calls as listed  *)
(*   in chunks (a chunking generated from StreamI's transition graph);      *)
(*   raw / hex / hex_uc are what the class returned after those calls,      *)
(*   oneshot_* what the helper functions returned for the whole message,    *)
(*   expected the standard's digest of the message (oracle: hashlib).       *)
(* "siphash": plain, vectorised and dispatching implementation on the same  *)
(*   key / message / alignment, and the SipHash-2-4 value (oracle: the      *)
(*   algorithm of the paper written out in Python).                         *)
(***************************************************************************)
EXTENDS Integers, Sequences, TraceIO
VARIABLE l
Ev == TraceLog[l]
RECURSIVE Flatten(_)
Flatten(ss) == IF ss = <<>> THEN <<>> ELSE Head(ss) \o Flatten(Tail(ss))
HexDigit(v, upper) == IF v < 10 THEN 48 + v ELSE (IF upper THEN 55 ELSE 87) + v
HexEnc(d, upper) == Flatten([i \in DOMAIN d |-> <<HexDigit(d[i] \div 16, upper), HexDigit(d[i] % 16, upper)>>])
RECURSIVE Sum(_)
Sum(s) == IF s = <<>> THEN 0 ELSE Head(s) + Sum(Tail(s))
DigestLen(a) == CASE a = "md5" -> 16 [] a = "sha1" -> 20 [] a = "sha256" -> 32 [] a = "sha512" -> 64
Step ==
    CASE Ev.e = "reset" -> TRUE
      [] Ev.e = "digest" ->
            /\ Sum(Ev.chunks) = Ev.len                              \* the chunking really is a partition of the message
            /\ Len(Ev.raw) = DigestLen(Ev.algo)
            /\ Ev.raw = Ev.expected                                 \* the standard's digest, whatever the chunking
            /\ Ev.hex = HexEnc(Ev.raw, FALSE) /\ Ev.hex_uc = HexEnc(Ev.raw, TRUE)
            /\ Ev.finalize_raw = Ev.raw
            /\ \A i \in DOMAIN Ev.oneshot_hex : Ev.oneshot_hex[i] = HexEnc(Ev.expected, FALSE)
            /\ \A i \in DOMAIN Ev.oneshot_hex_uc : Ev.oneshot_hex_uc[i] = HexEnc(Ev.expected, TRUE)
      [] Ev.e = "digest_big" ->                                      \* a message of 2^29 bytes and more (its bytes are not logged): digest and one-shot helper vs. hashlib
            /\ Ev.partition /\ Len(Ev.raw) = DigestLen(Ev.algo) /\ Ev.raw = Ev.expected
            /\ \A i \in DOMAIN Ev.oneshot_hex : Ev.oneshot_hex[i] = HexEnc(Ev.expected, FALSE)
      [] Ev.e = "siphash" ->
            /\ Ev.plain = Ev.expected /\ Ev.vector = Ev.expected /\ Ev.dispatch = Ev.expected
      [] OTHER -> FALSE
TInit == l = 1
TNext == l <= TraceLen /\ Step /\ l' = l + 1
TraceSpec == TInit /\ [][TNext]_l
Progress == TrackProgress(l)
Report == ReportResult
=============================================================================
