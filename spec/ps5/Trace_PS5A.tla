----------------------------- MODULE Trace_PS5A -----------------------------
(***************************************************************************)
(* C04, property level, on the same hook events as Trace_PS5: whatever the  *)
(* job graph looks like,                                                    *)
(*   - no life-cycle operation names a step that has been deleted           *)
(*     ("touches an internal work item after it has been released"),        *)
(*   - no step is deleted twice, and                                        *)
(*   - when the sort returns every step that was created has been deleted.  *)
(* Trace_PS5 (the implementation-shaped PS5I) is validated first; what it   *)
(* rejects but this spec accepts is DRIFT.                                  *)
(***************************************************************************)
EXTENDS TraceIO, FiniteSets
VARIABLES l, created, deleted
Ev == TraceLog[l]
Step ==
    CASE Ev.e = "reset" -> created' = {1} /\ deleted' = {}
      [] Ev.e \in {"new_big", "new_small"} -> Ev.s \notin created /\ (Ev.p = 0 \/ Ev.p \in created \ deleted) /\ created' = created \cup {Ev.s} /\ deleted' = deleted
      [] Ev.e = "del" -> Ev.s \in created \ deleted /\ deleted' = deleted \cup {Ev.s} /\ created' = created
      [] Ev.e = "return" -> created = deleted /\ UNCHANGED <<created, deleted>>
      [] Ev.e \in {"sample", "count", "dist", "small_run", "add", "dec", "all_done", "bkt_destroy", "enq_count", "enq_dist"} ->
            Ev.s \in created \ deleted /\ UNCHANGED <<created, deleted>>
      [] Ev.e = "enq_end" -> UNCHANGED <<created, deleted>>          \* reports only the pointer value, touches nothing
      [] OTHER -> FALSE
TInit == l = 1 /\ created = {} /\ deleted = {}
TNext == l <= TraceLen /\ Step /\ l' = l + 1
TraceSpec == TInit /\ [][TNext]_<<l, created, deleted>>
Progress == TrackProgress(l)
Report == ReportResult
=============================================================================
