CONSTANTS W = 2
          MaxSteps = 3
          MaxKids = 2
          MaxParts = 2
          MaxDepth = 1
          WithLcp = FALSE
          DestroyBeforeRelease = TRUE
          LoopReadsMember = FALSE
SPECIFICATION Spec
INVARIANTS NoTouchAfterDelete HandleDiscipline DeletedAtMostOnce CountersNonNegative AllReleasedAtReturn ParentAlive CounterMeaning
PROPERTY Terminates
CHECK_DEADLOCK TRUE
