------------------------------ MODULE Trace_PS5 ------------------------------
(***************************************************************************)
(* C04 -- step life-cycle events recorded by the TLX_VERIF_PS5 hooks while  *)
(* the real parallel_sample_sort runs under the scheduler shim, validated   *)
(* against PS5I: every event must be the PS5I action of the same name,      *)
(* taken by that thread, on that step, with that counter value.             *)
(*   {"e":"reset","kind":"big"|"small","parts":p}      a new sort call     *)
(*   {"e":name,"t":thread,"s":step,"p":parent,"n":value}                    *)
(* Steps are numbered in creation order (tools/props/c04.py maps the object *)
(* addresses).  Unlogged: a pool worker taking a job, the end of spawning,  *)
(* returning from the outermost substep_notify_done (silent steps, taken    *)
(* only by the thread of the next event).                                   *)
(***************************************************************************)
EXTENDS PS5I, TraceIO
VARIABLE l
Ev == TraceLog[l]
\* model constants from the first line of the trace file: {"e":"reset", ..., "w": threads, "steps": most steps of any execution in the file}
TraceW == TraceLog[1].w
TraceSteps == TraceLog[1].steps
tvars == <<vars, l>>

ResetTo(kd, p) ==
    /\ nsteps' = 1
    /\ kind' = [s \in Steps |-> IF s = 1 THEN kd ELSE "none"]
    /\ parts' = [s \in Steps |-> IF s = 1 /\ kd = "big" THEN p ELSE 0]
    /\ jobs' = {Job(IF kd = "big" THEN "sample" ELSE "small", 1)}
    /\ parent' = [s \in Steps |-> 0] /\ depthOf' = [s \in Steps |-> 0]
    /\ alive' = [s \in Steps |-> s = 1] /\ working' = [s \in Steps |-> 0] /\ pwork' = [s \in Steps |-> 0]
    /\ deleted' = [s \in Steps |-> 0]
    /\ task' = [w \in Workers |-> None]
    /\ pend' = [k \in {"count", "dist"} |-> [s \in Steps |-> 0]]
    /\ bad' = "" /\ undisciplined' = "" /\ mainDone' = FALSE

\* what must hold after every step of a recorded execution
Safe ==
    /\ bad' = "" /\ undisciplined' = ""
    /\ \A s \in 1 .. nsteps' : deleted'[s] <= 1 /\ working'[s] >= 0 /\ pwork'[s] >= 0
    /\ mainDone' => \A s \in 1 .. nsteps' : ~alive'[s] /\ deleted'[s] = 1

JobKind(e) == CASE e = "sample" -> "sample" [] e = "count" -> "count" [] e = "dist" -> "dist" [] e = "small_run" -> "small" [] OTHER -> "?"

Silent ==
    /\ l <= TraceLen /\ Ev.e # "reset" /\ UNCHANGED l
    /\ LET w == Ev.t IN
       IF Ev.e = "return"
       THEN \E v \in Workers : Unwound(v)
       ELSE /\ w \in Workers
            /\ \/ (task[w].k = "none" /\ Ev.e \in {"sample", "small_run"} /\ Take(w, Job(JobKind(Ev.e), Ev.s)))
               \/ (task[w].k = "none" /\ Ev.e \in {"count", "dist"} /\ TakeCounted(w, JobKind(Ev.e)) /\ task'[w].s = Ev.s)
               \/ (Ev.e = "dec" /\ SpawnDone(w))
               \/ (task[w].k = "unwind" /\ Unwound(w))

Logged ==
    /\ l <= TraceLen /\ l' = l + 1
    /\ LET w == Ev.t IN
       CASE Ev.e = "reset" -> ResetTo(Ev.kind, Ev.parts)
         [] Ev.e = "sample" -> Sample(w) /\ task[w].s = Ev.s /\ parts[Ev.s] = Ev.n
         [] Ev.e \in {"enq_count", "enq_dist"} -> Enq(w) /\ task[w].s = Ev.s /\ task[w].k = Ev.e /\ task[w].n = Ev.n
         [] Ev.e = "enq_end" -> EnqEnd(w) /\ task[w].s = Ev.s
         [] Ev.e = "count" -> Count(w) /\ task[w].s = Ev.s /\ pwork[Ev.s] - 1 = Ev.n
         [] Ev.e = "dist" -> Dist(w) /\ task[w].s = Ev.s /\ pwork[Ev.s] - 1 = Ev.n
         [] Ev.e = "small_run" -> SmallRun(w) /\ task[w].s = Ev.s
         [] Ev.e = "add" -> (AnonAdd(w) \/ SpawnAdd(w)) /\ task[w].s = Ev.s /\ working'[Ev.s] = Ev.n
         [] Ev.e = "new_big" -> SpawnNew(w, "big", Ev.n) /\ task[w].s = Ev.p /\ nsteps' = Ev.s
         [] Ev.e = "new_small" -> SpawnNew(w, "small", 1) /\ task[w].s = Ev.p /\ nsteps' = Ev.s
         [] Ev.e = "bkt_destroy" -> BktDestroyEarly(w) /\ task[w].s = Ev.s
         [] Ev.e = "dec" -> Dec(w) /\ task[w].n = Ev.s /\ working'[Ev.s] = Ev.n
         [] Ev.e = "all_done" -> AllDone(w) /\ task[w].n = Ev.s /\ parent[Ev.s] = Ev.p
         [] Ev.e = "del" -> Delete(w) /\ task[w].stack[Len(task[w].stack)] = Ev.s
         [] Ev.e = "return" -> MainReturn
         [] OTHER -> FALSE
    /\ Safe

TInit == InitWith("small", 1) /\ l = 1
TNext == Silent \/ Logged
TraceSpec == TInit /\ [][TNext]_tvars
Progress == TrackProgress(l)
Report == ReportResult
=============================================================================
