CONSTANT ILevel = FALSE
SPECIFICATION TraceSpec
CONSTRAINT Progress
POSTCONDITION Report
CHECK_DEADLOCK FALSE
