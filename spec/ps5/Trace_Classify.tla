---------------------------- MODULE Trace_Classify ----------------------------
(***************************************************************************)
(* C04 -- results of the real classifiers (harness/drv_classify.cpp) judged *)
(* against what the sample sort needs from them (see ClassifyI.tla):        *)
(* splitters in order and taken from the sample, every key in the bucket    *)
(* its value demands -- both as classify() stores it (groups of four and a  *)
(* scalar tail) and as find_bkt() returns it --, and the splitter LCP array *)
(* (common key bytes of neighbouring splitters, bit 7 = "string ends inside *)
(* the key").  Keys are sequences of 8 bytes, most significant first.       *)
(* With ILevel = TRUE the splitters must also be exactly those the          *)
(* transcribed builder picks (implementation level: DRIFT rule).            *)
(***************************************************************************)
EXTENDS Integers, Sequences, FiniteSets, TraceIO
CONSTANT ILevel
VARIABLE l
Ev == TraceLog[l]

RECURSIVE KCmp(_, _, _)
KCmp(a, b, k) == IF k > 8 THEN 0 ELSE IF a[k] < b[k] THEN -1 ELSE IF a[k] > b[k] THEN 1 ELSE KCmp(a, b, k + 1)
KLess(a, b) == KCmp(a, b, 1) < 0
RECURSIVE Common(_, _, _)
Common(a, b, k) == IF k > 8 \/ a[k] # b[k] THEN k - 1 ELSE Common(a, b, k + 1)

SetMinT(S) == CHOOSE x \in S : \A y \in S : x <= y
RECURSIVE RecurseT(_, _, _, _, _)
RecurseT(s, lo, hi, idx, ns) ==                \* ClassifyI!Recurse with the number of splitters as a parameter
    LET mid   == lo + (hi - lo) \div 2
        key   == s[mid + 1]
        midlo == SetMinT({m \in lo .. mid : \A j \in m .. mid - 1 : s[j + 1] = key})
        midhi == IF mid + 1 >= hi THEN mid ELSE SetMinT({p \in mid .. hi - 1 : p = hi - 1 \/ s[p + 1] # key})
    IN  IF 2 * idx < ns THEN RecurseT(s, lo, midlo, 2 * idx, ns) \o <<key>> \o RecurseT(s, midhi, hi, 2 * idx + 1, ns)
        ELSE <<key>>

BucketRight(b, key, S, ns) ==
    LET j == b \div 2 IN
    /\ b \in 0 .. 2 * ns
    /\ IF b % 2 = 1 THEN S[j + 1] = key
       ELSE (j = 0 \/ KLess(S[j], key)) /\ (j = ns \/ KLess(key, S[j + 1]))

Classify(e) ==
    LET ns == 2 ^ e.tb - 1   S == e.splitters IN
    /\ Len(S) = ns
    /\ \A j \in 1 .. ns - 1 : ~KLess(S[j + 1], S[j])
    /\ \A j \in 1 .. ns : \E p \in 1 .. Len(e.samples) : e.samples[p] = S[j]
    /\ Len(e.bkt) = Len(e.keys) /\ Len(e.bkt1) = Len(e.keys) /\ e.tail_untouched
    /\ \A i \in 1 .. Len(e.keys) : BucketRight(e.bkt[i], e.keys[i], S, ns) /\ BucketRight(e.bkt1[i], e.keys[i], S, ns)
    /\ Len(e.lcp) = ns + 1 /\ e.lcp[ns + 1] = 0 /\ e.lcp[1] % 128 = 0
    /\ \A j \in 1 .. ns : /\ e.lcp[j] \div 128 = (IF S[j][8] = 0 THEN 1 ELSE 0)
                          /\ j > 1 => e.lcp[j] % 128 = Common(S[j - 1], S[j], 1)
    /\ ILevel => S = RecurseT(e.samples, 0, Len(e.samples), 1, ns)

Step ==
    CASE Ev.e = "reset" -> TRUE
      [] Ev.e = "classify" -> Classify(Ev)
      [] OTHER -> FALSE
TInit == l = 1
\* (Step = TRUE): evaluated as a value, so that the disjunctions / quantifiers inside are not taken for action-level alternatives by TLC
TNext == l <= TraceLen /\ (Step = TRUE) /\ l' = l + 1
TraceSpec == TInit /\ [][TNext]_l
Progress == TrackProgress(l)
Report == ReportResult
=============================================================================
