CONSTANTS W <- TraceW
          MaxSteps <- TraceSteps
          MaxKids = 100000
          MaxParts = 100000
          MaxDepth = 100000
          WithLcp = FALSE
          DestroyBeforeRelease = TRUE
          LoopReadsMember = FALSE
SPECIFICATION TraceSpec
CONSTRAINT Progress
POSTCONDITION Report
CHECK_DEADLOCK FALSE
