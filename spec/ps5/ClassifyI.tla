------------------------------ MODULE ClassifyI ------------------------------
(***************************************************************************)
(* C04 -- the splitter trees of the string sample sort                      *)
(* (tlx/sort/strings/sample_sort_tools.hpp), transcribed:                   *)
(*                                                                          *)
(*   * the recursive tree builders (SSTreeBuilderLevelOrder /               *)
(*     SSTreeBuilderPreAndLevelOrder::recurse): middle sample of a range,   *)
(*     the run of equal samples around it is skipped on both sides;         *)
(*   * PerfectTreeCalculations::level_to_preorder / pre_to_levelorder as    *)
(*     the bit formulas they are;                                           *)
(*   * find_bkt of the three classifiers (SSClassifyTreeUnrollInterleave,   *)
(*     SSClassifyTreeCalcUnrollInterleave, SSClassifyEqualUnroll) and their *)
(*     get_splitter().                                                      *)
(*                                                                          *)
(* What the parallel sample sort needs from a classifier (and what TLC      *)
(* checks here for every sorted sample of bounded length and every key):    *)
(*   - an odd bucket 2j+1 holds only keys equal to get_splitter(j);         *)
(*   - an even bucket 2j holds only keys strictly between get_splitter(j-1) *)
(*     and get_splitter(j);                                                 *)
(*   - get_splitter(0..n-1) is the in-order (sorted) splitter sequence.     *)
(* Variant names a deliberate deviation (negative self-tests):              *)
(*   "equal_get_splitter_unshifted"  the code before /repo a957e7d          *)
(*   "scalar_strict_less"            seeded change C04b (key < splitter in  *)
(*                                   the scalar find_bkt of the calc tree)  *)
(***************************************************************************)
EXTENDS Integers, Sequences, FiniteSets, TLC

CONSTANTS TreeBits,      \* 1 .. 3
          Keys,          \* finite set of integers (the sample values)
          MaxSample,     \* longest sample
          Variant

NS == 2 ^ TreeBits - 1                 \* num_splitters

VARIABLES samples, probe
vars == <<samples, probe>>

SortedSeqs(n) == {s \in [1 .. n -> Keys] : \A i \in 1 .. n - 1 : s[i] <= s[i + 1]}
Probes == Keys \cup {k - 1 : k \in Keys} \cup {k + 1 : k \in Keys}

Init == /\ samples \in UNION {SortedSeqs(n) : n \in 1 .. MaxSample}
        /\ probe \in Probes
Next == UNCHANGED vars
Spec == Init /\ [][Next]_vars

(***************************************************************************)
(* recurse(lo, hi, treeidx): lo, hi are 0-based positions in the sample     *)
(* ([lo, hi) half open, s[p + 1] is *(samples + p)).  Returns the tree      *)
(* entries written (level order index -> key) and the in-order sequence of  *)
(* the splitters below this node.                                           *)
(***************************************************************************)
SetMin(S) == CHOOSE x \in S : \A y \in S : x <= y
RECURSIVE Recurse(_, _, _, _)
Recurse(s, lo, hi, idx) ==
    LET mid   == lo + (hi - lo) \div 2
        key   == s[mid + 1]
        \* while (lo < midlo && *(midlo - 1) == mykey) midlo--;
        midlo == SetMin({m \in lo .. mid : \A j \in m .. mid - 1 : s[j + 1] = key})
        \* while (midhi + 1 < hi && *midhi == mykey) midhi++;
        midhi == IF mid + 1 >= hi THEN mid
                 ELSE SetMin({p \in mid .. hi - 1 : p = hi - 1 \/ s[p + 1] # key})
    IN  IF 2 * idx < NS
        THEN LET l == Recurse(s, lo, midlo, 2 * idx)
                 r == Recurse(s, midhi, hi, 2 * idx + 1)
             IN  [tree |-> (idx :> key) @@ l.tree @@ r.tree, inorder |-> l.inorder \o <<key>> \o r.inorder]
        ELSE [tree |-> (idx :> key), inorder |-> <<key>>]

Built == Recurse(samples, 0, Len(samples), 1)
Tree == Built.tree              \* splitter_tree_[1 .. NS]
Splitter == Built.inorder       \* splitter_[0 .. NS-1] as Splitter[1 .. NS]

(***************************************************************************)
(* PerfectTreeCalculations (ids count from one)                             *)
(***************************************************************************)
BitLen(id) == CHOOSE n \in 1 .. TreeBits + 1 : 2 ^ (n - 1) <= id /\ id < 2 ^ n
Ctz(id) == CHOOSE c \in 0 .. TreeBits : id % (2 ^ (c + 1)) = 2 ^ c
\* hi = treebits - 32 + clz32(id);  ((id << (hi + 1)) & mask) | (1 << hi)
LevelToPre(id) == LET hi == TreeBits - BitLen(id) IN ((id * 2 ^ (hi + 1)) % (2 ^ TreeBits)) + 2 ^ hi
\* lo = ctz(id) + 1;  ((id >> lo) & mask) | (1 << (treebits - lo))
PreToLevel(id) == LET lo == Ctz(id) + 1 IN ((id \div 2 ^ lo) % (2 ^ TreeBits)) + 2 ^ (TreeBits - lo)

(***************************************************************************)
(* get_splitter(i), i counts from zero                                      *)
(***************************************************************************)
GetSplitterUnroll(i) == Splitter[i + 1]                               \* splitter_[i]
GetSplitterCalc(i)   == Tree[PreToLevel(i + 1)]
GetSplitterEqual(i)  == IF Variant = "equal_get_splitter_unshifted"
                        THEN (IF i = 0 THEN 0 ELSE Tree[PreToLevel(i)])     \* ctz(0) is undefined in the code: any value
                        ELSE Tree[PreToLevel(i + 1)]

(***************************************************************************)
(* find_bkt                                                                 *)
(***************************************************************************)
RECURSIVE Descend(_, _, _)
Descend(i, key, strict) ==             \* while (i <= num_splitters) i = 2 * i + (key <= tree[i] ? 0 : 1)
    IF i > NS THEN i
    ELSE Descend(2 * i + (IF (IF strict THEN key < Tree[i] ELSE key <= Tree[i]) THEN 0 ELSE 1), key, strict)

BktWith(getsplitter(_), key, strict) ==
    LET i == Descend(1, key, strict) - (NS + 1)
    IN  IF i < NS /\ getsplitter(i) = key THEN 2 * i + 1 ELSE 2 * i
BktUnroll(key) == BktWith(GetSplitterUnroll, key, FALSE)
BktCalc(key)   == BktWith(GetSplitterCalc, key, Variant = "scalar_strict_less")

RECURSIVE DescendEq(_, _, _)
DescendEq(i, key, level) ==            \* TLX_CLASSIFY_TREE_STEP of SSClassifyEqualUnroll, treebits steps
    IF level = 0 THEN 2 * (i - (NS + 1))
    ELSE IF key = Tree[i] THEN 2 * LevelToPre(i) - 1
    ELSE DescendEq(2 * i + (IF key < Tree[i] THEN 0 ELSE 1), key, level - 1)
BktEqual(key) == DescendEq(1, key, TreeBits)

(***************************************************************************)
(* What the sample sort relies on                                           *)
(***************************************************************************)
BucketRight(b, key, getsplitter(_)) ==
    LET j == b \div 2 IN
    /\ b \in 0 .. 2 * NS
    /\ IF b % 2 = 1 THEN getsplitter(j) = key
       ELSE /\ (j = 0 \/ getsplitter(j - 1) < key)
            /\ (j = NS \/ key < getsplitter(j))

SplittersInOrder == /\ Len(Splitter) = NS
                    /\ \A j \in 1 .. NS - 1 : Splitter[j] <= Splitter[j + 1]
                    /\ \A j \in 1 .. NS : \E p \in 1 .. Len(samples) : samples[p] = Splitter[j]
GetSplitterIsInOrder ==
    \A j \in 0 .. NS - 1 : /\ GetSplitterUnroll(j) = Splitter[j + 1]
                           /\ GetSplitterCalc(j) = Splitter[j + 1]
                           /\ GetSplitterEqual(j) = Splitter[j + 1]
TreeCalculationsInverse == \A id \in 1 .. NS : PreToLevel(LevelToPre(id)) = id /\ LevelToPre(PreToLevel(id)) = id
ClassifyRight ==
    /\ BucketRight(BktUnroll(probe), probe, GetSplitterUnroll)
    /\ BucketRight(BktCalc(probe), probe, GetSplitterCalc)
    /\ BucketRight(BktEqual(probe), probe, GetSplitterEqual)
=============================================================================
