CONSTANT ILevel = TRUE
SPECIFICATION TraceSpec
CONSTRAINT Progress
POSTCONDITION Report
CHECK_DEADLOCK FALSE
