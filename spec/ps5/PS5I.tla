-------------------------------- MODULE PS5I --------------------------------
(***************************************************************************)
(* C04 -- the job graph of tlx's parallel string sample sort                *)
(* (parallel_sample_sort.hpp) on top of a thread pool: which jobs exist,    *)
(* which step objects they touch, when a step is released and deleted.      *)
(* One action per life-cycle operation the code performs on a step object   *)
(* (the TLX_VERIF_PS5 hook events carry the same names).                    *)
(*                                                                          *)
(* Step objects: Big (PS5BigSortStep) and Small (PS5SmallsortJob); each has *)
(* the substep counter `working`, a parent, and is deleted by the thread     *)
(* whose decrement brings `working` to 0: substep_notify_done() ->          *)
(* substep_all_done() (LCP fix-up; notify the parent, which may recurse;    *)
(* delete this).                                                            *)
(*   Big s:   Sample ; Count x parts ; [last] Distribute x parts ; [last]   *)
(*            tail                                                          *)
(*   Small s: SmallRun ; tail                                               *)
(*   tail:    AnonAdd ; (SpawnAdd ; SpawnNew)* ; [BktDestroy] ; Dec ...     *)
(* The number and kind of children is nondeterministic (the input decides). *)
(* The pool runs pending jobs in any order on W workers.                    *)
(*                                                                          *)
(* DestroyBeforeRelease = TRUE is the repaired distribute_finished();       *)
(* FALSE is the original order (bkt_[0].destroy() after the release), for   *)
(* which TLC finds both safety properties violated.                         *)
(***************************************************************************)
EXTENDS Integers, Sequences, FiniteSets

CONSTANTS W,            \* workers
          MaxSteps,     \* step objects that may be created in total
          MaxKids,      \* children per step
          MaxParts,     \* parts of a big step
          MaxDepth,     \* big steps only above this depth
          WithLcp,      \* LCP variant (BktDestroy happens inside substep_all_done instead)
          DestroyBeforeRelease,
          LoopReadsMember   \* original enqueue loops: `for (p = 0; p < parts_; ++p) ctx_.threads_.enqueue(...)` re-read members of
                            \* the step after the last job was enqueued; repaired code (FALSE) iterates over locals

Steps == 1 .. MaxSteps
Workers == 1 .. W
None == [k |-> "none", s |-> 0, n |-> 0, stack |-> <<>>]

VARIABLES nsteps,        \* steps created so far
          kind, parent, depthOf, parts, alive, working, pwork, deleted,
          jobs,          \* pending first jobs of steps (sample / small): set of records [k, s]
          pend,          \* pend[k][s]: enqueued, not yet taken count / distribute jobs of step s
          task,          \* task[w]: stage of the job worker w is executing (k = "none": idle);
                         \*   stack = steps whose substep_all_done() is on w's call stack
          bad,           \* ghost: what touched a step after its deletion
          undisciplined, \* ghost: what touched a step without being entitled to (see Entitled)
          mainDone       \* loop_until_empty has returned

vars == <<nsteps, kind, parent, depthOf, parts, alive, working, pwork, deleted, jobs, pend, task, bad, undisciplined, mainDone>>
stepvars == <<nsteps, kind, parent, depthOf, parts>>

T(k, s, n, st) == [k |-> k, s |-> s, n |-> n, stack |-> st]
Job(k, s) == [k |-> k, s |-> s]
InSeq(x, sq) == \E i \in 1 .. Len(sq) : sq[i] = x

\* the rules by which a thread may touch a step object:
\*   "job"    it executes a job of the step that has not yet released the step's anonymous handle
\*   "child"  it is inside substep_all_done() of a live child (which still holds its handle on the parent)
\*   "done"   it is inside the step's own substep_all_done()
\*   "enq"    it is enqueuing the step's count / distribute jobs and at least one is still to come
\*   "release" it gives up the anonymous handle it took in the same job
Entitled(w, s, how) ==
    CASE how = "job" -> task[w].s = s /\ task[w].k \in {"sample", "count", "dist", "small", "anon_add", "spawn", "spawn_new"}
      [] how = "enq" -> task[w].s = s /\ task[w].k \in {"enq_count", "enq_dist"} /\ task[w].n < parts[s]
      [] how = "child" -> \E i \in 1 .. Len(task[w].stack) : parent[task[w].stack[i]] = s /\ alive[task[w].stack[i]]
      [] how = "done" -> InSeq(s, task[w].stack)
      [] how = "release" -> task[w].k = "dec" /\ task[w].s = s /\ task[w].stack = <<>>    \* giving up the anonymous handle
      [] OTHER -> FALSE
Touch(w, s, hows, what) ==
    /\ bad' = IF alive[s] \/ bad # "" THEN bad ELSE what
    /\ undisciplined' = IF (\E h \in hows : Entitled(w, s, h)) \/ undisciplined # "" THEN undisciplined ELSE what

InitWith(kd, p) ==
    /\ nsteps = 1
    /\ kind = [s \in Steps |-> IF s = 1 THEN kd ELSE "none"]
    /\ parts = [s \in Steps |-> IF s = 1 /\ kd = "big" THEN p ELSE 0]
    /\ jobs = {Job(IF kd = "big" THEN "sample" ELSE "small", 1)}
    /\ parent = [s \in Steps |-> 0] /\ depthOf = [s \in Steps |-> 0]
    /\ alive = [s \in Steps |-> s = 1] /\ working = [s \in Steps |-> 0] /\ pwork = [s \in Steps |-> 0]
    /\ deleted = [s \in Steps |-> 0]
    /\ task = [w \in Workers |-> None]
    /\ pend = [k \in {"count", "dist"} |-> [s \in Steps |-> 0]]
    /\ bad = "" /\ undisciplined = "" /\ mainDone = FALSE
Init == \E kd \in {"big", "small"}, p \in 1 .. MaxParts : InitWith(kd, p)

\* a pool worker takes job j
Take(w, j) ==
    /\ task[w].k = "none" /\ j \in jobs
    /\ jobs' = jobs \ {j} /\ task' = [task EXCEPT ![w] = T(j.k, j.s, 0, <<>>)]
    /\ UNCHANGED <<stepvars, alive, working, pwork, deleted, pend, bad, undisciplined, mainDone>>

Finish(w) == task' = [task EXCEPT ![w] = None]

\* ---- big step: sample, count, distribute
Sample(w) ==
    LET s == task[w].s IN
    /\ task[w].k = "sample"
    /\ Touch(w, s, {"job"}, "sample() on a deleted step")
    /\ pwork' = [pwork EXCEPT ![s] = parts[s]]
    /\ task' = [task EXCEPT ![w] = T("enq_count", s, 0, <<>>)]
    /\ UNCHANGED <<stepvars, alive, working, deleted, jobs, pend, mainDone>>

\* one iteration of `for (p = 0; p < parts; ++p) enqueue(job(p))`: the jobs of one step are interchangeable, pend counts them
Enq(w) ==
    LET s == task[w].s  k == IF task[w].k = "enq_count" THEN "count" ELSE "dist" IN
    /\ task[w].k \in {"enq_count", "enq_dist"} /\ task[w].n < parts[s]
    /\ IF LoopReadsMember THEN Touch(w, s, {"enq"}, "enqueue loop on a deleted step") ELSE UNCHANGED <<bad, undisciplined>>
    /\ pend' = [pend EXCEPT ![k][s] = @ + 1]
    /\ task' = [task EXCEPT ![w] = T(task[w].k, s, task[w].n + 1, <<>>)]
    /\ UNCHANGED <<stepvars, alive, working, pwork, deleted, jobs, mainDone>>

\* the loop ends; the original code evaluates `p < parts_` once more
EnqEnd(w) ==
    LET s == task[w].s IN
    /\ task[w].k \in {"enq_count", "enq_dist"} /\ task[w].n = parts[s]
    /\ IF LoopReadsMember THEN Touch(w, s, {"enq"}, "the enqueue loop reads parts_ after the last job was enqueued") ELSE UNCHANGED <<bad, undisciplined>>
    /\ Finish(w)
    /\ UNCHANGED <<stepvars, alive, working, pwork, deleted, jobs, pend, mainDone>>

TakeCounted(w, k) ==
    \E s \in 1 .. nsteps :
      /\ task[w].k = "none" /\ pend[k][s] > 0
      /\ pend' = [pend EXCEPT ![k][s] = @ - 1]
      /\ task' = [task EXCEPT ![w] = T(k, s, 0, <<>>)]
      /\ UNCHANGED <<stepvars, alive, working, pwork, deleted, jobs, bad, undisciplined, mainDone>>

Count(w) ==
    LET s == task[w].s IN
    /\ task[w].k = "count"
    /\ Touch(w, s, {"job"}, "count() on a deleted step")
    /\ IF pwork[s] = 1      \* last one: count_finished() re-arms pwork_ and enqueues the distribute jobs
       THEN pwork' = [pwork EXCEPT ![s] = parts[s]] /\ task' = [task EXCEPT ![w] = T("enq_dist", s, 0, <<>>)]
       ELSE pwork' = [pwork EXCEPT ![s] = @ - 1] /\ Finish(w)
    /\ UNCHANGED <<stepvars, alive, working, deleted, jobs, pend, mainDone>>

Dist(w) ==
    LET s == task[w].s IN
    /\ task[w].k = "dist"
    /\ Touch(w, s, {"job"}, "distribute() on a deleted step")
    /\ pwork' = [pwork EXCEPT ![s] = @ - 1]
    /\ IF pwork[s] = 1 THEN task' = [task EXCEPT ![w] = T("anon_add", s, 0, <<>>)] ELSE Finish(w)
    /\ UNCHANGED <<stepvars, alive, working, deleted, jobs, pend, mainDone>>

\* ---- small step
SmallRun(w) ==
    /\ task[w].k = "small"
    /\ Touch(w, task[w].s, {"job"}, "run() on a deleted step")
    /\ task' = [task EXCEPT ![w] = T("anon_add", task[w].s, 0, <<>>)]
    /\ UNCHANGED <<stepvars, alive, working, pwork, deleted, jobs, pend, mainDone>>

\* ---- common tail: anonymous handle, children, release
AnonAdd(w) ==
    LET s == task[w].s IN
    /\ task[w].k = "anon_add"
    /\ Touch(w, s, {"job"}, "substep_add() on a deleted step")
    /\ working' = [working EXCEPT ![s] = @ + 1]
    /\ task' = [task EXCEPT ![w] = T("spawn", s, 0, <<>>)]
    /\ UNCHANGED <<stepvars, alive, pwork, deleted, jobs, pend, mainDone>>

\* one child: substep_add() ...
SpawnAdd(w) ==
    LET s == task[w].s IN
    /\ task[w].k = "spawn" /\ task[w].n < MaxKids
    /\ nsteps + Cardinality({v \in Workers : task[v].k = "spawn_new"}) < MaxSteps      \* (model bound)
    /\ Touch(w, s, {"job"}, "substep_add() on a deleted step")
    /\ working' = [working EXCEPT ![s] = @ + 1]
    /\ task' = [task EXCEPT ![w] = T("spawn_new", s, task[w].n + 1, <<>>)]
    /\ UNCHANGED <<stepvars, alive, pwork, deleted, jobs, pend, mainDone>>

\* ... then the new step object is created and its first job enqueued (ctx.enqueue)
SpawnNew(w, kd, p) ==
    LET s == task[w].s  c == nsteps + 1 IN
    /\ task[w].k = "spawn_new"
    /\ kd \in (IF kind[s] = "big" /\ depthOf[s] < MaxDepth THEN {"big", "small"} ELSE {"small"})
    /\ p \in 1 .. MaxParts
    /\ nsteps' = c
    /\ kind' = [kind EXCEPT ![c] = kd] /\ parts' = [parts EXCEPT ![c] = IF kd = "big" THEN p ELSE 0]
    /\ jobs' = jobs \cup {Job(IF kd = "big" THEN "sample" ELSE "small", c)}
    /\ parent' = [parent EXCEPT ![c] = s] /\ depthOf' = [depthOf EXCEPT ![c] = depthOf[s] + 1]
    /\ alive' = [alive EXCEPT ![c] = TRUE]
    /\ task' = [task EXCEPT ![w] = T("spawn", s, task[w].n, <<>>)]
    /\ UNCHANGED <<working, pwork, deleted, pend, bad, undisciplined, mainDone>>

NeedsBktDestroy(s) == kind[s] = "big" /\ ~WithLcp

\* repaired order: bkt_[0].destroy() while the anonymous handle is still held
BktDestroyEarly(w) ==
    /\ task[w].k = "spawn" /\ NeedsBktDestroy(task[w].s) /\ DestroyBeforeRelease
    /\ Touch(w, task[w].s, {"job"}, "bkt_[0].destroy() on a deleted step")
    /\ task' = [task EXCEPT ![w] = T("dec", task[w].s, task[w].s, <<>>)]
    /\ UNCHANGED <<stepvars, alive, working, pwork, deleted, jobs, pend, mainDone>>

\* no more children: go on to release the anonymous handle
SpawnDone(w) ==
    /\ task[w].k = "spawn" /\ ~(NeedsBktDestroy(task[w].s) /\ DestroyBeforeRelease)
    /\ task' = [task EXCEPT ![w] = T("dec", task[w].s, task[w].s, <<>>)]
    /\ UNCHANGED <<stepvars, alive, working, pwork, deleted, jobs, pend, bad, undisciplined, mainDone>>

\* substep_notify_done() on step x = task[w].n: the anonymous release (stack empty) or the notification of a parent
Dec(w) ==
    LET x == task[w].n IN
    /\ task[w].k = "dec"
    /\ Touch(w, x, {"child", "release"}, "substep_notify_done() on a deleted step")
    /\ working' = [working EXCEPT ![x] = @ - 1]
    /\ IF working[x] = 1
       THEN task' = [task EXCEPT ![w] = T("all_done", task[w].s, x, Append(task[w].stack, x))]
       ELSE task' = [task EXCEPT ![w] = T("unwind", task[w].s, 0, task[w].stack)]
    /\ UNCHANGED <<stepvars, alive, pwork, deleted, jobs, pend, mainDone>>

\* substep_all_done() of x: LCP fix-up / reading pstep_, then notify the parent if there is one
AllDone(w) ==
    LET x == task[w].n IN
    /\ task[w].k = "all_done"
    /\ Touch(w, x, {"done"}, "substep_all_done() on a deleted step")
    /\ IF parent[x] # 0
       THEN task' = [task EXCEPT ![w] = T("dec", task[w].s, parent[x], task[w].stack)]
       ELSE task' = [task EXCEPT ![w] = T("unwind", task[w].s, 0, task[w].stack)]
    /\ UNCHANGED <<stepvars, alive, working, pwork, deleted, jobs, pend, mainDone>>

\* `delete this` at the end of the innermost substep_all_done() on the stack
Delete(w) ==
    LET st == task[w].stack  x == st[Len(st)] IN
    /\ task[w].k = "unwind" /\ st # <<>>
    /\ bad' = IF alive[x] \/ bad # "" THEN bad ELSE "a step is deleted twice"
    /\ alive' = [alive EXCEPT ![x] = FALSE]
    /\ deleted' = [deleted EXCEPT ![x] = @ + 1]
    /\ task' = [task EXCEPT ![w] = T("unwind", task[w].s, 0, SubSeq(st, 1, Len(st) - 1))]
    /\ UNCHANGED <<stepvars, working, pwork, jobs, pend, undisciplined, mainDone>>

\* back in the job body
Unwound(w) ==
    /\ task[w].k = "unwind" /\ task[w].stack = <<>>
    /\ IF NeedsBktDestroy(task[w].s) /\ ~DestroyBeforeRelease
       THEN task' = [task EXCEPT ![w] = T("post_touch", task[w].s, 0, <<>>)]
       ELSE Finish(w)
    /\ UNCHANGED <<stepvars, alive, working, pwork, deleted, jobs, pend, bad, undisciplined, mainDone>>

\* original order: bkt_[0].destroy() after the anonymous handle was released
BktDestroyLate(w) ==
    /\ task[w].k = "post_touch"
    /\ Touch(w, task[w].s, {"job"}, "bkt_[0].destroy() after the anonymous handle was released")
    /\ Finish(w)
    /\ UNCHANGED <<stepvars, alive, working, pwork, deleted, jobs, pend, mainDone>>

\* loop_until_empty(): nothing queued, nothing running
MainReturn ==
    /\ ~mainDone /\ jobs = {} /\ (\A s \in Steps : pend["count"][s] = 0 /\ pend["dist"][s] = 0) /\ \A w \in Workers : task[w].k = "none"
    /\ mainDone' = TRUE
    /\ UNCHANGED <<stepvars, alive, working, pwork, deleted, jobs, pend, task, bad, undisciplined>>

TakeAny(w) == (\E j \in {x \in jobs : x.k \in {"sample", "small"}} : Take(w, j)) \/ TakeCounted(w, "count") \/ TakeCounted(w, "dist")
Step(w) == \/ TakeAny(w) \/ Sample(w) \/ Enq(w) \/ EnqEnd(w) \/ Count(w) \/ Dist(w) \/ SmallRun(w) \/ AnonAdd(w) \/ SpawnAdd(w)
           \/ (\E kd \in {"big", "small"}, p \in 1 .. MaxParts : SpawnNew(w, kd, p))
           \/ BktDestroyEarly(w) \/ SpawnDone(w) \/ Dec(w) \/ AllDone(w) \/ Delete(w) \/ Unwound(w) \/ BktDestroyLate(w)
Next == (\E w \in Workers : Step(w)) \/ MainReturn \/ (mainDone /\ UNCHANGED vars)
Spec == Init /\ [][Next]_vars /\ WF_vars(Next)

(***************************************************************************)
NoTouchAfterDelete == bad = ""
HandleDiscipline == undisciplined = ""
DeletedAtMostOnce == \A s \in Steps : deleted[s] <= 1
CountersNonNegative == \A s \in Steps : working[s] >= 0 /\ pwork[s] >= 0 /\ pend["count"][s] >= 0 /\ pend["dist"][s] >= 0
\* when the sort returns every step object has been released and deleted (nothing leaks, nothing is still pending)
AllReleasedAtReturn == mainDone => \A s \in 1 .. nsteps : ~alive[s] /\ deleted[s] = 1
\* a parent outlives its children, except while the child's own substep_all_done() is unwinding (it deletes itself last)
ParentAlive == \A s \in 1 .. nsteps : (alive[s] /\ parent[s] # 0 /\ ~\E w \in Workers : InSeq(s, task[w].stack)) => alive[parent[s]]
\* the counter of a live step counts exactly its anonymous handle and its live children
CounterMeaning ==
    \A s \in 1 .. nsteps : alive[s] =>
        working[s] >= Cardinality({c \in 1 .. nsteps : parent[c] = s /\ alive[c] /\ ~\E w \in Workers : InSeq(c, task[w].stack)})
Terminates == <>mainDone
=============================================================================
