CONSTANTS Dup <- TraceDup
          Keys = {}
          MaxMult = 0
          Mutation = "none"
SPECIFICATION TraceSpec
CONSTRAINT Progress
POSTCONDITION Report
CHECK_DEADLOCK FALSE
