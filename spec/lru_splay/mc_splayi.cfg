CONSTANTS Keys = {1, 2, 3}
          MaxMult = 2
          Dup = TRUE
          Mutation = "none"
SPECIFICATION Spec
INVARIANTS Contents SizeRight Results
CHECK_DEADLOCK FALSE
