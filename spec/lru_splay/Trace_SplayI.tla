---------------------------- MODULE Trace_SplayI ----------------------------
(***************************************************************************)
(* C17, implementation level: the node structure of the real SplayTree      *)
(* after every call ("shape": nested [key, left, right] lists) compared     *)
(* with the tree SplayI computes for the same history.  A rejection that    *)
(* the property-level Trace_Splay accepts is DRIFT.                         *)
(***************************************************************************)
EXTENDS TraceIO
TraceDup == TraceLog[1].dup
CONSTANTS Keys, MaxMult, Dup, Mutation
VARIABLES root, size, bag, last, l
INSTANCE SplayI
Ev == TraceLog[l]
Step ==
    CASE Ev.e = "reset" -> root' = Nil /\ size' = 0
      [] Ev.e = "insert" -> LET t == Splay(Ev.k, root)  dupl == t # Nil /\ ~Dup /\ KeyOf(t) = Ev.k IN
                            root' = (IF dupl THEN t ELSE SplayInsert(Ev.k, t)) /\ size' = (IF dupl THEN size ELSE size + 1) /\ Ev.ret = ~dupl
      [] Ev.e = "erase" -> LET r == SplayErase(Ev.k, root) IN root' = r[1] /\ size' = (IF r[2] THEN size - 1 ELSE size) /\ Ev.ret = r[2]
      [] Ev.e \in {"exists", "find"} -> root' = Splay(Ev.k, root) /\ size' = size
      [] Ev.e = "clear" -> root' = Nil /\ size' = 0
      [] OTHER -> FALSE
ShapeOK == HasField(Ev, "shape") => (Ev.shape = root' /\ Ev.obs.size = size')
TInit == l = 1 /\ root = Nil /\ size = 0 /\ bag = <<>> /\ last = <<>>
TNext == l <= TraceLen /\ Step /\ ShapeOK /\ l' = l + 1 /\ UNCHANGED <<bag, last>>
TraceSpec == TInit /\ [][TNext]_<<root, size, bag, last, l>>
Progress == TrackProgress(l)
Report == ReportResult
=============================================================================
