------------------------------ MODULE Trace_Lru ------------------------------
(***************************************************************************)
(* C17 -- trace specification for LruCacheSet / LruCacheMap executions      *)
(* (harness/drv_lru.cpp).  After every call the driver logs size(), the     *)
(* exists() answer for every key of the universe and the recency order      *)
(* obtained by draining a copy of the cache with pop().                     *)
(***************************************************************************)
EXTENDS LruA, TraceIO
VARIABLE l
tvars == <<vars, l>>
Ev == TraceLog[l]

ObsOK(e) ==
    /\ e.obs.size = Len(order')
    /\ e.obs.order = order'
    /\ e.obs.vals = [i \in DOMAIN order' |-> val'[order'[i]]]
    /\ \A i \in DOMAIN e.obs.universe : e.obs.exists[i] = (e.obs.universe[i] \in {order'[j] : j \in DOMAIN order'})

Step(e) ==
    CASE e.e = "reset"           -> Clear
      [] e.e = "put"             -> Put(e.k, e.v)
      [] e.e = "touch"           -> Touch(e.k, e.ret)
      [] e.e = "touch_if_exists" -> TouchIfExists(e.k, e.ret)
      [] e.e = "erase"           -> Erase(e.k, e.ret)
      [] e.e = "erase_if_exists" -> EraseIfExists(e.k, e.ret)
      [] e.e = "get"             -> Get(e.k, e.ret, e.v)
      [] e.e = "get_touch"       -> GetTouch(e.k, e.ret, e.v)
      [] e.e = "pop"             -> Pop(e.k, e.v)
      [] e.e = "clear"           -> Clear
      [] OTHER                   -> FALSE

TInit == Init /\ l = 1
TNext == l <= TraceLen /\ Step(Ev) /\ ObsOK(Ev) /\ l' = l + 1
TraceSpec == TInit /\ [][TNext]_tvars
Progress == TrackProgress(l)
Report == ReportResult
=============================================================================
