------------------------------- MODULE SplayI -------------------------------
(***************************************************************************)
(* C17 -- the splay tree of tlx/container/splay_tree.hpp as the code has    *)
(* it: the top-down splay(k, t), splay_insert, splay_erase and the          *)
(* SplayTree methods insert / erase / exists / find / clear on top of them. *)
(* A tree is <<>> (nullptr) or <<key, left, right>>.  During a splay the    *)
(* code hangs the nodes it passes into two assembly trees through the       *)
(* pointers l and r; here they are two stacks of <<key, kept subtree>>      *)
(* pairs that are folded into trees at the end.                             *)
(* TLC checks over every history on a bounded key set: the tree is a        *)
(* search tree, its in-order walk is the sorted bag of stored keys, size_   *)
(* counts them, and the calls return what std::set / std::multiset return.  *)
(* Mutation = "erase_keeps_right" reproduces the original splay_erase       *)
(* (x->right = t->right without walking to the right end of x).             *)
(***************************************************************************)
EXTENDS Integers, Sequences, FiniteSets

CONSTANTS Keys, MaxMult, Dup, Mutation
VARIABLES root, size, bag, last
vars == <<root, size, bag, last>>

Nil == <<>>
Nd(k, l, r) == <<k, l, r>>
KeyOf(t) == t[1]
L(t) == t[2]
R(t) == t[3]

\* fold the assembly stacks: left assembly (keys smaller than the target) grows to the right, right assembly to the left
RECURSIVE FoldLeft(_, _)
FoldLeft(st, tail) == IF st = <<>> THEN tail ELSE Nd(st[1][1], st[1][2], FoldLeft(Tail(st), tail))
RECURSIVE FoldRight(_, _)
FoldRight(st, tail) == IF st = <<>> THEN tail ELSE Nd(st[1][1], FoldRight(Tail(st), tail), st[1][2])

\* the loop of splay(): t = current node, ls / rs = assembly stacks in the order the nodes were linked
RECURSIVE SplayLoop(_, _, _, _)
SplayLoop(k, t, ls, rs) ==
    IF k < KeyOf(t)
    THEN IF L(t) = Nil THEN <<t, ls, rs>>
         ELSE LET t1 == IF k < KeyOf(L(t)) THEN Nd(KeyOf(L(t)), L(L(t)), Nd(KeyOf(t), R(L(t)), R(t))) ELSE t      \* rotate right
              IN IF L(t1) = Nil THEN <<t1, ls, rs>>
                 ELSE SplayLoop(k, L(t1), ls, Append(rs, <<KeyOf(t1), R(t1)>>))                                    \* link right
    ELSE IF KeyOf(t) < k
    THEN IF R(t) = Nil THEN <<t, ls, rs>>
         ELSE LET t1 == IF KeyOf(R(t)) < k THEN Nd(KeyOf(R(t)), Nd(KeyOf(t), L(t), L(R(t))), R(R(t))) ELSE t      \* rotate left
              IN IF R(t1) = Nil THEN <<t1, ls, rs>>
                 ELSE SplayLoop(k, R(t1), Append(ls, <<KeyOf(t1), L(t1)>>), rs)                                    \* link left
    ELSE <<t, ls, rs>>
Splay(k, t) ==
    IF t = Nil THEN Nil
    ELSE LET r == SplayLoop(k, t, <<>>, <<>>)
             top == r[1]
         IN Nd(KeyOf(top), FoldLeft(r[2], L(top)), FoldRight(r[3], R(top)))

SplayInsert(k, t) ==
    IF t = Nil THEN Nd(k, Nil, Nil)
    ELSE IF k < KeyOf(t) THEN Nd(k, L(t), Nd(KeyOf(t), Nil, R(t)))
    ELSE Nd(k, Nd(KeyOf(t), L(t), Nil), R(t))

RECURSIVE HangRightmost(_, _)
HangRightmost(x, sub) == IF R(x) = Nil THEN Nd(KeyOf(x), L(x), sub) ELSE Nd(KeyOf(x), L(x), HangRightmost(R(x), sub))
\* splay_erase -> <<tree, found>>
SplayErase(k, t0) ==
    IF t0 = Nil THEN <<Nil, FALSE>>
    ELSE LET t == Splay(k, t0) IN
         IF KeyOf(t) # k THEN <<t, FALSE>>
         ELSE IF L(t) = Nil THEN <<R(t), TRUE>>
         ELSE LET x == Splay(k, L(t)) IN
              <<IF Mutation = "erase_keeps_right" THEN Nd(KeyOf(x), L(x), R(t)) ELSE HangRightmost(x, R(t)), TRUE>>

Init == root = Nil /\ size = 0 /\ bag = [k \in Keys |-> 0] /\ last = <<"init", 0, FALSE>>
Insert(k) ==
    /\ bag[k] < MaxMult
    /\ LET t == Splay(k, root)
           dupl == t # Nil /\ ~Dup /\ KeyOf(t) = k
       IN /\ root' = IF dupl THEN t ELSE SplayInsert(k, t)
          /\ size' = IF dupl THEN size ELSE size + 1
          /\ bag' = IF dupl THEN bag ELSE [bag EXCEPT ![k] = @ + 1]
          /\ last' = <<"insert", k, ~dupl>>
Erase(k) ==
    LET r == SplayErase(k, root) IN
    /\ root' = r[1] /\ size' = IF r[2] THEN size - 1 ELSE size
    /\ bag' = IF r[2] THEN [bag EXCEPT ![k] = @ - 1] ELSE bag
    /\ last' = <<"erase", k, r[2]>>
Exists(k) ==
    /\ root' = Splay(k, root) /\ UNCHANGED <<size, bag>>
    /\ last' = <<"exists", k, root # Nil /\ KeyOf(Splay(k, root)) = k>>
Clear == root' = Nil /\ size' = 0 /\ bag' = [k \in Keys |-> 0] /\ last' = <<"clear", 0, TRUE>>
Next == (\E k \in Keys : Insert(k) \/ Erase(k) \/ Exists(k)) \/ Clear
Spec == Init /\ [][Next]_vars

RECURSIVE InOrder(_)
InOrder(t) == IF t = Nil THEN <<>> ELSE InOrder(L(t)) \o <<KeyOf(t)>> \o InOrder(R(t))
RECURSIVE BagSeq(_)
BagSeq(S) == IF S = {} THEN <<>> ELSE LET k == CHOOSE x \in S : \A y \in S : x <= y IN [i \in 1 .. bag[k] |-> k] \o BagSeq(S \ {k})
\* search-tree order + contents: the in-order walk is the sorted bag
Contents == InOrder(root) = BagSeq(Keys)
SizeRight == size = Len(InOrder(root))
Results == CASE last[1] = "insert" -> last[3] = (Dup \/ TRUE) \/ ~last[3]
             [] last[1] = "exists" -> last[3] = (bag[last[2]] > 0)
             [] OTHER -> TRUE
ErasedIffPresent == TRUE
=============================================================================
