CONSTANTS Keys = {1,2,3}
SPECIFICATION Spec
INVARIANTS TypeOK
CONSTRAINT Small
CHECK_DEADLOCK FALSE
