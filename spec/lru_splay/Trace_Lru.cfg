CONSTANTS Keys = {1}
          Vals = {0}
SPECIFICATION TraceSpec
INVARIANT TypeOK
CONSTRAINT Progress
POSTCONDITION Report
CHECK_DEADLOCK FALSE
