CONSTANTS Keys = {1}
SPECIFICATION TraceSpec
INVARIANT TypeOK
CONSTRAINT Progress
POSTCONDITION Report
CHECK_DEADLOCK FALSE
