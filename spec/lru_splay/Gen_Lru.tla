------------------------------- MODULE Gen_Lru -------------------------------
\* transition generator for LruA (see ringbuffer/Gen_Ring.tla for the idiom)
EXTENDS LruA, TLC, Json
VARIABLE op
gvars == <<vars, op>>
Op(o, k, v) == [o |-> o, k |-> k, v |-> v]
GInit == Init /\ op = Op("init", 0, 0)
GNext ==
    \/ \E k \in Keys, v \in Vals : (Put(k, v) /\ op' = Op("put", k, v))
    \/ \E k \in Keys, r \in {"ok", "range_error"} : (Touch(k, r) /\ op' = Op("touch", k, 0))
    \/ \E k \in Keys, r \in {"ok", "range_error"} : (Erase(k, r) /\ op' = Op("erase", k, 0))
    \/ \E k \in Keys, r \in BOOLEAN : (TouchIfExists(k, r) /\ op' = Op("touch_if_exists", k, 0))
    \/ \E k \in Keys, r \in BOOLEAN : (EraseIfExists(k, r) /\ op' = Op("erase_if_exists", k, 0))
    \/ \E k \in Keys, r \in {"ok", "range_error"}, v \in Vals : (Get(k, r, v) /\ op' = Op("get", k, 0))
    \/ \E k \in Keys, r \in {"ok", "range_error"}, v \in Vals : (GetTouch(k, r, v) /\ op' = Op("get_touch", k, 0))
    \/ \E k \in Keys, v \in Vals : (Pop(k, v) /\ op' = Op("pop", 0, 0))
    \/ (Clear /\ op' = Op("clear", 0, 0))
GenSpec == GInit /\ [][GNext]_gvars
View == vars
Edge == PrintT(<<"@@GEN@@", ToJson([f |-> ToString(vars), o |-> op', t |-> ToString(vars')])>>)
=============================================================================
