------------------------------- MODULE SplayA -------------------------------
(***************************************************************************)
(* C17 -- property-level specification of tlx::SplayTree as an ordered set  *)
(* or multiset of keys.  State: the sorted sequence of stored keys (what    *)
(* std::set / std::multiset iteration would yield) and the flavour.         *)
(* find(k) on an absent key is only required to return *some* stored key    *)
(* (the splay leaves a neighbour of k at the root) and null on an empty     *)
(* tree; every other answer is determined.                                  *)
(***************************************************************************)
EXTENDS Integers, Sequences, FiniteSets

CONSTANTS Keys
VARIABLES keys,     \* non-decreasing sequence of stored keys
          dup       \* TRUE: multiset flavour

vars == <<keys, dup>>

Null == -1000
Has(k) == \E i \in DOMAIN keys : keys[i] = k
Count(k) == Cardinality({i \in DOMAIN keys : keys[i] = k})

\* insert k behind the last key <= k
InsertSorted(s, k) ==
    LET n == Cardinality({i \in DOMAIN s : s[i] <= k})
    IN SubSeq(s, 1, n) \o <<k>> \o SubSeq(s, n + 1, Len(s))
\* remove one occurrence of k
RemoveOne(s, k) ==
    LET i == CHOOSE j \in DOMAIN s : s[j] = k
    IN SubSeq(s, 1, i - 1) \o SubSeq(s, i + 1, Len(s))

Sorted == \A i \in 1 .. (Len(keys) - 1) : keys[i] <= keys[i + 1]
TypeOK == Sorted /\ (~dup => \A i \in 1 .. (Len(keys) - 1) : keys[i] < keys[i + 1])

Init == keys = <<>> /\ dup = FALSE

New(d) == keys' = <<>> /\ dup' = d       \* destroy the tree, construct an empty one

Insert(k, ret) ==
    /\ IF Has(k) /\ ~dup THEN ret = FALSE /\ UNCHANGED keys
       ELSE ret = TRUE /\ keys' = InsertSorted(keys, k)
    /\ UNCHANGED dup
Erase(k, ret) ==
    /\ IF Has(k) THEN ret = TRUE /\ keys' = RemoveOne(keys, k)
       ELSE ret = FALSE /\ UNCHANGED keys
    /\ UNCHANGED dup
Exists(k, ret) == ret = Has(k) /\ UNCHANGED vars
Find(k, ret) ==
    /\ IF keys = <<>> THEN ret = Null
       ELSE IF Has(k) THEN ret = k
       ELSE \E i \in DOMAIN keys : ret = keys[i]
    /\ UNCHANGED vars
Clear == keys' = <<>> /\ UNCHANGED dup

Next ==
    \/ \E d \in BOOLEAN : New(d)
    \/ \E k \in Keys, r \in BOOLEAN : Insert(k, r) \/ Erase(k, r) \/ Exists(k, r)
    \/ \E k \in Keys, r \in Keys \cup {Null} : Find(k, r)
    \/ Clear
Spec == Init /\ [][Next]_vars

\* state constraint for model checking the multiset flavour
Small == Len(keys) <= 4
=============================================================================
