CONSTANTS Keys = {1,2,3}
          Vals = {1,2}
SPECIFICATION Spec
INVARIANTS TypeOK LruOrderIsPermutation
CHECK_DEADLOCK FALSE
