-------------------------------- MODULE LruA --------------------------------
(***************************************************************************)
(* C17 -- property-level specification of tlx::LruCacheSet / LruCacheMap:   *)
(* a recency list (front = most recently put or touched) with the latest    *)
(* value per key.  Exceptions are results: "range_error" exactly for absent *)
(* keys.  For the Set flavour every value is 0.                             *)
(***************************************************************************)
EXTENDS Integers, Sequences, FiniteSets

CONSTANTS Keys, Vals
VARIABLES order,    \* sequence of distinct keys, most recent first
          val       \* val[k] for k in the cache

vars == <<order, val>>

Present == {order[i] : i \in DOMAIN order}
Remove(s, k) == SelectSeq(s, LAMBDA x : x # k)
ToFront(s, k) == <<k>> \o Remove(s, k)
Drop(f, k) == [x \in DOMAIN f \ {k} |-> f[x]]

Init == order = <<>> /\ val = <<>>

TypeOK ==
    /\ \A i, j \in DOMAIN order : i # j => order[i] # order[j]
    /\ DOMAIN val = Present

Put(k, v) ==
    /\ order' = ToFront(order, k)
    /\ val' = [x \in Present \cup {k} |-> IF x = k THEN v ELSE val[x]]

\* ret = "ok" | "range_error"
Touch(k, ret) ==
    IF k \in Present THEN ret = "ok" /\ order' = ToFront(order, k) /\ UNCHANGED val
    ELSE ret = "range_error" /\ UNCHANGED vars
TouchIfExists(k, ret) ==
    IF k \in Present THEN ret = TRUE /\ order' = ToFront(order, k) /\ UNCHANGED val
    ELSE ret = FALSE /\ UNCHANGED vars
Erase(k, ret) ==
    IF k \in Present THEN ret = "ok" /\ order' = Remove(order, k) /\ val' = Drop(val, k)
    ELSE ret = "range_error" /\ UNCHANGED vars
EraseIfExists(k, ret) ==
    IF k \in Present THEN ret = TRUE /\ order' = Remove(order, k) /\ val' = Drop(val, k)
    ELSE ret = FALSE /\ UNCHANGED vars
\* get: value or exception, no reordering; get_touch: same and moves k to the front
Get(k, ret, v) ==
    /\ IF k \in Present THEN ret = "ok" /\ v = val[k] ELSE ret = "range_error"
    /\ UNCHANGED vars
GetTouch(k, ret, v) ==
    IF k \in Present THEN ret = "ok" /\ v = val[k] /\ order' = ToFront(order, k) /\ UNCHANGED val
    ELSE ret = "range_error" /\ UNCHANGED vars
\* pop: documented precondition non-empty; removes and returns the least recently used key
Pop(k, v) ==
    /\ order # <<>>
    /\ k = order[Len(order)] /\ v = val[k]
    /\ order' = SubSeq(order, 1, Len(order) - 1) /\ val' = Drop(val, k)
Clear == order' = <<>> /\ val' = <<>>

Exists(k) == k \in Present
Size == Len(order)

Next ==
    \/ \E k \in Keys, v \in Vals : Put(k, v)
    \/ \E k \in Keys : \/ \E r \in {"ok", "range_error"} : Touch(k, r) \/ Erase(k, r)
                       \/ \E r \in BOOLEAN : TouchIfExists(k, r) \/ EraseIfExists(k, r)
                       \/ \E r \in {"ok", "range_error"}, v \in Vals : Get(k, r, v) \/ GetTouch(k, r, v)
    \/ \E k \in Keys, v \in Vals : Pop(k, v)
    \/ Clear

Spec == Init /\ [][Next]_vars

\* pop always removes the key that was put or touched longest ago: the order is
\* exactly "time of last put/touch", which the history variable-free form below states
LruOrderIsPermutation == Cardinality(Present) = Len(order)
=============================================================================
