----------------------------- MODULE Trace_Splay -----------------------------
(***************************************************************************)
(* C17 -- trace specification for SplayTree executions (drv_splay.cpp).     *)
(* obs: size(), empty(), the in-order key list from traverse, check() (set  *)
(* flavour), "blocks" = nodes obtained from the allocator and not returned, *)
(* "lerr" = ledger errors (double free, use of a freed key, leak at reset). *)
(***************************************************************************)
EXTENDS SplayA, TraceIO
VARIABLE l
tvars == <<vars, l>>
Ev == TraceLog[l]

ObsOK(e) ==
    /\ e.obs.size = Len(keys')
    /\ e.obs.empty = (keys' = <<>>)
    /\ e.obs.keys = keys'
    /\ e.obs.check = TRUE
    /\ e.blocks = Len(keys')          \* one node per stored key, none leaked, none freed twice
    /\ e.lerr = 0

Step(e) ==
    CASE e.e = "reset"  -> New(e.dup)
      [] e.e = "insert" -> Insert(e.k, e.ret)
      [] e.e = "erase"  -> Erase(e.k, e.ret)
      [] e.e = "exists" -> Exists(e.k, e.ret)
      [] e.e = "find"   -> Find(e.k, e.ret)
      [] e.e = "clear"  -> Clear
      [] OTHER          -> FALSE

TInit == Init /\ l = 1
TNext == l <= TraceLen /\ Step(Ev) /\ ObsOK(Ev) /\ l' = l + 1
TraceSpec == TInit /\ [][TNext]_tvars
Progress == TrackProgress(l)
Report == ReportResult
=============================================================================
