------------------------------- MODULE Gen_TP -------------------------------
\* C10 -- emits complete behaviours of ThreadPoolI: thread per counted operation, notify_one choices
EXTENDS ThreadPoolI, TLC, Json
VARIABLE h
gvars == <<vars, h>>
GInit == Init /\ h = [order |-> <<>>, waiters |-> <<>>]
Plain(t) == \/ WLock0(t) \/ WTop(t) \/ WIdleInc(t) \/ WRelockJobs(t) \/ WBusyInc(t)
            \/ CLock(t) \/ CUnlock(t) \/ CSetTerm(t) \/ CNotifyAllJobs(t) \/ CNotifyFinAll(t)
            \/ CIncDone(t) \/ CDecBusy(t) \/ CLoadBusy(t) \/ CWaitFin(t) \/ CRelockFin(t)
Rec(t, i) == h' = [order |-> Append(h.order, t), waiters |-> IF i = 0 THEN h.waiters ELSE Append(h.waiters, i - 1)]
GNext ==
    \/ \E t \in Threads : (Plain(t) /\ Rec(t, 0))
    \/ \E t \in Threads, i \in 0 .. (P + C) : ((CPushNotify(t, i) \/ CNotifyFinOne(t, i)) /\ Rec(t, i))
    \/ ((MainStartDestroy \/ MainJoined) /\ UNCHANGED h)
GenSpec == GInit /\ [][GNext]_gvars
Emit == AllDone => PrintT(<<"@@GEN@@", ToJson(h)>>)
=============================================================================
