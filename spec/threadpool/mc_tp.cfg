CONSTANTS P = 2
          ClientProgs <- TwoWaiters
          Jobs <- J3
          Children <- Chain
          Terminators = {}
          FinNotifyAll = FALSE
SPECIFICATION Spec
INVARIANTS NoJobTwice PropertyChecks CountersOK MutexOK
PROPERTY Terminates
