------------------------------ MODULE Trace_TPA ------------------------------
(***************************************************************************)
(* C10 -- property-level trace specification (verdict).  Only what a user   *)
(* of the pool can see is judged: enqueue calls and returns, job starts and *)
(* finishes, the return of loop_until_empty / loop_until_terminate /        *)
(* terminate, the value of done() read after loop_until_empty, and whether  *)
(* the execution came to an end.                                            *)
(*   - a job starts only after its enqueue was called, and at most once;    *)
(*   - loop_until_empty returns only when nothing is queued or running;     *)
(*     if the pool is not terminated, every job whose enqueue() had         *)
(*     returned has then been executed exactly once;                        *)
(*   - done(), read after that return, counts at least the jobs finished    *)
(*     at the return and at most the jobs finished when it was read;        *)
(*   - every call returns: no deadlock, no lost wake-up.                    *)
(***************************************************************************)
EXTENDS Integers, Sequences, FiniteSets, TraceIO
VARIABLES called, enqueued, started, finishedJ, terminated, atRet, l
vars == <<called, enqueued, started, finishedJ, terminated, atRet>>
Ev == TraceLog[l]
Ignored == {"lock", "unlock", "cvwait", "rmw", "load", "notify_one", "notify_all", "destroy", "lue_call", "lut_call", "lut_ret", "term_ret"}
Count(S) == Cardinality(S)
Step ==
    CASE Ev.e = "reset" -> called' = {} /\ enqueued' = {} /\ started' = {} /\ finishedJ' = {} /\ terminated' = FALSE /\ atRet' = <<>>
      [] Ev.e = "enq_call" -> called' = called \cup {Ev.j} /\ UNCHANGED <<enqueued, started, finishedJ, terminated, atRet>>
      [] Ev.e = "enq_done" -> enqueued' = enqueued \cup {Ev.j} /\ UNCHANGED <<called, started, finishedJ, terminated, atRet>>
      [] Ev.e = "start" -> Ev.j \in called /\ Ev.j \notin started /\ started' = started \cup {Ev.j} /\ UNCHANGED <<called, enqueued, finishedJ, terminated, atRet>>
      [] Ev.e = "finish" -> Ev.j \in started /\ Ev.j \notin finishedJ /\ finishedJ' = finishedJ \cup {Ev.j} /\ UNCHANGED <<called, enqueued, started, terminated, atRet>>
      [] Ev.e = "term_call" -> terminated' = TRUE /\ UNCHANGED <<called, enqueued, started, finishedJ, atRet>>
      [] Ev.e = "lue_ret" -> /\ started = finishedJ                          \* nothing running
                             /\ (~terminated => enqueued \subseteq finishedJ)   \* nothing queued, everything executed
                             /\ atRet' = [t \in DOMAIN atRet \cup {Ev.t} |-> IF t = Ev.t THEN Count(finishedJ) ELSE atRet[t]]
                             /\ UNCHANGED <<called, enqueued, started, finishedJ, terminated>>
      [] Ev.e = "done_read" -> Ev.t \in DOMAIN atRet /\ atRet[Ev.t] <= Ev.val /\ Ev.val <= Count(finishedJ) /\ UNCHANGED vars
      [] Ev.e = "end" -> Ev.deadlock = FALSE /\ Ev.problems = 0 /\ started = finishedJ /\ UNCHANGED vars
      [] Ev.e \in Ignored -> UNCHANGED vars
      [] OTHER -> FALSE
TInit == called = {} /\ enqueued = {} /\ started = {} /\ finishedJ = {} /\ terminated = FALSE /\ atRet = <<>> /\ l = 1
TNext == l <= TraceLen /\ Step /\ l' = l + 1
TraceSpec == TInit /\ [][TNext]_<<vars, l>>
Progress == TrackProgress(l)
Report == ReportResult
=============================================================================
