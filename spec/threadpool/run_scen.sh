#!/bin/sh
# usage: run_scen.sh P progs children terminators finAll
cat > c.cfg <<EOT
CONSTANTS P = $1
          ClientProgs <- $2
          Jobs <- J3
          Children <- $3
          Terminators = $4
          FinNotifyAll = $5
SPECIFICATION Spec
INVARIANTS NoJobTwice PropertyChecks CountersOK MutexOK
PROPERTY Terminates
EOT
timeout 1800 tlc -workers 8 -config c.cfg MC_TP.tla 2>&1 | grep -E "distinct states found|Error:|No error" | tr '\n' ' ' | cut -c1-220
echo
