------------------------------- MODULE MC_TP -------------------------------
(***************************************************************************)
(* Model-checking scenarios for ThreadPoolI.  A scenario = job graph +      *)
(* client programs.  Root jobs (enqueued by clients) and child jobs         *)
(* (enqueued by jobs) are disjoint, so every job is enqueued exactly once.  *)
(* loop_until_terminate is only used where somebody terminates the pool,    *)
(* and loop_until_empty is not combined with terminate(): a pool terminated *)
(* with jobs still queued never becomes empty (documented behaviour of the  *)
(* predicate; see DESIGN.md, C10).                                          *)
(***************************************************************************)
EXTENDS ThreadPoolI
J3 == {1, 2, 3}
NoKids == [j \in J3 |-> <<>>]
Chain  == [j \in J3 |-> IF j = 1 THEN <<2>> ELSE <<>>]          \* 1 enqueues 2; 3 is a root
Fanout == [j \in J3 |-> IF j = 1 THEN <<2, 3>> ELSE <<>>]       \* 1 enqueues 2 and 3
Deep   == [j \in J3 |-> IF j = 1 THEN <<2>> ELSE IF j = 2 THEN <<3>> ELSE <<>>]
\* client programs
S_Single      == << <<<<"enq", 1>>, <<"enq", 2>>, <<"lue">>, <<"enq", 3>>, <<"lue">>>> >>      \* with NoKids
S_TwoWaiters  == << <<<<"enq", 1>>, <<"lue">>>>, <<<<"enq", 3>>, <<"lue">>>> >>                 \* with Chain
S_PureWaiters == << <<<<"enq", 1>>>>, <<<<"lue">>>>, <<<<"lue">>>> >>                           \* with Fanout / Deep
S_OneClient   == << <<<<"enq", 1>>, <<"lue">>>> >>                                              \* with Fanout / Deep
S_JobTerm     == << <<<<"enq", 1>>, <<"lut">>>>, <<<<"lut">>>> >>                               \* with Chain, Terminators {2}
S_ClientTerm  == << <<<<"enq", 1>>, <<"lut">>>>, <<<<"term">>>> >>                              \* with Chain
S_TermOnly    == << <<<<"lut">>>>, <<<<"lut">>>>, <<<<"term">>>> >>                             \* with NoKids
=============================================================================
