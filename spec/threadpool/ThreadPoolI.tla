----------------------------- MODULE ThreadPoolI -----------------------------
(***************************************************************************)
(* C10 -- tlx::ThreadPool (thread_pool.cpp), one action per visible         *)
(* synchronisation operation that the scheduler shim counts: mutex lock /   *)
(* unlock, condition wait, notify_one / notify_all, atomic read-modify-     *)
(* write (++idle_, --idle_, ++busy_, ++done_, --busy_, terminate_ = true)   *)
(* and the waiters' load of busy_ (the only access that races).             *)
(* Atomic loads and plain accesses (jobs_) are merged into the next counted *)
(* operation of the same thread, which is exactly how a GUIDED replay       *)
(* executes them.                                                           *)
(*                                                                          *)
(* Threads: 0 = main (constructs the pool, later destroys it), workers      *)
(* 1 .. P, clients P+1 .. P+C.  Each client runs a program of calls         *)
(*   <<"enq", j>>  <<"lue">> (loop_until_empty)  <<"lut">> (loop_until_     *)
(*   terminate)  <<"term">> (terminate()).                                  *)
(* A job j, when run, enqueues its Children[j] and calls terminate() if     *)
(* j \in Terminators.                                                       *)
(*                                                                          *)
(* FinNotifyAll = TRUE is the repaired code (cv_finished_.notify_all());    *)
(* FALSE is the original notify_one, for which TLC finds a lost wake-up as  *)
(* soon as two threads wait for emptiness / termination at the same time.   *)
(***************************************************************************)
EXTENDS Integers, Sequences, FiniteSets

CONSTANTS P,             \* number of workers
          ClientProgs,   \* sequence of client programs
          Jobs, Children, Terminators,
          FinNotifyAll

C == Len(ClientProgs)
Workers == 1 .. P
Clients == (P + 1) .. (P + C)
Threads == 0 .. (P + C)

VARIABLES jobsQ, busy, idle, done, terminate, owner,
          wJobs, wFin,        \* wait queues of cv_jobs_ / cv_finished_ (arrival order)
          pc, todo, cur,
          predv,              \* predv[t]: what the waiter's load of busy_ saw (busy_ == 0)
          ran, finished, enqd, \* ghost: job started / finished / its enqueue() returned
          bad                  \* ghost: a property-level check failed in some step (text)

vars == <<jobsQ, busy, idle, done, terminate, owner, wJobs, wFin, pc, todo, cur, predv, ran, finished, enqd, bad>>

I(k, a) == [k |-> k, a |-> a]
\* expansion of calls into counted operations
EnqueueOps(j) == <<I("lock", 0), I("push_notify", j), I("unlock_enq", j)>>
TerminateOps  == <<I("lock", 0), I("set_term", 0), I("notify_all_jobs", 0), I("notify_fin", 0), I("unlock", 0)>>
LueOps        == <<I("lock", 0), I("wait_empty", 0)>>
LutOps        == <<I("lock", 0), I("wait_term", 0)>>
RECURSIVE Flat(_)
Flat(ss) == IF ss = <<>> THEN <<>> ELSE Head(ss) \o Flat(Tail(ss))
CallOps(c) == CASE c[1] = "enq" -> EnqueueOps(c[2])
                [] c[1] = "lue" -> LueOps
                [] c[1] = "lut" -> LutOps
                [] c[1] = "term" -> TerminateOps
ClientTodo(i) == Flat([n \in 1 .. Len(ClientProgs[i]) |-> CallOps(ClientProgs[i][n])])
JobBody(j) == Flat([n \in 1 .. Len(Children[j]) |-> EnqueueOps(Children[j][n])]) \o (IF j \in Terminators THEN TerminateOps ELSE <<>>)
               \o <<I("finish", j), I("inc_done", 0), I("dec_busy", 0), I("lock", 0), I("notify_fin", 0)>>
DestroyOps == <<I("lock", 0), I("set_term", 0), I("notify_all_jobs", 0), I("unlock", 0)>>

Init ==
    /\ jobsQ = <<>> /\ busy = 0 /\ idle = 0 /\ done = 0 /\ terminate = FALSE /\ owner = -1
    /\ wJobs = <<>> /\ wFin = <<>>
    /\ pc = [t \in Threads |-> IF t = 0 THEN "main_wait" ELSE IF t \in Workers THEN "w_lock0" ELSE "call"]
    /\ todo = [t \in Threads |-> IF t \in Clients THEN ClientTodo(t - P) ELSE <<>>]
    /\ cur = [t \in Threads |-> 0] /\ predv = [t \in Threads |-> FALSE]
    /\ ran = [j \in Jobs |-> 0] /\ finished = [j \in Jobs |-> FALSE] /\ enqd = [j \in Jobs |-> FALSE]
    /\ bad = ""

RemoveAt(q, i) == SubSeq(q, 1, i - 1) \o SubSeq(q, i + 1, Len(q))
InSeq(q, x) == \E i \in 1 .. Len(q) : q[i] = x
Set(f, t, v) == [f EXCEPT ![t] = v]

\* quiescence as the property states it: nothing queued, nothing running
Quiescent == jobsQ = <<>> /\ \A j \in Jobs : ran[j] > 0 => finished[j]
AllEnqueuedDone == \A j \in Jobs : enqd[j] => (ran[j] = 1 /\ finished[j])

(***************************************************************************)
(* Worker loop                                                              *)
(***************************************************************************)
WLock0(w) ==
    /\ pc[w] = "w_lock0" /\ owner = -1
    /\ owner' = w /\ pc' = Set(pc, w, "top")
    /\ UNCHANGED <<jobsQ, busy, idle, done, terminate, wJobs, wFin, todo, cur, predv, ran, finished, enqd, bad>>

\* loop head, holding the mutex
WTop(w) ==
    /\ pc[w] = "top" /\ owner = w
    /\ IF ~terminate /\ jobsQ = <<>>
       THEN idle' = idle + 1 /\ pc' = Set(pc, w, "idle_inc") /\ UNCHANGED <<busy, owner>>      \* ++idle_
       ELSE IF terminate
       THEN owner' = -1 /\ pc' = Set(pc, w, "w_done") /\ UNCHANGED <<busy, idle>>              \* break; unlock
       ELSE busy' = busy + 1 /\ pc' = Set(pc, w, "busy_inc") /\ UNCHANGED <<idle, owner>>      \* ++busy_
    /\ UNCHANGED <<jobsQ, done, terminate, wJobs, wFin, todo, cur, predv, ran, finished, enqd, bad>>

\* cv_jobs_.wait(lock, pred) after ++idle_
WIdleInc(w) ==
    /\ pc[w] = "idle_inc" /\ owner = w
    /\ IF terminate \/ jobsQ # <<>>
       THEN idle' = idle - 1 /\ pc' = Set(pc, w, "top") /\ UNCHANGED <<owner, wJobs>>          \* --idle_
       ELSE owner' = -1 /\ wJobs' = Append(wJobs, w) /\ pc' = Set(pc, w, "wait_jobs") /\ UNCHANGED idle   \* condition wait
    /\ UNCHANGED <<jobsQ, busy, done, terminate, wFin, todo, cur, predv, ran, finished, enqd, bad>>

WRelockJobs(w) ==
    /\ pc[w] = "relock_jobs" /\ owner = -1
    /\ owner' = w /\ pc' = Set(pc, w, "idle_inc")
    /\ UNCHANGED <<jobsQ, busy, idle, done, terminate, wJobs, wFin, todo, cur, predv, ran, finished, enqd, bad>>

\* pull the front job, release the mutex, start running it
WBusyInc(w) ==
    /\ pc[w] = "busy_inc" /\ owner = w
    /\ LET j == Head(jobsQ) IN
         /\ jobsQ' = Tail(jobsQ) /\ owner' = -1
         /\ cur' = Set(cur, w, j) /\ todo' = Set(todo, w, JobBody(j))
         /\ ran' = [ran EXCEPT ![j] = @ + 1]
         /\ bad' = IF ran[j] > 0 THEN "job executed twice" ELSE bad
    /\ pc' = Set(pc, w, "call")
    /\ UNCHANGED <<busy, idle, done, terminate, wJobs, wFin, finished, enqd, predv>>

(***************************************************************************)
(* Call sequences (client programs, job bodies, the destructor)             *)
(***************************************************************************)
Head1(t) == Head(todo[t])
Pop(t) == Set(todo, t, Tail(todo[t]))
\* what a thread does when its call sequence is exhausted
AfterCalls(t) == IF t \in Workers THEN "top" ELSE IF t = 0 THEN "main_join" ELSE "c_done"
NextPc(t) == IF Len(todo[t]) = 1 THEN AfterCalls(t) ELSE "call"

CLock(t) ==
    /\ pc[t] = "call" /\ todo[t] # <<>> /\ Head1(t).k = "lock" /\ owner = -1
    /\ owner' = t /\ todo' = Pop(t) /\ pc' = Set(pc, t, NextPc(t))
    /\ UNCHANGED <<jobsQ, busy, idle, done, terminate, wJobs, wFin, cur, predv, ran, finished, enqd, bad>>

CUnlock(t) ==
    /\ pc[t] = "call" /\ todo[t] # <<>> /\ Head1(t).k \in {"unlock", "unlock_enq"} /\ owner = t
    /\ owner' = -1 /\ todo' = Pop(t) /\ pc' = Set(pc, t, NextPc(t))
    /\ enqd' = IF Head1(t).k = "unlock_enq" THEN [enqd EXCEPT ![Head1(t).a] = TRUE] ELSE enqd
    /\ UNCHANGED <<jobsQ, busy, idle, done, terminate, wJobs, wFin, cur, predv, ran, finished, bad>>

\* jobs_.emplace_back(job); cv_jobs_.notify_one()  -- i = index of the woken waiter, 0 if nobody waits
CPushNotify(t, i) ==
    /\ pc[t] = "call" /\ todo[t] # <<>> /\ Head1(t).k = "push_notify" /\ owner = t
    /\ jobsQ' = Append(jobsQ, Head1(t).a)
    /\ IF wJobs = <<>> THEN i = 0 /\ UNCHANGED wJobs /\ pc' = Set(pc, t, NextPc(t))
       ELSE /\ i \in 1 .. Len(wJobs) /\ wJobs' = RemoveAt(wJobs, i)
            /\ pc' = [pc EXCEPT ![t] = NextPc(t), ![wJobs[i]] = "relock_jobs"]
    /\ todo' = Pop(t)
    /\ UNCHANGED <<busy, idle, done, terminate, owner, wFin, cur, predv, ran, finished, enqd, bad>>

CSetTerm(t) ==
    /\ pc[t] = "call" /\ todo[t] # <<>> /\ Head1(t).k = "set_term" /\ owner = t
    /\ terminate' = TRUE /\ todo' = Pop(t) /\ pc' = Set(pc, t, NextPc(t))
    /\ UNCHANGED <<jobsQ, busy, idle, done, owner, wJobs, wFin, cur, predv, ran, finished, enqd, bad>>

CNotifyAllJobs(t) ==
    /\ pc[t] = "call" /\ todo[t] # <<>> /\ Head1(t).k = "notify_all_jobs" /\ owner = t
    /\ wJobs' = <<>>
    /\ pc' = [x \in Threads |-> IF x = t THEN NextPc(t) ELSE IF InSeq(wJobs, x) THEN "relock_jobs" ELSE pc[x]]
    /\ todo' = Pop(t)
    /\ UNCHANGED <<jobsQ, busy, idle, done, terminate, owner, wFin, cur, predv, ran, finished, enqd, bad>>

\* cv_finished_.notify_one() (original) / notify_all() (repaired)
CNotifyFinOne(t, i) ==
    /\ ~FinNotifyAll
    /\ pc[t] = "call" /\ todo[t] # <<>> /\ Head1(t).k = "notify_fin" /\ owner = t
    /\ IF wFin = <<>> THEN i = 0 /\ UNCHANGED wFin /\ pc' = Set(pc, t, NextPc(t))
       ELSE /\ i \in 1 .. Len(wFin) /\ wFin' = RemoveAt(wFin, i)
            /\ pc' = [pc EXCEPT ![t] = NextPc(t), ![wFin[i]] = "relock_fin"]
    /\ todo' = Pop(t)
    /\ UNCHANGED <<jobsQ, busy, idle, done, terminate, owner, wJobs, cur, predv, ran, finished, enqd, bad>>
CNotifyFinAll(t) ==
    /\ FinNotifyAll
    /\ pc[t] = "call" /\ todo[t] # <<>> /\ Head1(t).k = "notify_fin" /\ owner = t
    /\ wFin' = <<>>
    /\ pc' = [x \in Threads |-> IF x = t THEN NextPc(t) ELSE IF InSeq(wFin, x) THEN "relock_fin" ELSE pc[x]]
    /\ todo' = Pop(t)
    /\ UNCHANGED <<jobsQ, busy, idle, done, terminate, owner, wJobs, cur, predv, ran, finished, enqd, bad>>

\* the job's own code is over ("finish" is the driver's event, not an operation): ++done_
CIncDone(t) ==
    /\ pc[t] = "call" /\ Len(todo[t]) >= 2 /\ Head1(t).k = "finish" /\ todo[t][2].k = "inc_done"
    /\ finished' = [finished EXCEPT ![Head1(t).a] = TRUE]
    /\ done' = done + 1
    /\ todo' = Set(todo, t, Tail(Tail(todo[t]))) /\ pc' = Set(pc, t, "call")
    /\ UNCHANGED <<jobsQ, busy, idle, terminate, owner, wJobs, wFin, cur, predv, ran, enqd, bad>>
CDecBusy(t) ==
    /\ pc[t] = "call" /\ todo[t] # <<>> /\ Head1(t).k = "dec_busy"
    /\ busy' = busy - 1 /\ todo' = Pop(t) /\ pc' = Set(pc, t, NextPc(t))
    /\ UNCHANGED <<jobsQ, idle, done, terminate, owner, wJobs, wFin, cur, predv, ran, finished, enqd, bad>>

\* cv_finished_.wait(lock, pred).  The predicates are  jobs_.empty() && busy_ == 0  and  terminate_ && busy_ == 0 :
\* jobs_ and terminate_ only change under the mutex, busy_ is decremented outside it, so its load is an operation of its own.
NeedLoad(k) == IF k = "wait_empty" THEN jobsQ = <<>> ELSE terminate
CLoadBusy(t) ==
    /\ pc[t] = "call" /\ todo[t] # <<>> /\ Head1(t).k \in {"wait_empty", "wait_term"} /\ owner = t
    /\ NeedLoad(Head1(t).k)
    /\ predv' = Set(predv, t, busy = 0) /\ pc' = Set(pc, t, "pred")
    /\ UNCHANGED <<jobsQ, busy, idle, done, terminate, owner, wJobs, wFin, todo, cur, ran, finished, enqd, bad>>
\* predicate false: wait; predicate true: the call returns (unlock)
CWaitFin(t) ==
    /\ todo[t] # <<>> /\ Head1(t).k \in {"wait_empty", "wait_term"} /\ owner = t
    /\ \/ pc[t] = "pred"
       \/ (pc[t] = "call" /\ ~NeedLoad(Head1(t).k))
    /\ IF pc[t] = "pred" /\ predv[t]
       THEN /\ owner' = -1 /\ todo' = Pop(t) /\ pc' = Set(pc, t, NextPc(t)) /\ UNCHANGED wFin
            \* the property: loop_until_empty returns only at quiescence, with every enqueued job executed exactly once
            /\ bad' = IF Head1(t).k = "wait_empty" /\ ~Quiescent THEN "loop_until_empty returned while a job is queued or running"
                      ELSE IF Head1(t).k = "wait_empty" /\ ~terminate /\ ~AllEnqueuedDone THEN "loop_until_empty returned before an enqueued job was executed"
                      ELSE IF Head1(t).k = "wait_empty" /\ done # Cardinality({j \in Jobs : finished[j]}) THEN "done() differs from the number of jobs run"
                      ELSE bad
       ELSE owner' = -1 /\ wFin' = Append(wFin, t) /\ pc' = Set(pc, t, "wait_fin") /\ UNCHANGED <<todo, bad>>
    /\ UNCHANGED <<jobsQ, busy, idle, done, terminate, wJobs, cur, predv, ran, finished, enqd>>
CRelockFin(t) ==
    /\ pc[t] = "relock_fin" /\ owner = -1
    /\ owner' = t /\ pc' = Set(pc, t, "call")
    /\ UNCHANGED <<jobsQ, busy, idle, done, terminate, wJobs, wFin, todo, cur, predv, ran, finished, enqd, bad>>

(***************************************************************************)
(* main: waits for the clients, destroys the pool, joins the workers        *)
(***************************************************************************)
MainStartDestroy ==
    /\ pc[0] = "main_wait" /\ \A c \in Clients : pc[c] = "c_done"
    /\ todo' = Set(todo, 0, DestroyOps) /\ pc' = Set(pc, 0, "call")
    /\ UNCHANGED <<jobsQ, busy, idle, done, terminate, owner, wJobs, wFin, cur, predv, ran, finished, enqd, bad>>
MainJoined ==
    /\ pc[0] = "main_join" /\ \A w \in Workers : pc[w] = "w_done"
    /\ pc' = Set(pc, 0, "m_done")
    /\ UNCHANGED <<jobsQ, busy, idle, done, terminate, owner, wJobs, wFin, todo, cur, predv, ran, finished, enqd, bad>>

AllDone == pc[0] = "m_done"
Finished == AllDone /\ UNCHANGED vars

\* one counted operation of thread t (MainStartDestroy / MainJoined are not operations)
Op(t) == \/ WLock0(t) \/ WTop(t) \/ WIdleInc(t) \/ WRelockJobs(t) \/ WBusyInc(t)
         \/ CLock(t) \/ CUnlock(t) \/ CSetTerm(t) \/ CNotifyAllJobs(t) \/ CNotifyFinAll(t)
         \/ CIncDone(t) \/ CDecBusy(t) \/ CLoadBusy(t) \/ CWaitFin(t) \/ CRelockFin(t)
         \/ \E i \in 0 .. (P + C) : CPushNotify(t, i) \/ CNotifyFinOne(t, i)
Next == (\E t \in Threads : Op(t)) \/ MainStartDestroy \/ MainJoined \/ Finished
Spec == Init /\ [][Next]_vars /\ WF_vars(Next)

(***************************************************************************)
(* Properties                                                               *)
(***************************************************************************)
NoJobTwice == \A j \in Jobs : ran[j] <= 1
PropertyChecks == bad = ""
CountersOK == busy >= 0 /\ idle >= 0 /\ busy <= P /\ idle <= P /\ done = Cardinality({j \in Jobs : finished[j]})
MutexOK == owner = -1 \/ pc[owner] \in {"top", "idle_inc", "busy_inc", "call", "pred"}
\* waiting for emptiness / termination, terminate() and destruction all return (TLC also checks deadlock freedom)
Terminates == <>AllDone
=============================================================================
