------------------------------ MODULE Trace_TP ------------------------------
(***************************************************************************)
(* C10 -- implementation-level trace specification: the visible operations  *)
(* on the pool's mutex, condition variables and atomics, in the order they  *)
(* took effect (shim observer), are matched one to one against the actions  *)
(* of ThreadPoolI; the driver's job start / finish and call / return events *)
(* are checked against the ghost state.  All executions of a trace file     *)
(* share one scenario, read from the first event.                           *)
(***************************************************************************)
EXTENDS ThreadPoolI, TraceIO

TP == TraceLog[1].p
TJobs == 1 .. TraceLog[1].nj
TChildren == [j \in TJobs |-> TraceLog[1].children[j]]
TTerminators == {TraceLog[1].terminators[i] : i \in DOMAIN TraceLog[1].terminators}
TProgs == TraceLog[1].progs

VARIABLE l
Ev == TraceLog[l]
T == Ev.t

TStart ==
    /\ Ev.e = "reset"
    /\ jobsQ' = <<>> /\ busy' = 0 /\ idle' = 0 /\ done' = 0 /\ terminate' = FALSE /\ owner' = -1
    /\ wJobs' = <<>> /\ wFin' = <<>>
    /\ pc' = [t \in Threads |-> IF t = 0 THEN "main_wait" ELSE IF t \in Workers THEN "w_lock0" ELSE "call"]
    /\ todo' = [t \in Threads |-> IF t \in Clients THEN ClientTodo(t - P) ELSE <<>>]
    /\ cur' = [t \in Threads |-> 0] /\ predv' = [t \in Threads |-> FALSE]
    /\ ran' = [j \in Jobs |-> 0] /\ finished' = [j \in Jobs |-> FALSE] /\ enqd' = [j \in Jobs |-> FALSE]
    /\ bad' = ""

\* main's pseudo steps are taken silently right before main's first destroy operation / at the end
MainReady == IF pc[0] = "main_wait" THEN MainStartDestroy ELSE FALSE

TLock   == Ev.e = "lock" /\ (WLock0(T) \/ WRelockJobs(T) \/ CLock(T) \/ CRelockFin(T))
TUnlock == Ev.e = "unlock" /\ ((WTop(T) /\ owner' = -1) \/ WBusyInc(T) \/ CUnlock(T) \/ (CWaitFin(T) /\ pc'[T] # "wait_fin"))
TCvWait == Ev.e = "cvwait" /\ ((Ev.obj = "jobs" /\ WIdleInc(T) /\ pc'[T] = "wait_jobs") \/ (Ev.obj = "fin" /\ CWaitFin(T) /\ pc'[T] = "wait_fin"))
TRmw ==
    /\ Ev.e = "rmw"
    /\ \/ (Ev.obj = "idle" /\ Ev.before = idle /\ (WTop(T) \/ WIdleInc(T)) /\ idle' = Ev.after /\ idle' # idle)
       \/ (Ev.obj = "busy" /\ Ev.before = busy /\ (WTop(T) \/ CDecBusy(T)) /\ busy' = Ev.after /\ busy' # busy)
       \/ (Ev.obj = "done" /\ Ev.before = done /\ CIncDone(T) /\ done' = Ev.after)
       \/ (Ev.obj = "terminate" /\ CSetTerm(T))
TLoad == Ev.e = "load" /\ Ev.obj = "busy" /\ Ev.val = busy /\ CLoadBusy(T)
TNotifyOne ==
    /\ Ev.e = "notify_one"
    /\ \/ (Ev.obj = "jobs" /\ \E i \in 0 .. Len(wJobs) : CPushNotify(T, i) /\ (i = 0 => Ev.woken = 0) /\ (i > 0 => wJobs[i] = Ev.woken))
       \/ (Ev.obj = "fin" /\ \E i \in 0 .. Len(wFin) : CNotifyFinOne(T, i) /\ (i = 0 => Ev.woken = 0) /\ (i > 0 => wFin[i] = Ev.woken))
TNotifyAll == Ev.e = "notify_all" /\ ((Ev.obj = "jobs" /\ CNotifyAllJobs(T)) \/ (Ev.obj = "fin" /\ CNotifyFinAll(T)))
\* main has joined all clients and starts the destructor: its first operation follows
TDestroy == Ev.e = "destroy" /\ MainStartDestroy
\* driver events: checked against the ghost state, no step of the pool
Same == UNCHANGED vars
TStartJob  == Ev.e = "start" /\ cur[T] = Ev.j /\ ran[Ev.j] = 1 /\ ~finished[Ev.j] /\ Same
TFinishJob == Ev.e = "finish" /\ cur[T] = Ev.j /\ ran[Ev.j] = 1 /\ ~finished[Ev.j] /\ Same
TOther     == Ev.e \in {"enq_call", "enq_done", "lue_call", "lue_ret", "lut_call", "lut_ret", "term_call", "term_ret", "done_read"} /\ bad = "" /\ Same
TEnd       == Ev.e = "end" /\ Ev.deadlock = FALSE /\ Ev.problems = 0 /\ bad = "" /\ (\A w \in Workers : pc[w] = "w_done") /\ (\A c \in Clients : pc[c] = "c_done") /\ Same

TInit == Init /\ l = 1
TNext == l <= TraceLen /\ (TStart \/ TLock \/ TUnlock \/ TCvWait \/ TRmw \/ TLoad \/ TNotifyOne \/ TNotifyAll \/ TDestroy \/ TStartJob \/ TFinishJob \/ TOther \/ TEnd)
         /\ l' = l + 1 /\ (NoJobTwice /\ PropertyChecks /\ CountersOK)'
TraceSpec == TInit /\ [][TNext]_<<vars, l>>
Progress == TrackProgress(l)
Report == ReportResult
=============================================================================
