CONSTANTS P <- TP
          ClientProgs <- TProgs
          Jobs <- TJobs
          Children <- TChildren
          Terminators <- TTerminators
          FinNotifyAll = TRUE
SPECIFICATION TraceSpec
CONSTRAINT Progress
POSTCONDITION Report
CHECK_DEADLOCK FALSE
