------------------------------- MODULE MCG_TP -------------------------------
\* generator instances (same scenarios as MC_TP)
EXTENDS Gen_TP
J3 == {1, 2, 3}
NoKids == [j \in J3 |-> <<>>]
Chain  == [j \in J3 |-> IF j = 1 THEN <<2>> ELSE <<>>]
Fanout == [j \in J3 |-> IF j = 1 THEN <<2, 3>> ELSE <<>>]
Deep   == [j \in J3 |-> IF j = 1 THEN <<2>> ELSE IF j = 2 THEN <<3>> ELSE <<>>]
S_Single      == << <<<<"enq", 1>>, <<"enq", 2>>, <<"lue">>, <<"enq", 3>>, <<"lue">>>> >>
S_TwoWaiters  == << <<<<"enq", 1>>, <<"lue">>>>, <<<<"enq", 3>>, <<"lue">>>> >>
S_PureWaiters == << <<<<"enq", 1>>>>, <<<<"lue">>>>, <<<<"lue">>>> >>
S_OneClient   == << <<<<"enq", 1>>, <<"lue">>>> >>
S_JobTerm     == << <<<<"enq", 1>>, <<"lut">>>>, <<<<"lut">>>> >>
S_ClientTerm  == << <<<<"enq", 1>>, <<"lut">>>>, <<<<"term">>>> >>
S_TermOnly    == << <<<<"lut">>>>, <<<<"lut">>>>, <<<<"term">>>> >>
=============================================================================
