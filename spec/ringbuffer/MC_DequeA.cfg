CONSTANTS Slots = {1, 2}
          MaxCap = 2
          Vals = {1, 2}
SPECIFICATION Spec
INVARIANTS TypeOK LiveCount
CHECK_DEADLOCK FALSE
