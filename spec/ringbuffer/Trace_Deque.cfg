CONSTANTS Slots = {1, 2}
          MaxCap = 9
          Vals = {1}
SPECIFICATION TraceSpec
INVARIANTS TypeOK
CONSTRAINT Progress
POSTCONDITION Report
CHECK_DEADLOCK FALSE
