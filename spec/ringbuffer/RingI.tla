-------------------------------- MODULE RingI --------------------------------
(***************************************************************************)
(* C16 -- implementation-shaped specification of tlx::RingBuffer            *)
(* (tlx/container/ring_buffer.hpp): storage of cap = 2^ceil(log2(max+1))    *)
(* cells, cursors begin/end taken modulo cap, one action per public member. *)
(* A cell is either Dead (raw storage) or holds a constructed element.      *)
(*                                                                          *)
(* TLC checks  RingI => DequeA  under the mapping                           *)
(*     seq[r] = cells[begin], cells[begin+1], ... , cells[end-1]  (mod cap) *)
(* and the lifetime invariant: the constructed cells are exactly that       *)
(* window.  A transition cover of this state graph drives the real code.    *)
(***************************************************************************)
EXTENDS Integers, Sequences, FiniteSets

CONSTANTS Slots, MaxCap, Vals

VARIABLES cap,     \* cap[r]: number of cells, 0 = no storage (data_ = nullptr)
          maxs,    \* max_size_
          begin, end, cells

ivars == <<cap, maxs, begin, end, cells>>

Dead == -1

Pow2Up(n) == IF n <= 1 THEN 1 ELSE IF n <= 2 THEN 2 ELSE IF n <= 4 THEN 4
             ELSE IF n <= 8 THEN 8 ELSE 16

NoCells == <<>>
Fresh(c) == [i \in 0 .. (c - 1) |-> Dead]

SizeI(r) == IF cap[r] = 0 THEN 0 ELSE (end[r] - begin[r] + cap[r]) % cap[r]
Window(r) == [i \in 1 .. SizeI(r) |-> cells[r][(begin[r] + i - 1) % cap[r]]]

Init ==
    /\ cap = [r \in Slots |-> 0] /\ maxs = [r \in Slots |-> 0]
    /\ begin = [r \in Slots |-> 0] /\ end = [r \in Slots |-> 0]
    /\ cells = [r \in Slots |-> NoCells]

RoomI(r) == cap[r] > 0 /\ SizeI(r) < maxs[r]

PushBack(r, v) ==
    /\ RoomI(r)
    /\ cells' = [cells EXCEPT ![r][end[r]] = v]
    /\ end' = [end EXCEPT ![r] = (@ + 1) % cap[r]]
    /\ UNCHANGED <<cap, maxs, begin>>

PushFront(r, v) ==
    /\ RoomI(r)
    /\ LET b == (begin[r] + cap[r] - 1) % cap[r] IN
         /\ begin' = [begin EXCEPT ![r] = b]
         /\ cells' = [cells EXCEPT ![r][b] = v]
    /\ UNCHANGED <<cap, maxs, end>>

PopFront(r) ==
    /\ cap[r] > 0 /\ SizeI(r) > 0
    /\ cells' = [cells EXCEPT ![r][begin[r]] = Dead]
    /\ begin' = [begin EXCEPT ![r] = (@ + 1) % cap[r]]
    /\ UNCHANGED <<cap, maxs, end>>

PopBack(r) ==
    /\ cap[r] > 0 /\ SizeI(r) > 0
    /\ LET e == (end[r] + cap[r] - 1) % cap[r] IN
         /\ cells' = [cells EXCEPT ![r][e] = Dead]     \* the *last* element is destroyed
         /\ end' = [end EXCEPT ![r] = e]
    /\ UNCHANGED <<cap, maxs, begin>>

\* clear(): pop_front until empty -- cursors stay where the last element was
ClearedCells(r) == IF cap[r] = 0 THEN NoCells ELSE Fresh(cap[r])
Clear(r) ==
    /\ cells' = [cells EXCEPT ![r] = ClearedCells(r)]
    /\ begin' = [begin EXCEPT ![r] = end[r]]
    /\ UNCHANGED <<cap, maxs, end>>

Allocate(r, m) ==
    /\ cap[r] = 0
    /\ cap' = [cap EXCEPT ![r] = Pow2Up(m + 1)] /\ maxs' = [maxs EXCEPT ![r] = m]
    /\ cells' = [cells EXCEPT ![r] = Fresh(Pow2Up(m + 1))]
    /\ begin' = [begin EXCEPT ![r] = 0] /\ end' = [end EXCEPT ![r] = 0]
       \* (the unrepaired code left the cursors where deallocate() had put them:
       \*  TLC found CursorsInRange violated by push*3; deallocate; allocate(smaller))

Deallocate(r) ==
    /\ cap' = [cap EXCEPT ![r] = IF cap[r] = 0 THEN 0 ELSE 0]
    /\ cells' = [cells EXCEPT ![r] = NoCells]
    /\ begin' = [begin EXCEPT ![r] = IF cap[r] = 0 THEN @ ELSE end[r]]
    /\ UNCHANGED <<maxs, end>>

Recreate(r, m) ==
    /\ cap' = [cap EXCEPT ![r] = Pow2Up(m + 1)] /\ maxs' = [maxs EXCEPT ![r] = m]
    /\ cells' = [cells EXCEPT ![r] = Fresh(Pow2Up(m + 1))]
    /\ begin' = [begin EXCEPT ![r] = 0] /\ end' = [end EXCEPT ![r] = 0]

\* both copy forms end with begin = 0 and the elements pushed back one by one
CopiedCells(s) == [i \in 0 .. (cap[s] - 1) |-> IF i < SizeI(s) THEN Window(s)[i + 1] ELSE Dead]
CopyFrom(r, s) ==
    /\ cap[s] > 0
    /\ IF r = s THEN UNCHANGED ivars
       ELSE /\ cap' = [cap EXCEPT ![r] = cap[s]] /\ maxs' = [maxs EXCEPT ![r] = maxs[s]]
            /\ cells' = [cells EXCEPT ![r] = CopiedCells(s)]
            /\ begin' = [begin EXCEPT ![r] = 0] /\ end' = [end EXCEPT ![r] = SizeI(s) % cap[s]]
CopyAssign(r, s)    == CopyFrom(r, s)
CopyConstruct(r, s) == r # s /\ CopyFrom(r, s)

\* moves carry storage and cursors over; the source keeps max_size_ but loses its storage
MoveFrom(r, s) ==
    IF r = s THEN UNCHANGED ivars
    ELSE /\ cap' = [cap EXCEPT ![r] = cap[s], ![s] = 0]
         /\ maxs' = [maxs EXCEPT ![r] = maxs[s]]
         /\ cells' = [cells EXCEPT ![r] = cells[s], ![s] = NoCells]
         /\ begin' = [begin EXCEPT ![r] = begin[s], ![s] = 0]
         /\ end' = [end EXCEPT ![r] = end[s], ![s] = 0]
MoveAssign(r, s)    == MoveFrom(r, s)
MoveConstruct(r, s) == r # s /\ MoveFrom(r, s)

MoveTo(r) ==
    /\ cap[r] > 0
    /\ cells' = [cells EXCEPT ![r] = Fresh(cap[r])]
    /\ begin' = [begin EXCEPT ![r] = end[r]]
    /\ UNCHANGED <<cap, maxs, end>>

Next ==
    \E r \in Slots :
       \/ \E v \in Vals : PushBack(r, v) \/ PushFront(r, v)
       \/ PopFront(r) \/ PopBack(r) \/ Clear(r)
       \/ \E m \in 0 .. MaxCap : Allocate(r, m) \/ Recreate(r, m)
       \/ Deallocate(r)
       \/ \E s \in Slots : CopyAssign(r, s) \/ CopyConstruct(r, s) \/ MoveAssign(r, s) \/ MoveConstruct(r, s)
       \/ MoveTo(r)

Spec == Init /\ [][Next]_ivars

(***************************************************************************)
(* Refinement and representation invariants                                 *)
(***************************************************************************)
Abs == INSTANCE DequeA WITH alloc <- [r \in Slots |-> cap[r] > 0],
                            max   <- maxs,
                            seq   <- [r \in Slots |-> Window(r)]
Refines == Abs!Spec

\* an element is alive iff it is currently stored: constructed cells = the window
LifetimesExact ==
    \A r \in Slots : cap[r] > 0 =>
        \A i \in 0 .. (cap[r] - 1) :
            (cells[r][i] # Dead) <=> (\E j \in 0 .. (SizeI(r) - 1) : (begin[r] + j) % cap[r] = i)

CursorsInRange == \A r \in Slots : cap[r] > 0 => begin[r] \in 0 .. (cap[r] - 1) /\ end[r] \in 0 .. (cap[r] - 1)
NeverOverfull  == \A r \in Slots : SizeI(r) <= maxs[r] \/ cap[r] = 0
=============================================================================
