-------------------------------- MODULE SVecA --------------------------------
(***************************************************************************)
(* C16 -- property-level specification of tlx::SimpleVector (default mode): *)
(* a non-growing array whose elements live exactly as long as they are      *)
(* stored.  Two vector objects so that swap / move are actions.  Dflt is    *)
(* what a freshly created cell shows (a default-constructed element in the  *)
(* default mode; "uninitialised" in the NoInit modes, where the driver      *)
(* reports the marker instead of reading the cell).                         *)
(***************************************************************************)
EXTENDS Integers, Sequences, FiniteSets

CONSTANTS Slots, MaxN, Vals
VARIABLES elems, dflt

vars == <<elems, dflt>>

BagOfSeq(s) == [v \in {s[i] : i \in DOMAIN s} |-> Cardinality({i \in DOMAIN s : s[i] = v})]
RECURSIVE Concat(_, _)
Concat(f, S) == IF S = {} THEN <<>> ELSE LET r == CHOOSE x \in S : \A y \in S : x <= y
                                     IN f[r] \o Concat(f, S \ {r})
LiveBag == BagOfSeq(Concat(elems, Slots))

Init == elems = [r \in Slots |-> <<>>] /\ dflt = 0

Fresh(n) == [i \in 1 .. n |-> dflt]

\* destroy the object in slot r, construct SimpleVector(n) there
Recreate(r, n) == elems' = [elems EXCEPT ![r] = Fresh(n)] /\ UNCHANGED dflt
\* resize keeps the first min(old, new) elements, the rest are fresh
Resize(r, n) ==
    /\ elems' = [elems EXCEPT ![r] = [i \in 1 .. n |-> IF i <= Len(elems[r]) THEN elems[r][i] ELSE dflt]]
    /\ UNCHANGED dflt
Destroy(r)   == elems' = [elems EXCEPT ![r] = <<>>] /\ UNCHANGED dflt
Fill(r, v)   == elems' = [elems EXCEPT ![r] = [i \in 1 .. Len(elems[r]) |-> v]] /\ UNCHANGED dflt
Set(r, i, v) == i \in 1 .. Len(elems[r]) /\ elems' = [elems EXCEPT ![r][i] = v] /\ UNCHANGED dflt
Swap(r, s)   == elems' = [elems EXCEPT ![r] = elems[s], ![s] = elems[r]] /\ UNCHANGED dflt
MoveFrom(r, s) ==
    /\ IF r = s THEN UNCHANGED elems
       ELSE elems' = [elems EXCEPT ![r] = elems[s], ![s] = <<>>]
    /\ UNCHANGED dflt
MoveAssign(r, s)    == MoveFrom(r, s)
MoveConstruct(r, s) == r # s /\ MoveFrom(r, s)

Next ==
    \E r \in Slots :
       \/ \E n \in 0 .. MaxN : Recreate(r, n) \/ Resize(r, n)
       \/ Destroy(r)
       \/ \E v \in Vals : Fill(r, v) \/ \E i \in 1 .. MaxN : Set(r, i, v)
       \/ \E s \in Slots : Swap(r, s) \/ MoveAssign(r, s) \/ MoveConstruct(r, s)

Spec == Init /\ [][Next]_vars

TypeOK == \A r \in Slots : Len(elems[r]) <= MaxN
=============================================================================
