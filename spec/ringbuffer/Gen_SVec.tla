------------------------------ MODULE Gen_SVec ------------------------------
\* transition generator for SVecA (see Gen_Ring.tla for the idiom)
EXTENDS SVecA, TLC, Json
VARIABLE op
gvars == <<vars, op>>
Op(o, r, a, b) == [o |-> o, r |-> r, a |-> a, b |-> b]
GInit == Init /\ op = Op("init", 0, 0, 0)
GNext ==
    \E r \in Slots :
       \/ \E n \in 0 .. MaxN : \/ Recreate(r, n) /\ op' = Op("recreate", r, n, 0)
                               \/ Resize(r, n) /\ op' = Op("resize", r, n, 0)
       \/ Destroy(r) /\ op' = Op("destroy", r, 0, 0)
       \/ \E v \in Vals : \/ Fill(r, v) /\ op' = Op("fill", r, v, 0)
                          \/ \E i \in 1 .. MaxN : Set(r, i, v) /\ op' = Op("set", r, i, v)
       \/ \E s \in Slots : \/ Swap(r, s) /\ op' = Op("swap", r, s, 0)
                           \/ MoveAssign(r, s) /\ op' = Op("move_assign", r, s, 0)
                           \/ MoveConstruct(r, s) /\ op' = Op("move_construct", r, s, 0)
GenSpec == GInit /\ [][GNext]_gvars
View == vars
Edge == PrintT(<<"@@GEN@@", ToJson([f |-> ToString(vars), o |-> op', t |-> ToString(vars')])>>)
=============================================================================
