----------------------------- MODULE Trace_Deque -----------------------------
(***************************************************************************)
(* C16 -- trace specification for RingBuffer executions recorded by         *)
(* harness/drv_ring.cpp.  One event per public call; "obs" is what the      *)
(* public API shows for every slot after the call, "live" the values of all *)
(* element instances alive in the ledger, "blocks" the number of storage    *)
(* blocks the allocator has handed out and not got back.                    *)
(***************************************************************************)
EXTENDS DequeA, TraceIO

VARIABLE l
tvars == <<vars, l>>

Ev == TraceLog[l]

\* the observations logged with the event agree with the primed abstract state
ObsOK(e) ==
    /\ \A r \in Slots :
         LET o == e.obs[r] IN
           /\ o.size = Len(seq'[r])
           /\ o.empty = (seq'[r] = <<>>)
           /\ o.seq = seq'[r]
           /\ alloc'[r] => o.max = max'[r]
           /\ seq'[r] # <<>> => (o.front = seq'[r][1] /\ o.back = seq'[r][Len(seq'[r])])
           /\ o.seq_c = seq'[r]                                   \* const overloads
           /\ seq'[r] # <<>> => (o.front_c = seq'[r][1] /\ o.back_c = seq'[r][Len(seq'[r])])
           /\ alloc'[r] => o.cap > max'[r]                        \* room for max_size() elements and the free slot that tells full from empty
    /\ HasField(e, "live") => BagOfSeq(e.live) = LiveBag'
    /\ HasField(e, "blocks") => e.blocks = Cardinality({r \in Slots : alloc'[r]})
    /\ e.lerr = 0

Step(e) ==
    CASE e.e = "reset"          -> alloc' = [r \in Slots |-> FALSE] /\ max' = [r \in Slots |-> 0] /\ seq' = [r \in Slots |-> <<>>]
      [] e.e = "push_back"      -> PushBack(e.r, e.a)
      [] e.e = "push_front"     -> PushFront(e.r, e.a)
      [] e.e = "pop_front"      -> PopFront(e.r)
      [] e.e = "pop_back"       -> PopBack(e.r)
      [] e.e = "clear"          -> Clear(e.r)
      [] e.e = "allocate"       -> Allocate(e.r, e.a)
      [] e.e = "deallocate"     -> Deallocate(e.r)
      [] e.e = "recreate"       -> Recreate(e.r, e.a)
      [] e.e = "copy_assign"    -> CopyAssign(e.r, e.a)
      [] e.e = "copy_construct" -> CopyConstruct(e.r, e.a)
      [] e.e = "move_assign"    -> MoveAssign(e.r, e.a)
      [] e.e = "move_construct" -> MoveConstruct(e.r, e.a)
      [] e.e = "move_to"        -> MoveTo(e.r, e.out)
      [] e.e = "copy_to"        -> CopyTo(e.r, e.out)
      [] OTHER                  -> FALSE

TInit == Init /\ l = 1
TNext == l <= TraceLen /\ Step(Ev) /\ ObsOK(Ev) /\ l' = l + 1
TraceSpec == TInit /\ [][TNext]_tvars

Progress == TrackProgress(l)
Report == ReportResult
=============================================================================
