CONSTANTS Slots = {1, 2}
          MaxCap = 2
          Vals = {1}
SPECIFICATION GenSpec
VIEW View
ACTION_CONSTRAINT Edge
CHECK_DEADLOCK FALSE
