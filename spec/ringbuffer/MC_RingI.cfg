CONSTANTS Slots = {1, 2}
          MaxCap = 2
          Vals = {1, 2}
SPECIFICATION Spec
INVARIANTS LifetimesExact CursorsInRange NeverOverfull
PROPERTY Refines
CHECK_DEADLOCK FALSE
