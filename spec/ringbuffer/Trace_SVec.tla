----------------------------- MODULE Trace_SVec -----------------------------
\* C16 -- trace specification for SimpleVector executions (harness/drv_svec.cpp)
EXTENDS SVecA, TraceIO
VARIABLE l
tvars == <<vars, l>>
Ev == TraceLog[l]

ObsOK(e) ==
    /\ \A r \in Slots : e.obs[r].size = Len(elems'[r]) /\ e.obs[r].seq = elems'[r]
                       /\ e.obs[r].seq_it = elems'[r] /\ e.obs[r].seq_acc = elems'[r]       \* const iterators; at() / data() / cbegin() / front() / back()
    /\ HasField(e, "live") => BagOfSeq(e.live) = LiveBag'
    /\ e.lerr = 0

Step(e) ==
    CASE e.e = "reset"          -> elems' = [r \in Slots |-> <<>>] /\ dflt' = e.dflt
      [] e.e = "recreate"       -> Recreate(e.r, e.a)
      [] e.e = "resize"         -> Resize(e.r, e.a)
      [] e.e = "destroy"        -> Destroy(e.r)
      [] e.e = "fill"           -> Fill(e.r, e.a)
      [] e.e = "set"            -> Set(e.r, e.a, e.b)
      [] e.e = "swap"           -> Swap(e.r, e.a)
      [] e.e = "move_assign"    -> MoveAssign(e.r, e.a)
      [] e.e = "move_construct" -> MoveConstruct(e.r, e.a)
      [] OTHER                  -> FALSE

TInit == Init /\ l = 1
TNext == l <= TraceLen /\ Step(Ev) /\ ObsOK(Ev) /\ l' = l + 1
TraceSpec == TInit /\ [][TNext]_tvars
Progress == TrackProgress(l)
Report == ReportResult
=============================================================================
