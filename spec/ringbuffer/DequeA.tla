------------------------------- MODULE DequeA -------------------------------
(***************************************************************************)
(* C16 -- property-level specification of tlx::RingBuffer: a bounded        *)
(* double-ended queue, for a small number of buffer objects ("slots") so    *)
(* that copy / move / assignment between buffers are actions too.           *)
(*                                                                          *)
(* State per slot: alloc (storage present), max (capacity bound), seq (the  *)
(* element sequence).  Element lifetimes are part of the state: the bag of  *)
(* live element instances must always equal the bag of stored elements      *)
(* ("an element is alive iff it is currently stored").                      *)
(*                                                                          *)
(* Guards are the documented preconditions (capacity respected, pop on      *)
(* non-empty, allocate on an unallocated buffer, copy from an allocated     *)
(* one); the generators never offer anything else.                          *)
(***************************************************************************)
EXTENDS Integers, Sequences, FiniteSets

CONSTANTS Slots,     \* buffer objects, e.g. {1, 2}
          MaxCap,    \* capacities explored: 0 .. MaxCap
          Vals       \* element values offered by the generator

VARIABLES alloc, max, seq

vars == <<alloc, max, seq>>

BagOfSeq(s) == [v \in {s[i] : i \in DOMAIN s} |-> Cardinality({i \in DOMAIN s : s[i] = v})]

RECURSIVE Concat(_, _)
Concat(f, S) == IF S = {} THEN <<>> ELSE LET r == CHOOSE x \in S : \A y \in S : x <= y
                                     IN f[r] \o Concat(f, S \ {r})
\* what the ledger of live element instances must show
LiveBag == BagOfSeq(Concat(seq, Slots))

TypeOK ==
    /\ alloc \in [Slots -> BOOLEAN]
    /\ max \in [Slots -> Nat]
    /\ \A r \in Slots : Len(seq[r]) <= max[r] /\ (~alloc[r] => seq[r] = <<>>)

Init ==
    /\ alloc = [r \in Slots |-> FALSE]
    /\ max = [r \in Slots |-> 0]
    /\ seq = [r \in Slots |-> <<>>]

Room(r) == alloc[r] /\ Len(seq[r]) < max[r]

PushBack(r, v)  == Room(r) /\ seq' = [seq EXCEPT ![r] = Append(@, v)] /\ UNCHANGED <<alloc, max>>
PushFront(r, v) == Room(r) /\ seq' = [seq EXCEPT ![r] = <<v>> \o @] /\ UNCHANGED <<alloc, max>>
PopFront(r) == alloc[r] /\ seq[r] # <<>> /\ seq' = [seq EXCEPT ![r] = Tail(@)] /\ UNCHANGED <<alloc, max>>
PopBack(r)  == alloc[r] /\ seq[r] # <<>> /\ seq' = [seq EXCEPT ![r] = SubSeq(@, 1, Len(@) - 1)] /\ UNCHANGED <<alloc, max>>
Clear(r)    == seq' = [seq EXCEPT ![r] = <<>>] /\ UNCHANGED <<alloc, max>>

\* allocate(m) on an unallocated buffer; deallocate() any time
Allocate(r, m) == ~alloc[r] /\ alloc' = [alloc EXCEPT ![r] = TRUE] /\ max' = [max EXCEPT ![r] = m] /\ UNCHANGED seq
Deallocate(r)  == alloc' = [alloc EXCEPT ![r] = FALSE] /\ seq' = [seq EXCEPT ![r] = <<>>] /\ UNCHANGED max

\* destroy the object in slot r and construct RingBuffer(m) there
Recreate(r, m) == alloc' = [alloc EXCEPT ![r] = TRUE] /\ max' = [max EXCEPT ![r] = m] /\ seq' = [seq EXCEPT ![r] = <<>>]

\* r = s  (copy assignment, self assignment included) / destroy r and copy-construct it from s
CopyFrom(r, s) ==
    /\ alloc[s]
    /\ alloc' = [alloc EXCEPT ![r] = TRUE] /\ max' = [max EXCEPT ![r] = max[s]]
    /\ seq' = [seq EXCEPT ![r] = seq[s]]
CopyAssign(r, s)    == CopyFrom(r, s)
CopyConstruct(r, s) == r # s /\ CopyFrom(r, s)

\* r = std::move(s) / destroy r and move-construct it from s: s is left empty and unallocated
MoveFrom(r, s) ==
    IF r = s THEN UNCHANGED vars
    ELSE /\ alloc' = [alloc EXCEPT ![r] = alloc[s], ![s] = FALSE]
         /\ max' = [max EXCEPT ![r] = max[s]]
         /\ seq' = [seq EXCEPT ![r] = seq[s], ![s] = <<>>]
MoveAssign(r, s)    == MoveFrom(r, s)
MoveConstruct(r, s) == r # s /\ MoveFrom(r, s)

\* copy_to(vector) leaves the buffer alone and yields seq; move_to(vector) empties it
CopyTo(r, out) == alloc[r] /\ out = seq[r] /\ UNCHANGED vars
MoveTo(r, out) == alloc[r] /\ out = seq[r] /\ seq' = [seq EXCEPT ![r] = <<>>] /\ UNCHANGED <<alloc, max>>

(***************************************************************************)
(* Observations every implementation state must agree with.                 *)
(***************************************************************************)
Size(r)  == Len(seq[r])
Empty(r) == seq[r] = <<>>
Front(r) == seq[r][1]
Back(r)  == seq[r][Len(seq[r])]
At(r, i) == seq[r][i + 1]

Next ==
    \E r \in Slots :
       \/ \E v \in Vals : PushBack(r, v) \/ PushFront(r, v)
       \/ PopFront(r) \/ PopBack(r) \/ Clear(r)
       \/ \E m \in 0 .. MaxCap : Allocate(r, m) \/ Recreate(r, m)
       \/ Deallocate(r)
       \/ \E s \in Slots : CopyAssign(r, s) \/ CopyConstruct(r, s) \/ MoveAssign(r, s) \/ MoveConstruct(r, s)
       \/ MoveTo(r, seq[r]) \/ CopyTo(r, seq[r])

Spec == Init /\ [][Next]_vars

\* sanity: the bag of live elements has exactly as many members as are stored
LiveCount ==
    LET b == LiveBag
        RECURSIVE Sum(_)
        Sum(S) == IF S = {} THEN 0 ELSE LET x == CHOOSE y \in S : TRUE IN b[x] + Sum(S \ {x})
        RECURSIVE Tot(_)
        Tot(S) == IF S = {} THEN 0 ELSE LET x == CHOOSE y \in S : TRUE IN Len(seq[x]) + Tot(S \ {x})
    IN Sum(DOMAIN b) = Tot(Slots)
=============================================================================
