CONSTANTS Slots = {1, 2}
          MaxN = 64
          Vals = {1}
SPECIFICATION TraceSpec
INVARIANT TypeOK
CONSTRAINT Progress
POSTCONDITION Report
CHECK_DEADLOCK FALSE
