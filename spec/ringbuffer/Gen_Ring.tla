------------------------------ MODULE Gen_Ring ------------------------------
(***************************************************************************)
(* C16 -- transition generator: RingI with a ghost variable naming the      *)
(* operation of each step.  Used with  VIEW ivars  (the ghost does not      *)
(* split states) and  ACTION_CONSTRAINT Edge, which prints every generated  *)
(* transition; tools/vlib.py:edge_tours() turns the edge list into scripts  *)
(* that cover every transition of RingI's reachable state graph.            *)
(***************************************************************************)
EXTENDS RingI, TLC, Json

VARIABLE op
gvars == <<ivars, op>>

Op(o, r, a) == [o |-> o, r |-> r, a |-> a]

GInit == Init /\ op = Op("init", 0, 0)

GNext ==
    \E r \in Slots :
       \/ \E v \in Vals : \/ PushBack(r, v) /\ op' = Op("push_back", r, v)
                          \/ PushFront(r, v) /\ op' = Op("push_front", r, v)
       \/ PopFront(r) /\ op' = Op("pop_front", r, 0)
       \/ PopBack(r) /\ op' = Op("pop_back", r, 0)
       \/ Clear(r) /\ op' = Op("clear", r, 0)
       \/ \E m \in 0 .. MaxCap : \/ Allocate(r, m) /\ op' = Op("allocate", r, m)
                                 \/ Recreate(r, m) /\ op' = Op("recreate", r, m)
       \/ Deallocate(r) /\ op' = Op("deallocate", r, 0)
       \/ \E s \in Slots : \/ CopyAssign(r, s) /\ op' = Op("copy_assign", r, s)
                           \/ CopyConstruct(r, s) /\ op' = Op("copy_construct", r, s)
                           \/ MoveAssign(r, s) /\ op' = Op("move_assign", r, s)
                           \/ MoveConstruct(r, s) /\ op' = Op("move_construct", r, s)
       \/ MoveTo(r) /\ op' = Op("move_to", r, 0)
       \/ (cap[r] > 0 /\ UNCHANGED ivars /\ op' = Op("copy_to", r, 0))

GenSpec == GInit /\ [][GNext]_gvars

View == ivars
Edge == PrintT(<<"@@GEN@@", ToJson([f |-> ToString(ivars), o |-> op', t |-> ToString(ivars')])>>)
=============================================================================
