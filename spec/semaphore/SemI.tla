-------------------------------- MODULE SemI --------------------------------
(***************************************************************************)
(* C11 -- tlx::Semaphore, one action per visible synchronisation operation  *)
(* of semaphore.hpp (mutex lock / unlock, condition wait, notify_one,       *)
(* notify_all).  Plain accesses to value_ happen under the mutex and are    *)
(* merged into the next visible operation of the same call.                 *)
(*                                                                          *)
(*   signal():   Lock ; [++value] NotifyOne|NotifyAll ; Unlock              *)
(*   signal(n):  Lock ; [value += n] NotifyAll ; Unlock                     *)
(*   wait(d,s):  Lock ; { value < d+s: CvWait ... (woken) Lock }* ;         *)
(*               [value -= d] Unlock                                        *)
(*   try_acquire(d,s): Lock ; [value -= d if value >= d+s] Unlock           *)
(*                                                                          *)
(* SignalAll = TRUE is the repaired signal() (notify_all); FALSE is the     *)
(* original notify_one, for which TLC finds NoStrandedWaiter violated with  *)
(* mixed deltas (wait(2), wait(1), signal()).                               *)
(***************************************************************************)
EXTENDS Integers, Sequences, FiniteSets

CONSTANTS Threads,     \* 1 .. N
          Calls,       \* the calls a program may contain
          MaxCalls,    \* [Threads -> max program length]
          Initial,     \* initial value
          SignalAll

VARIABLES prog, pc, ip, value, owner, waitq, signalled, taken,
          ret        \* ret[t]: what the last completed call of t returned (value after the call; 1/0 for try_acquire)

vars == <<prog, pc, ip, value, owner, waitq, signalled, taken, ret>>

Sig(n)     == [op |-> "signal", n |-> n, d |-> 0, s |-> 0]   \* n = 1: signal(); else signal(n)
SigN(n)    == [op |-> "signaln", n |-> n, d |-> 0, s |-> 0]
Wait(d, s) == [op |-> "wait", n |-> 0, d |-> d, s |-> s]
Try(d, s)  == [op |-> "try", n |-> 0, d |-> d, s |-> s]

Programs(t) == UNION {[1 .. n -> Calls] : n \in 0 .. MaxCalls[t]}

Init ==
    /\ prog \in [Threads -> UNION {Programs(t) : t \in Threads}]
    /\ \A t \in Threads : prog[t] \in Programs(t)
    /\ pc = [t \in Threads |-> 1]
    /\ ip = [t \in Threads |-> IF Len(prog[t]) = 0 THEN "done" ELSE "lock"]
    /\ value = Initial /\ owner = 0 /\ waitq = <<>> /\ signalled = 0 /\ taken = 0
    /\ ret = [t \in Threads |-> -1]

Cur(t) == prog[t][pc[t]]
Need(c) == c.d + c.s

\* ---- visible operations
Lock(t) ==
    /\ ip[t] \in {"lock", "relock"} /\ owner = 0
    /\ owner' = t
    /\ ip' = [ip EXCEPT ![t] = CASE Cur(t).op \in {"signal", "signaln"} -> "notify"
                                 [] Cur(t).op = "wait" -> (IF value < Need(Cur(t)) THEN "cvwait" ELSE "unlock")
                                 [] OTHER -> "unlock"]
    /\ UNCHANGED <<prog, pc, value, waitq, signalled, taken, ret>>

CvWait(t) ==
    /\ ip[t] = "cvwait" /\ owner = t
    /\ owner' = 0 /\ waitq' = Append(waitq, t)
    /\ ip' = [ip EXCEPT ![t] = "waiting"]
    /\ UNCHANGED <<prog, pc, value, signalled, taken, ret>>

RemoveAt(q, i) == SubSeq(q, 1, i - 1) \o SubSeq(q, i + 1, Len(q))

\* notify_one wakes *some* waiter (index i of the wait queue); with an empty queue it is a no-op
NotifyOne(t, i) ==
    /\ ip[t] = "notify" /\ owner = t /\ Cur(t).op = "signal" /\ ~SignalAll
    /\ value' = value + Cur(t).n /\ signalled' = signalled + Cur(t).n
    /\ IF waitq = <<>> THEN i = 0 /\ UNCHANGED waitq /\ ip' = [ip EXCEPT ![t] = "unlock"]
       ELSE /\ i \in 1 .. Len(waitq)
            /\ waitq' = RemoveAt(waitq, i)
            /\ ip' = [ip EXCEPT ![t] = "unlock", ![waitq[i]] = "relock"]
    /\ UNCHANGED <<prog, pc, owner, taken, ret>>

NotifyAll(t) ==
    /\ ip[t] = "notify" /\ owner = t /\ (Cur(t).op = "signaln" \/ SignalAll)
    /\ value' = value + Cur(t).n /\ signalled' = signalled + Cur(t).n
    /\ waitq' = <<>>
    /\ ip' = [x \in Threads |-> IF x = t THEN "unlock" ELSE IF \E j \in 1 .. Len(waitq) : waitq[j] = x THEN "relock" ELSE ip[x]]
    /\ UNCHANGED <<prog, pc, owner, taken, ret>>

\* the call's effect on value_ and its return, then the mutex is released
Unlock(t) ==
    /\ ip[t] = "unlock" /\ owner = t
    /\ owner' = 0
    /\ LET c == Cur(t)
           got == c.op \in {"wait", "try"} /\ value >= Need(c)
       IN /\ value' = IF got THEN value - c.d ELSE value
          /\ taken' = IF got THEN taken + c.d ELSE taken
          /\ ret' = [ret EXCEPT ![t] = IF c.op = "try" THEN (IF got THEN 1 ELSE 0) ELSE (IF got THEN value - c.d ELSE value)]
    /\ pc' = [pc EXCEPT ![t] = @ + 1]
    /\ ip' = [ip EXCEPT ![t] = IF pc[t] + 1 > Len(prog[t]) THEN "done" ELSE "lock"]
    /\ UNCHANGED <<prog, waitq, signalled>>

Next == \E t \in Threads : Lock(t) \/ CvWait(t) \/ NotifyAll(t) \/ Unlock(t) \/ \E i \in 0 .. Cardinality(Threads) : NotifyOne(t, i)
Spec == Init /\ [][Next]_vars

(***************************************************************************)
(* The property                                                             *)
(***************************************************************************)
\* tokens are conserved: never more handed out than were signalled plus the initial value
Conservation == taken + value = Initial + signalled /\ value >= 0
\* a wait that is about to return saw value >= delta + slack
WaitSawEnough == \A t \in Threads : (ip[t] = "unlock" /\ Cur(t).op = "wait") => value >= Need(Cur(t))
\* the threads never come to rest with a waiter blocked although the value covers its request
AtRest == \A t \in Threads : ip[t] \in {"waiting", "done"}
NoStrandedWaiter == AtRest => \A t \in Threads : ip[t] = "waiting" => value < Need(Cur(t))
MutexOK == owner = 0 \/ ip[owner] \in {"notify", "cvwait", "unlock"}
=============================================================================
