CONSTANTS Threads = {1,2,3,4}
          Calls = {}
          MaxCalls = 0
          Initial = 0
          SignalAll = TRUE
SPECIFICATION TraceSpec
CONSTRAINT Progress
POSTCONDITION Report
CHECK_DEADLOCK FALSE
