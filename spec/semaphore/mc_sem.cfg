CONSTANTS Threads = {1,2,3}
          Calls <- CallSet
          MaxCalls <- MaxCalls_1x2
          Initial = 0
          SignalAll = TRUE
SPECIFICATION Spec
INVARIANTS Conservation WaitSawEnough NoStrandedWaiter MutexOK
CHECK_DEADLOCK FALSE
