-------------------------------- MODULE SemA --------------------------------
(***************************************************************************)
(* C11 -- property-level specification of tlx::Semaphore: exactly what the  *)
(* property states and nothing about how it is implemented.  Calls take     *)
(* effect in the order in which they return (the implementation serialises  *)
(* them).                                                                   *)
(*   - tokens are conserved;                                                *)
(*   - wait(d, s) returns only when value >= d + s held, and takes d;       *)
(*   - try_acquire(d, s) succeeds iff value >= d + s;                       *)
(*   - when the threads come to rest, no blocked waiter is covered.         *)
(***************************************************************************)
EXTENDS Integers, Sequences

VARIABLES value, given, taken      \* given = initial value + everything signalled
vars == <<value, given, taken>>

Init == value = 0 /\ given = 0 /\ taken = 0
Start(initial) == value' = initial /\ given' = initial /\ taken' = 0
Signal(n, ret) == value' = value + n /\ given' = given + n /\ ret = value + n /\ UNCHANGED taken
Wait(d, s, ret) == value >= d + s /\ value' = value - d /\ taken' = taken + d /\ ret = value - d /\ UNCHANGED given
Try(d, s, ret) ==
    /\ ret = (IF value >= d + s THEN 1 ELSE 0)
    /\ value' = (IF value >= d + s THEN value - d ELSE value)
    /\ taken' = (IF value >= d + s THEN taken + d ELSE taken)
    /\ UNCHANGED given
\* rest state: blocked = sequence of <<d, s>> requests of the waiters still blocked
Rest(blocked) == (\A i \in DOMAIN blocked : value < blocked[i][1] + blocked[i][2]) /\ UNCHANGED vars

Conservation == taken + value = given /\ value >= 0
=============================================================================
