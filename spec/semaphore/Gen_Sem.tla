------------------------------- MODULE Gen_Sem -------------------------------
\* C11 -- emits complete behaviours of SemI: programs, the thread performing each visible operation, notify_one choices
EXTENDS SemI, TLC, Json
VARIABLE h
gvars == <<vars, h>>
GInit == Init /\ h = [order |-> <<>>, waiters |-> <<>>]
Step(t) == h' = [h EXCEPT !.order = Append(@, t)]
GNext == \E t \in Threads :
           \/ ((Lock(t) \/ CvWait(t) \/ NotifyAll(t) \/ Unlock(t)) /\ Step(t))
           \/ \E i \in 0 .. Cardinality(Threads) : (NotifyOne(t, i) /\ h' = [order |-> Append(h.order, t), waiters |-> IF i = 0 THEN h.waiters ELSE Append(h.waiters, i - 1)])
GenSpec == GInit /\ [][GNext]_gvars
ProgSeq == [i \in 1 .. Cardinality(Threads) |-> prog[i]]
Emit == AtRest => PrintT(<<"@@GEN@@", ToJson([prog |-> ProgSeq, order |-> h.order, waiters |-> h.waiters])>>)
=============================================================================
