----------------------------- MODULE Trace_SemA -----------------------------
\* C11 -- property-level trace specification (verdict): only call returns and the final rest state are judged
EXTENDS SemA, TraceIO
VARIABLE l
Ev == TraceLog[l]
Ignored == {"lock", "unlock", "cvwait", "notify_one", "notify_all"}
Step ==
    CASE Ev.e = "reset" -> Start(Ev.initial)
      [] Ev.e = "ret" /\ Ev.op \in {"signal", "signaln"} -> Signal(Ev.n, Ev.val)
      [] Ev.e = "ret" /\ Ev.op = "wait" -> Wait(Ev.d, Ev.s, Ev.val)
      [] Ev.e = "ret" /\ Ev.op = "try" -> Try(Ev.d, Ev.s, Ev.val)
      [] Ev.e = "end" -> Rest(Ev.blocked_req) /\ Ev.problems = 0 /\ (Ev.final >= 0 => Ev.final = value)
      [] Ev.e \in Ignored -> UNCHANGED vars
      [] OTHER -> FALSE
TInit == Init /\ l = 1
TNext == l <= TraceLen /\ Step /\ l' = l + 1 /\ Conservation'
TraceSpec == TInit /\ [][TNext]_<<vars, l>>
Progress == TrackProgress(l)
Report == ReportResult
=============================================================================
