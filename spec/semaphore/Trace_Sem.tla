------------------------------ MODULE Trace_Sem ------------------------------
(***************************************************************************)
(* C11 -- trace specification for Semaphore executions under the scheduler  *)
(* shim (harness/drv_sem.cpp).  Events are the visible operations on the    *)
(* semaphore's mutex and condition variable in the order they took effect   *)
(* (shim observer), each call's return value, and a final summary naming    *)
(* the threads that are still blocked when the execution came to rest.      *)
(***************************************************************************)
EXTENDS SemI, TraceIO
VARIABLE l
tvars == <<vars, l>>
Ev == TraceLog[l]

ToCall(c) == [op |-> c.op, n |-> c.n, d |-> c.d, s |-> c.s]
TStart ==
    /\ Ev.e = "reset"
    /\ prog' = [t \in Threads |-> IF t <= Len(Ev.prog) THEN [i \in 1 .. Len(Ev.prog[t]) |-> ToCall(Ev.prog[t][i])] ELSE <<>>]
    /\ pc' = [t \in Threads |-> 1]
    /\ ip' = [t \in Threads |-> IF t <= Len(Ev.prog) /\ Len(Ev.prog[t]) > 0 THEN "lock" ELSE "done"]
    /\ value' = Ev.initial /\ owner' = 0 /\ waitq' = <<>> /\ signalled' = Ev.initial /\ taken' = 0   \* the initial tokens count as signalled (Initial = 0)
    /\ ret' = [t \in Threads |-> -1]
Running == ip # <<>>
TLock      == Ev.e = "lock" /\ Running /\ Lock(Ev.t)
TCvWait    == Ev.e = "cvwait" /\ Running /\ CvWait(Ev.t)
TNotifyAll == Ev.e = "notify_all" /\ Running /\ NotifyAll(Ev.t)
\* the shim reports which thread notify_one woke (0 = nobody was waiting)
TNotifyOne == Ev.e = "notify_one" /\ Running /\ \E i \in 0 .. Len(waitq) : NotifyOne(Ev.t, i) /\ (i > 0 => waitq[i] = Ev.woken) /\ (i = 0 => Ev.woken = 0)
TUnlock    == Ev.e = "unlock" /\ Running /\ Unlock(Ev.t)
\* the value the call returned to its caller
TRet       == Ev.e = "ret" /\ Running /\ ret[Ev.t] = Ev.val /\ UNCHANGED vars
\* the execution came to rest: every unfinished thread is a waiter whose request is not covered
TEnd ==
    /\ Ev.e = "end" /\ Running
    /\ \A t \in Threads : (ip[t] = "done") <=> (\A i \in DOMAIN Ev.blocked : Ev.blocked[i] # t)
    /\ \A t \in Threads : ip[t] # "done" => (ip[t] = "waiting" /\ value < Need(Cur(t)))
    /\ Ev.problems = 0
    /\ (Ev.final >= 0 => Ev.final = value)          \* value() once everybody has finished
    /\ UNCHANGED vars

Inv == Running => (Conservation /\ WaitSawEnough)
TInit == prog = <<>> /\ pc = <<>> /\ ip = <<>> /\ value = 0 /\ owner = 0 /\ waitq = <<>> /\ signalled = 0 /\ taken = 0 /\ ret = <<>> /\ l = 1
TNext == l <= TraceLen /\ (TStart \/ TLock \/ TCvWait \/ TNotifyAll \/ TNotifyOne \/ TUnlock \/ TRet \/ TEnd) /\ l' = l + 1 /\ Inv'
TraceSpec == TInit /\ [][TNext]_tvars
Progress == TrackProgress(l)
Report == ReportResult
=============================================================================
