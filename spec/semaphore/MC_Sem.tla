------------------------------- MODULE MC_Sem -------------------------------
\* model-checking instance of SemI: the call alphabet and per-thread program lengths
EXTENDS SemI
CallSet == {Sig(1), SigN(2), Wait(1, 0), Wait(2, 0), Wait(1, 1), Try(1, 0)}
MaxCalls_1x2 == [t \in Threads |-> IF t = 1 THEN 2 ELSE 1]
MaxCalls_2 == [t \in Threads |-> 2]
MaxCalls_1 == [t \in Threads |-> 1]
=============================================================================
