CONSTANTS Threads = {1,2,3}
          G = 3
          Kind = "mutex"
SPECIFICATION Spec
INVARIANTS NoEarlyLeave ActionOnce ActionBeforeRelease ActionByLast NoOvertake
PROPERTY Reusable
CHECK_DEADLOCK FALSE
