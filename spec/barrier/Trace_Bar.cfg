CONSTANTS Threads <- TThreads
          G <- TG
          Kind <- TKind
SPECIFICATION TraceSpec
CONSTRAINT Progress
POSTCONDITION Report
CHECK_DEADLOCK FALSE
