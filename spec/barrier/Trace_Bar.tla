------------------------------ MODULE Trace_Bar ------------------------------
(***************************************************************************)
(* C11 -- trace specification for barrier executions under the scheduler    *)
(* shim (harness/drv_barrier.cpp): the visible operations on the barrier's  *)
(* mutex / condition variable / atomics in the order they took effect, plus *)
(* the driver's enter / action / leave events.  The checker groups executions *)
(* by (kind, N, G); the constants are read from the first event.            *)
(***************************************************************************)
EXTENDS BarrierI, TraceIO

\* all executions of one trace file share (kind, N, G): the checker groups them; the constants come from the first event
TThreads == 1 .. TraceLog[1].n
TG == TraceLog[1].g
TKind == TraceLog[1].kind

VARIABLE l
Ev == TraceLog[l]

TStart ==
    /\ Ev.e = "reset" /\ Ev.n = N /\ Ev.g = G /\ Ev.kind = Kind
    /\ ip' = [t \in Threads |-> IF G = 0 THEN "done" ELSE IF Kind = "mutex" THEN "lock" ELSE "loadstep"]
    /\ gen' = [t \in Threads |-> 0] /\ arrivals' = [t \in Threads |-> 0]
    /\ actionRuns' = [g \in 1 .. G |-> 0] /\ actionBy' = [g \in 1 .. G |-> 0] /\ lastArriver' = [g \in 1 .. G |-> 0]
    /\ owner' = 0 /\ waitset' = {} /\ step' = 0 /\ counts' = [i \in {0, 1} |-> 0] /\ cur' = [t \in Threads |-> 0]
    /\ sstep' = 0 /\ waiting' = 0 /\ mystep' = [t \in Threads |-> 0]

Op(a) == a
Stutter == UNCHANGED vars
T == Ev.t
n == N

TLock   == Ev.e = "lock" /\ Op(MLockArrive(T) \/ MRelock(T))
TCvWait == Ev.e = "cvwait" /\ Op(MCvWait(T))
TNotify == Ev.e = "notify_all" /\ Op(MNotifyAll(T))
TUnlock == Ev.e = "unlock" /\ Op(MUnlock(T))
\* loads of step_: the first one of a crossing, a spin iteration that still sees the old value (no step of the spec), or the exit
TLoad ==
    /\ Ev.e = "load" /\ Ev.obj = "step" /\ Ev.val = sstep
    /\ \/ (ip[T] = "loadstep" /\ Op(SLoadStep(T)))
       \/ (ip[T] = "spin" /\ Ev.val = mystep[T] /\ Stutter)
       \/ (ip[T] = "spin" /\ Ev.val # mystep[T] /\ Op(SSpinExit(T)))
TRmw ==
    /\ Ev.e = "rmw"
    /\ \/ (Ev.obj = "waiting" /\ ip[T] = "fetchadd" /\ Ev.before = waiting /\ Ev.after = waiting + 1 /\ Op(SFetchAdd(T)))
       \/ (Ev.obj = "waiting" /\ ip[T] = "store0" /\ Ev.after = 0 /\ Op(SStore0(T)))
       \/ (Ev.obj = "step" /\ ip[T] = "incstep" /\ Ev.before = sstep /\ Ev.after = sstep + 1 /\ Op(SIncStep(T)))
\* driver events
TEnter  == Ev.e = "enter" /\ gen[T] = Ev.g - 1 /\ ip[T] \in {"lock", "loadstep"} /\ Stutter
TAction == Ev.e = "action" /\ actionRuns[Ev.g] = 1 /\ actionBy[Ev.g] = T /\ lastArriver[Ev.g] = T /\ (\A u \in 1 .. n : gen[u] < Ev.g) /\ Stutter
TLeave  == Ev.e = "leave" /\ gen[T] = Ev.g /\ actionRuns[Ev.g] = 1 /\ (\A u \in 1 .. n : arrivals[u] >= Ev.g) /\ Stutter
TEnd    == Ev.e = "end" /\ AllDone /\ Ev.deadlock = FALSE /\ Ev.problems = 0 /\ Stutter

Inv == NoEarlyLeave /\ ActionOnce /\ ActionBeforeRelease /\ ActionByLast
TInit == Init /\ l = 1
TNext == l <= TraceLen /\ (TStart \/ TLock \/ TCvWait \/ TNotify \/ TUnlock \/ TLoad \/ TRmw \/ TEnter \/ TAction \/ TLeave \/ TEnd) /\ l' = l + 1 /\ Inv'
TraceSpec == TInit /\ [][TNext]_<<vars, l>>
Progress == TrackProgress(l)
Report == ReportResult
=============================================================================
