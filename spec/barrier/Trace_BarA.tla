----------------------------- MODULE Trace_BarA -----------------------------
(***************************************************************************)
(* C11 -- property-level trace specification for the barriers (verdict):    *)
(* only the driver's enter / action / leave events and the final summary    *)
(* are judged, nothing about mutexes or atomics.                            *)
(*   - no leave(t, g) before every participant did enter(., g);             *)
(*   - exactly one action per generation, run by a participant that has     *)
(*     entered g, before any leave(., g);                                   *)
(*   - every thread gets through all G generations (reusable, terminates).  *)
(* "by the last arriver" is only observable at the level of the barrier's   *)
(* internal arrival order and is judged by Trace_Bar (BarrierI).            *)
(***************************************************************************)
EXTENDS Integers, Sequences, FiniteSets, TraceIO
VARIABLES n, gmax, entered, left, actions, l
vars == <<n, gmax, entered, left, actions>>
Ev == TraceLog[l]
Ignored == {"lock", "unlock", "cvwait", "notify_all", "load", "rmw"}
T == Ev.t
Step ==
    CASE Ev.e = "reset" -> /\ n' = Ev.n /\ gmax' = Ev.g
                           /\ entered' = [t \in 1 .. Ev.n |-> 0] /\ left' = [t \in 1 .. Ev.n |-> 0] /\ actions' = [g \in 1 .. Ev.g |-> 0]
      [] Ev.e = "enter" -> /\ entered[T] = Ev.g - 1 /\ left[T] = Ev.g - 1
                           /\ entered' = [entered EXCEPT ![T] = Ev.g] /\ UNCHANGED <<n, gmax, left, actions>>
      [] Ev.e = "action" -> /\ actions[Ev.g] = 0 /\ entered[T] = Ev.g /\ left[T] = Ev.g - 1
                            /\ \A u \in 1 .. n : entered[u] >= Ev.g /\ left[u] < Ev.g
                            /\ actions' = [actions EXCEPT ![Ev.g] = 1] /\ UNCHANGED <<n, gmax, entered, left>>
      [] Ev.e = "leave" -> /\ entered[T] = Ev.g /\ left[T] = Ev.g - 1
                           /\ \A u \in 1 .. n : entered[u] >= Ev.g
                           /\ actions[Ev.g] = 1
                           /\ left' = [left EXCEPT ![T] = Ev.g] /\ UNCHANGED <<n, gmax, entered, actions>>
      [] Ev.e = "end" -> /\ \A u \in 1 .. n : left[u] = gmax
                         /\ Ev.deadlock = FALSE /\ Ev.problems = 0 /\ UNCHANGED vars
      [] Ev.e \in Ignored -> UNCHANGED vars
      [] OTHER -> FALSE
TInit == n = 0 /\ gmax = 0 /\ entered = <<>> /\ left = <<>> /\ actions = <<>> /\ l = 1
TNext == l <= TraceLen /\ Step /\ l' = l + 1
TraceSpec == TInit /\ [][TNext]_<<vars, l>>
Progress == TrackProgress(l)
Report == ReportResult
=============================================================================
