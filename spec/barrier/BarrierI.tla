------------------------------ MODULE BarrierI ------------------------------
(***************************************************************************)
(* C11 -- both tlx thread barriers, one action per visible synchronisation  *)
(* operation, N threads each crossing the barrier G times.                  *)
(*                                                                          *)
(* ThreadBarrierMutex::wait (thread_barrier_mutex.hpp):                     *)
(*   Lock [current = step; ++counts[current]]                               *)
(*     not last: { CvWait ; (woken) Lock [re-test counts[current] < N] }*   *)
(*               Unlock                                                     *)
(*     last:     [step = 1 - step; counts[step] = 0; action] NotifyAll ;    *)
(*               Unlock                                                     *)
(* ThreadBarrierSpin::wait (thread_barrier_spin.hpp):                       *)
(*   LoadStep [this_step = step] ; FetchAdd [waiting++]                     *)
(*     last (old = N-1): Store0 [waiting = 0] ; [action] IncStep [++step]   *)
(*     else:             SpinExit  (a load that sees step # this_step)      *)
(*                                                                          *)
(* Ghost state: arrivals[t] (generations t has arrived in), gen[t]          *)
(* (generations t has left), actionRuns[g], actionBy[g], lastArriver[g].    *)
(***************************************************************************)
EXTENDS Integers, Sequences, FiniteSets

CONSTANTS Threads,    \* 1 .. N
          G,          \* generations each thread crosses
          Kind        \* "mutex" or "spin"

VARIABLES ip, gen, arrivals, actionRuns, actionBy, lastArriver,
          \* mutex barrier
          owner, waitset, step, counts, cur,
          \* spin barrier
          sstep, waiting, mystep

vars == <<ip, gen, arrivals, actionRuns, actionBy, lastArriver, owner, waitset, step, counts, cur, sstep, waiting, mystep>>
mvars == <<owner, waitset, step, counts, cur>>
svars == <<sstep, waiting, mystep>>
N == Cardinality(Threads)

Init ==
    /\ ip = [t \in Threads |-> IF G = 0 THEN "done" ELSE IF Kind = "mutex" THEN "lock" ELSE "loadstep"]
    /\ gen = [t \in Threads |-> 0] /\ arrivals = [t \in Threads |-> 0]
    /\ actionRuns = [g \in 1 .. G |-> 0] /\ actionBy = [g \in 1 .. G |-> 0] /\ lastArriver = [g \in 1 .. G |-> 0]
    /\ owner = 0 /\ waitset = {} /\ step = 0 /\ counts = [i \in {0, 1} |-> 0] /\ cur = [t \in Threads |-> 0]
    /\ sstep = 0 /\ waiting = 0 /\ mystep = [t \in Threads |-> 0]

\* t completes wait(): one more generation left behind
Leave(t) ==
    /\ gen' = [gen EXCEPT ![t] = @ + 1]
Restart(t) == IF gen[t] + 1 >= G THEN "done" ELSE IF Kind = "mutex" THEN "lock" ELSE "loadstep"
ThisGen(t) == gen[t] + 1

\* ------------------------------------------------------------------ mutex barrier
MLockArrive(t) ==
    /\ Kind = "mutex" /\ ip[t] = "lock" /\ owner = 0
    /\ owner' = t
    /\ cur' = [cur EXCEPT ![t] = step]
    /\ arrivals' = [arrivals EXCEPT ![t] = @ + 1]
    /\ IF counts[step] + 1 < N
       THEN /\ counts' = [counts EXCEPT ![step] = @ + 1]
            /\ ip' = [ip EXCEPT ![t] = "cvwait"]
            /\ UNCHANGED <<step, actionRuns, actionBy, lastArriver>>
       ELSE \* last thread: flip the step, clear the other counter, run the action
            /\ step' = 1 - step
            /\ counts' = [counts EXCEPT ![step] = @ + 1, ![1 - step] = 0]
            /\ actionRuns' = [actionRuns EXCEPT ![ThisGen(t)] = @ + 1]
            /\ actionBy' = [actionBy EXCEPT ![ThisGen(t)] = t]
            /\ lastArriver' = [lastArriver EXCEPT ![ThisGen(t)] = t]
            /\ ip' = [ip EXCEPT ![t] = "notify"]
    /\ UNCHANGED <<gen, waitset, svars>>

MCvWait(t) ==
    /\ Kind = "mutex" /\ ip[t] = "cvwait" /\ owner = t
    /\ owner' = 0 /\ waitset' = waitset \cup {t}
    /\ ip' = [ip EXCEPT ![t] = "waiting"]
    /\ UNCHANGED <<gen, arrivals, actionRuns, actionBy, lastArriver, step, counts, cur, svars>>

MNotifyAll(t) ==
    /\ Kind = "mutex" /\ ip[t] = "notify" /\ owner = t
    /\ waitset' = {}
    /\ ip' = [x \in Threads |-> IF x = t THEN "unlock" ELSE IF x \in waitset THEN "relock" ELSE ip[x]]
    /\ UNCHANGED <<gen, arrivals, actionRuns, actionBy, lastArriver, owner, step, counts, cur, svars>>

\* a woken waiter re-acquires the mutex and re-tests its loop condition
MRelock(t) ==
    /\ Kind = "mutex" /\ ip[t] = "relock" /\ owner = 0
    /\ owner' = t
    /\ ip' = [ip EXCEPT ![t] = IF counts[cur[t]] < N THEN "cvwait" ELSE "unlock"]
    /\ UNCHANGED <<gen, arrivals, actionRuns, actionBy, lastArriver, waitset, step, counts, cur, svars>>

MUnlock(t) ==
    /\ Kind = "mutex" /\ ip[t] = "unlock" /\ owner = t
    /\ owner' = 0
    /\ Leave(t)
    /\ ip' = [ip EXCEPT ![t] = Restart(t)]
    /\ UNCHANGED <<arrivals, actionRuns, actionBy, lastArriver, waitset, step, counts, cur, svars>>

\* ------------------------------------------------------------------ spin barrier
SLoadStep(t) ==
    /\ Kind = "spin" /\ ip[t] = "loadstep"
    /\ mystep' = [mystep EXCEPT ![t] = sstep]
    /\ ip' = [ip EXCEPT ![t] = "fetchadd"]
    /\ UNCHANGED <<gen, arrivals, actionRuns, actionBy, lastArriver, mvars, sstep, waiting>>

SFetchAdd(t) ==
    /\ Kind = "spin" /\ ip[t] = "fetchadd"
    /\ waiting' = waiting + 1
    /\ arrivals' = [arrivals EXCEPT ![t] = @ + 1]
    /\ IF waiting = N - 1
       THEN ip' = [ip EXCEPT ![t] = "store0"] /\ lastArriver' = [lastArriver EXCEPT ![ThisGen(t)] = t]
       ELSE ip' = [ip EXCEPT ![t] = "spin"] /\ UNCHANGED lastArriver
    /\ UNCHANGED <<gen, actionRuns, actionBy, mvars, sstep, mystep>>

\* waiting_.store(0), then the action runs (not a visible operation), then ...
SStore0(t) ==
    /\ Kind = "spin" /\ ip[t] = "store0"
    /\ waiting' = 0
    /\ actionRuns' = [actionRuns EXCEPT ![ThisGen(t)] = @ + 1]
    /\ actionBy' = [actionBy EXCEPT ![ThisGen(t)] = t]
    /\ ip' = [ip EXCEPT ![t] = "incstep"]
    /\ UNCHANGED <<gen, arrivals, lastArriver, mvars, sstep, mystep>>

\* ... step_.fetch_add(1) releases the spinners
SIncStep(t) ==
    /\ Kind = "spin" /\ ip[t] = "incstep"
    /\ sstep' = sstep + 1
    /\ Leave(t)
    /\ ip' = [ip EXCEPT ![t] = Restart(t)]
    /\ UNCHANGED <<arrivals, actionRuns, actionBy, lastArriver, mvars, waiting, mystep>>

\* the spin loop is an await: only a load that sees a new step value changes the state
SSpinExit(t) ==
    /\ Kind = "spin" /\ ip[t] = "spin" /\ sstep # mystep[t]
    /\ Leave(t)
    /\ ip' = [ip EXCEPT ![t] = Restart(t)]
    /\ UNCHANGED <<arrivals, actionRuns, actionBy, lastArriver, mvars, svars>>

Step(t) == MLockArrive(t) \/ MCvWait(t) \/ MNotifyAll(t) \/ MRelock(t) \/ MUnlock(t)
           \/ SLoadStep(t) \/ SFetchAdd(t) \/ SStore0(t) \/ SIncStep(t) \/ SSpinExit(t)
Next == \E t \in Threads : Step(t)
Spec == Init /\ [][Next]_vars /\ WF_vars(Next)

(***************************************************************************)
(* The property                                                             *)
(***************************************************************************)
\* no thread leaves generation g before all participants have arrived in it
NoEarlyLeave == \A t, u \in Threads : gen[t] <= arrivals[u]
\* the action runs exactly once per generation, by the last arriver, before anyone is released
ActionOnce == \A g \in 1 .. G : actionRuns[g] <= 1
ActionBeforeRelease == \A g \in 1 .. G : (\E t \in Threads : gen[t] >= g) => actionRuns[g] = 1
ActionByLast == \A g \in 1 .. G : actionRuns[g] = 1 => actionBy[g] = lastArriver[g]
\* nobody runs ahead by more than one generation
NoOvertake == \A t, u \in Threads : arrivals[t] <= arrivals[u] + 1
AllDone == \A t \in Threads : ip[t] = "done"
\* reusable for every generation: every thread gets through all G crossings
Reusable == <>AllDone
=============================================================================
