------------------------------- MODULE Gen_Bar -------------------------------
\* C11 -- emits every complete behaviour of BarrierI as the sequence of threads performing the visible operations
EXTENDS BarrierI, TLC, Json
VARIABLE h
gvars == <<vars, h>>
GInit == Init /\ h = <<>>
GNext == \E t \in Threads : Step(t) /\ h' = Append(h, t)
GenSpec == GInit /\ [][GNext]_gvars
Emit == AllDone => PrintT(<<"@@GEN@@", ToJson([n |-> N, g |-> G, kind |-> Kind, order |-> h])>>)
=============================================================================
