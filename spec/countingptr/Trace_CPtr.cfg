CONSTANTS BaseH = {1, 2, 3}
          DerivedH = {4, 5}
          MaxObj = 5
SPECIFICATION TraceSpec
INVARIANT TypeOK
CONSTRAINT Progress
POSTCONDITION Report
CHECK_DEADLOCK FALSE
