CONSTANTS Threads = {0,1,2,3}
          MaxLen = 8
SPECIFICATION TraceSpec
INVARIANT Inv
CONSTRAINT Progress
POSTCONDITION Report
CHECK_DEADLOCK FALSE
