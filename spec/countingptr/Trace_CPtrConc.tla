--------------------------- MODULE Trace_CPtrConc ---------------------------
(***************************************************************************)
(* C12 -- trace specification for concurrent CountingPtr executions under   *)
(* the scheduler shim (harness/drv_cptr_conc.cpp).  Events are the visible  *)
(* operations on the reference counter in the order they took effect, as    *)
(* reported by the shim's observer, plus the deleter call and a final       *)
(* summary.                                                                 *)
(***************************************************************************)
EXTENDS CPtrConc, TraceIO
VARIABLE l
tvars == <<vars, l>>
Ev == TraceLog[l]

TStart ==
    /\ Ev.e = "reset"
    /\ prog' = [t \in Threads |-> IF t + 1 <= Len(Ev.prog) THEN Ev.prog[t + 1] ELSE <<>>]
    /\ pc' = [t \in Threads |-> 1]
    /\ held' = [t \in Threads |-> IF t + 1 <= Len(Ev.prog) THEN 1 ELSE 0]
    /\ rc' = Len(Ev.prog) /\ alive' = TRUE /\ mustDelete' = -1 /\ ndeleted' = 0 /\ touchedDead' = FALSE
TInc    == Ev.e = "inc" /\ Ev.before = rc /\ Ev.after = rc + 1 /\ Inc(Ev.t)
TDec    == Ev.e = "dec" /\ Ev.before = rc /\ Ev.after = rc - 1 /\ Dec(Ev.t)
TDelete == Ev.e = "delete" /\ Delete(Ev.t)
\* end of the execution: everything released, destroyed exactly once, no problem reported by the shim
TEnd    == Ev.e = "end" /\ AllDone /\ ~alive /\ ndeleted = 1 /\ Ev.dtors = 1 /\ Ev.problems = 0 /\ Ev.deadlock = FALSE /\ UNCHANGED vars

TInit == prog = <<>> /\ pc = <<>> /\ held = <<>> /\ rc = 0 /\ alive = FALSE /\ mustDelete = -1 /\ ndeleted = 0 /\ touchedDead = FALSE /\ l = 1
TNext == l <= TraceLen /\ (TStart \/ TInc \/ TDec \/ TDelete \/ TEnd) /\ l' = l + 1
TraceSpec == TInit /\ [][TNext]_tvars
Inv == (l > 1 /\ prog # <<>>) => (DeletedOnce /\ NoTouchAfterDelete)
Progress == TrackProgress(l)
Report == ReportResult
=============================================================================
