---------------------------- MODULE Gen_CPtrConc ----------------------------
\* C12 -- emits every complete interleaving (thread id per counted operation) of CPtrConc for the given programs
EXTENDS CPtrConc, TLC, Json
VARIABLE h
gvars == <<vars, h>>
GInit == Init /\ h = <<>>
GNext == \E t \in Threads : \/ ((Inc(t) \/ Dec(t)) /\ h' = Append(h, t))
                             \/ (Delete(t) /\ h' = h)          \* the deleter call is not a scheduling point
GenSpec == GInit /\ [][GNext]_gvars
ProgSeq == [i \in 1 .. Cardinality(Threads) |-> prog[i - 1]]
Emit == AllDone => PrintT(<<"@@GEN@@", ToJson([prog |-> ProgSeq, order |-> h])>>)
=============================================================================
