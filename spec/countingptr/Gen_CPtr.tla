------------------------------ MODULE Gen_CPtr ------------------------------
\* transition generator for CPtrA (idiom: ringbuffer/Gen_Ring.tla)
EXTENDS CPtrA, TLC, Json
VARIABLE op
gvars == <<ptr, op>>
Op(o, a, b) == [o |-> o, a |-> a, b |-> b]
GInit == Init /\ op = Op("init", 0, 0)
GNext ==
    \E a \in Handles :
       \/ (New(a) /\ op' = Op("new", a, 0))
       \/ (Reset(a) /\ op' = Op("reset_handle", a, 0))
       \/ (Unify(a) /\ op' = Op("unify", a, 0))
       \/ \E b \in Handles : \/ (CopyAssign(a, b) /\ op' = Op("copy_assign", a, b))
                             \/ (MoveAssign(a, b) /\ op' = Op("move_assign", a, b))
                             \/ (CopyConstruct(a, b) /\ op' = Op("copy_construct", a, b))
                             \/ (MoveConstruct(a, b) /\ op' = Op("move_construct", a, b))
                             \/ (Swap(a, b) /\ op' = Op("swap", a, b))
                             \/ (AssignObject(a, b) /\ op' = Op("assign_object", a, b))
GenSpec == GInit /\ [][GNext]_gvars
View == ptr
Edge == PrintT(<<"@@GEN@@", ToJson([f |-> ToString(ptr), o |-> op', t |-> ToString(ptr')])>>)
=============================================================================
