-------------------------------- MODULE CPtrA --------------------------------
(***************************************************************************)
(* C12 -- property-level specification of tlx::CountingPtr handles.         *)
(*                                                                          *)
(* Handles (variables of type CountingPtr<Base> and CountingPtr<Derived>)   *)
(* point to an object id or to Null.  The whole property is the derived     *)
(* state: an object is alive iff some handle points to it, its reference    *)
(* count is the number of such handles, and it is destroyed (exactly once)  *)
(* in the very step in which that number drops to zero.  Object ids are     *)
(* recycled (smallest id not alive) so that the state space is finite; the  *)
(* driver numbers objects the same way.                                     *)
(***************************************************************************)
EXTENDS Integers, FiniteSets

CONSTANTS BaseH,      \* handles of type CountingPtr<Base>
          DerivedH,   \* handles of type CountingPtr<Derived>
          MaxObj      \* object ids 1 .. MaxObj

VARIABLE ptr          \* [Handles -> 0 .. MaxObj], 0 = Null

Handles == BaseH \cup DerivedH
Null == 0
Live(p) == {p[h] : h \in Handles} \ {Null}
Count(p, o) == Cardinality({h \in Handles : p[h] = o})
FreshId(p) == CHOOSE o \in 1 .. MaxObj : o \notin Live(p) /\ \A q \in 1 .. MaxObj : (q \notin Live(p)) => o <= q
CanAllocate(p) == \E o \in 1 .. MaxObj : o \notin Live(p)
\* b's static type converts to a's: Derived -> Base or same
Converts(a, b) == (b \in DerivedH) \/ (a \in BaseH)

Init == ptr = [h \in Handles |-> Null]

\* a = CountingPtr<T>(new T)   (the new object exists before a's old one is released)
New(a) == CanAllocate(ptr) /\ ptr' = [ptr EXCEPT ![a] = FreshId(ptr)]
\* a = b (copy assignment, incl. a = a and a, b already aliasing; converting when types differ)
CopyAssign(a, b) == Converts(a, b) /\ ptr' = [ptr EXCEPT ![a] = ptr[b]]
\* a = std::move(b): nothing happens when both already point to the same object
MoveAssign(a, b) ==
    /\ Converts(a, b)
    /\ IF ptr[a] = ptr[b] THEN UNCHANGED ptr
       ELSE ptr' = [ptr EXCEPT ![a] = ptr[b], ![b] = Null]
\* destroy handle a, then construct it as a copy of / by moving from b
CopyConstruct(a, b) == a # b /\ Converts(a, b) /\ ptr' = [ptr EXCEPT ![a] = ptr[b]]
MoveConstruct(a, b) == a # b /\ Converts(a, b) /\ ptr' = [ptr EXCEPT ![a] = ptr[b], ![b] = Null]
Reset(a) == ptr' = [ptr EXCEPT ![a] = Null]
Swap(a, b) == ((a \in BaseH) = (b \in BaseH)) /\ ptr' = [ptr EXCEPT ![a] = ptr[b], ![b] = ptr[a]]
\* unify(): clone iff the object is shared
Unify(a) ==
    IF ptr[a] # Null /\ Count(ptr, ptr[a]) > 1
    THEN CanAllocate(ptr) /\ ptr' = [ptr EXCEPT ![a] = FreshId(ptr)]
    ELSE UNCHANGED ptr

\* *a = *b: the managed OBJECT is assigned (ReferenceCounter::operator= must leave both reference counts alone); no handle changes
AssignObject(a, b) == ptr[a] # Null /\ ptr[b] # Null /\ Converts(a, b) /\ UNCHANGED ptr

Next ==
    \E a \in Handles :
       \/ New(a) \/ Reset(a) \/ Unify(a)
       \/ \E b \in Handles : AssignObject(a, b) \/ CopyAssign(a, b) \/ MoveAssign(a, b) \/ CopyConstruct(a, b) \/ MoveConstruct(a, b) \/ Swap(a, b)

Spec == Init /\ [][Next]_ptr

(***************************************************************************)
(* The property, as facts about every step.                                 *)
(***************************************************************************)
\* objects destroyed by a step: alive before, unreferenced after
Destroyed(p, q) == Live(p) \ Live(q)
\* an object is never destroyed while a handle still points to it, and is destroyed as soon as none does
DestroyExactlyWhenUnreferenced == [][\A o \in 1 .. MaxObj : (o \in Destroyed(ptr, ptr')) <=> (o \in Live(ptr) /\ Count(ptr', o) = 0)]_ptr
TypeOK == ptr \in [Handles -> 0 .. MaxObj]
=============================================================================
