CONSTANTS Threads = {0,1,2}
          MaxLen = 3
SPECIFICATION GenSpec
INVARIANT Emit
CHECK_DEADLOCK FALSE
