------------------------------ MODULE CPtrConc ------------------------------
(***************************************************************************)
(* C12 (concurrent half) -- several threads copy and release handles to one *)
(* shared object.  One action per visible operation of the code:            *)
(*   Inc(t)    ++reference_count_   (CountingPtr copy constructor)          *)
(*   Dec(t)    --reference_count_   (CountingPtr destructor / reset)        *)
(*   Delete(t) the deleter runs, in the thread whose decrement reached zero *)
(* Thread t executes the program Prog[t], a sequence over {"copy","drop"};  *)
(* every thread (main = 0 included) starts with one handle.  A program is   *)
(* well formed iff it never copies or drops without holding a handle.       *)
(***************************************************************************)
EXTENDS Integers, Sequences, FiniteSets

CONSTANTS Threads,      \* e.g. 0 .. 2
          MaxLen        \* bound on program length (model checking)

VARIABLES prog,         \* [Threads -> Seq({"copy","drop"})]
          pc,           \* [Threads -> next index into prog[t]]
          held,         \* [Threads -> number of handles the thread holds]
          rc,           \* value of the atomic reference counter
          alive,        \* the managed object has not been deleted
          mustDelete,   \* thread whose decrement reached zero and which has not run the deleter yet (or -1)
          ndeleted,     \* how often the deleter ran
          touchedDead   \* ghost: some operation touched the counter after the delete

vars == <<prog, pc, held, rc, alive, mustDelete, ndeleted, touchedDead>>

Ops == {"copy", "drop"}
RECURSIVE WellFormedFrom(_, _, _)
WellFormedFrom(p, i, h) ==
    IF i > Len(p) THEN TRUE
    ELSE IF h < 1 THEN FALSE
    ELSE WellFormedFrom(p, i + 1, IF p[i] = "copy" THEN h + 1 ELSE h - 1)
WellFormed(p) == WellFormedFrom(p, 1, 1)
\* programs that end with all handles released
RECURSIVE Balance(_, _)
Balance(p, i) == IF i > Len(p) THEN 1 ELSE (IF p[i] = "copy" THEN 1 ELSE -1) + Balance(p, i + 1)
Complete(p) == Balance(p, 1) = 0
Programs == {p \in UNION {[1 .. n -> Ops] : n \in 1 .. MaxLen} : WellFormed(p) /\ Complete(p)}

Init ==
    /\ prog \in [Threads -> Programs]
    /\ pc = [t \in Threads |-> 1]
    /\ held = [t \in Threads |-> 1]
    /\ rc = Cardinality(Threads)
    /\ alive = TRUE /\ mustDelete = -1 /\ ndeleted = 0 /\ touchedDead = FALSE

Cur(t) == IF pc[t] <= Len(prog[t]) THEN prog[t][pc[t]] ELSE "end"

Inc(t) ==
    /\ Cur(t) = "copy" /\ mustDelete # t
    /\ rc' = rc + 1 /\ held' = [held EXCEPT ![t] = @ + 1] /\ pc' = [pc EXCEPT ![t] = @ + 1]
    /\ touchedDead' = (touchedDead \/ ~alive)
    /\ UNCHANGED <<prog, alive, mustDelete, ndeleted>>

Dec(t) ==
    /\ Cur(t) = "drop" /\ mustDelete # t
    /\ rc' = rc - 1 /\ held' = [held EXCEPT ![t] = @ - 1]
    /\ touchedDead' = (touchedDead \/ ~alive)
    /\ IF rc - 1 = 0 THEN mustDelete' = t /\ UNCHANGED pc
       ELSE pc' = [pc EXCEPT ![t] = @ + 1] /\ UNCHANGED mustDelete
    /\ UNCHANGED <<prog, alive, ndeleted>>

Delete(t) ==
    /\ mustDelete = t
    /\ alive' = FALSE /\ ndeleted' = ndeleted + 1 /\ mustDelete' = -1
    /\ pc' = [pc EXCEPT ![t] = @ + 1]
    /\ UNCHANGED <<prog, held, rc, touchedDead>>

Next == \E t \in Threads : Inc(t) \/ Dec(t) \/ Delete(t)
Spec == Init /\ [][Next]_vars /\ WF_vars(Next)

RECURSIVE SumHeld(_)
SumHeld(S) == IF S = {} THEN 0 ELSE LET t == CHOOSE x \in S : TRUE IN held[t] + SumHeld(S \ {t})

\* the reference count equals the number of handles
CountMatches == rc = SumHeld(Threads)
\* never destroyed while a handle remains; destroyed at most once; never touched afterwards
AliveWhileHeld == (SumHeld(Threads) > 0) => alive
DeletedOnce == ndeleted <= 1
NoTouchAfterDelete == ~touchedDead
AllDone == \A t \in Threads : pc[t] > Len(prog[t])
\* ... and destroyed exactly when the last handle goes
DestroyedAtEnd == AllDone => (~alive /\ ndeleted = 1 /\ rc = 0)
EventuallyDone == <>AllDone
=============================================================================
