CONSTANTS BaseH = {1, 2, 3}
          DerivedH = {4, 5}
          MaxObj = 5
SPECIFICATION Spec
INVARIANT TypeOK
PROPERTY DestroyExactlyWhenUnreferenced
CHECK_DEADLOCK FALSE
