------------------------------ MODULE Trace_CPtr ------------------------------
(***************************************************************************)
(* C12 -- trace specification for sequential CountingPtr executions         *)
(* (harness/drv_cptr.cpp).  obs[h] = {id, count, unique} as reported by     *)
(* get(), use_count(), unique(); "live" = ids of managed objects whose      *)
(* destructor has not run; "lerr" = registry errors (double destruction,    *)
(* reference count touched after destruction).                              *)
(***************************************************************************)
EXTENDS CPtrA, TraceIO
VARIABLE l
tvars == <<ptr, l>>
Ev == TraceLog[l]

ObsOK(e) ==
    /\ \A h \in Handles :
         /\ e.obs[h].id = ptr'[h]
         /\ ptr'[h] # Null => /\ e.obs[h].count = Count(ptr', ptr'[h])
                              /\ e.obs[h].unique = (Count(ptr', ptr'[h]) = 1)
         /\ ptr'[h] = Null => e.obs[h].unique = FALSE
    /\ {e.live[i] : i \in DOMAIN e.live} = Live(ptr')      \* alive iff referenced
    /\ Len(e.live) = Cardinality(Live(ptr'))
    /\ e.lerr = 0
    \* every destruction goes through the handle's Deleter: with the logging deleter (deleter = 1) as many deleter calls as destructor runs, with the default one none
    /\ e.dcalls = (IF e.deleter = 1 THEN e.dtors ELSE 0)

Step(e) ==
    CASE e.e = "reset"          -> ptr' = [h \in Handles |-> Null]
      [] e.e = "new"            -> New(e.a)
      [] e.e = "reset_handle"   -> Reset(e.a)
      [] e.e = "unify"          -> Unify(e.a)
      [] e.e = "copy_assign"    -> CopyAssign(e.a, e.b)
      [] e.e = "move_assign"    -> MoveAssign(e.a, e.b)
      [] e.e = "copy_construct" -> CopyConstruct(e.a, e.b)
      [] e.e = "move_construct" -> MoveConstruct(e.a, e.b)
      [] e.e = "swap"           -> Swap(e.a, e.b)
      [] e.e = "assign_object"  -> AssignObject(e.a, e.b)
      [] OTHER                  -> FALSE

TInit == Init /\ l = 1
TNext == l <= TraceLen /\ Step(Ev) /\ ObsOK(Ev) /\ l' = l + 1
TraceSpec == TInit /\ [][TNext]_tvars
Progress == TrackProgress(l)
Report == ReportResult
=============================================================================
