CONSTANTS Threads = {0,1,2}
          MaxLen = 3
SPECIFICATION Spec
INVARIANTS CountMatches AliveWhileHeld DeletedOnce NoTouchAfterDelete DestroyedAtEnd
PROPERTY EventuallyDone
CHECK_DEADLOCK FALSE
