-------------------------------- MODULE MSeqA --------------------------------
(***************************************************************************)
(* C08 -- multisequence partition / selection: the mathematical definition. *)
(* seqs is a tuple of non-empty sequences of keys, each non-decreasing.     *)
(* The stable merge order sorts all elements by (key, sequence index,       *)
(* position).  Splitting at rank r puts exactly the first r elements of     *)
(* that order on the left; this single definition yields all clauses of the *)
(* property (sizes sum to r, nothing on the left is greater than anything   *)
(* on the right, ties go to lower-numbered sequences first) and makes the   *)
(* answer unique.                                                           *)
(***************************************************************************)
EXTENDS Integers, Sequences, FiniteSets

AllElems(seqs) == UNION {{<<seqs[i][p], i, p>> : p \in DOMAIN seqs[i]} : i \in DOMAIN seqs}
Before(x, y) == \/ x[1] < y[1]
                \/ (x[1] = y[1] /\ x[2] < y[2])
                \/ (x[1] = y[1] /\ x[2] = y[2] /\ x[3] < y[3])
RankOf(seqs, x) == Cardinality({y \in AllElems(seqs) : Before(y, x)})
Total(seqs) == Cardinality(AllElems(seqs))

\* the unique correct split: how many elements of sequence i are among the first `rank` of the stable merge order
ExpectedSplit(seqs, rank) ==
    [i \in DOMAIN seqs |-> Cardinality({p \in DOMAIN seqs[i] : RankOf(seqs, <<seqs[i][p], i, p>>) < rank})]

\* the three clauses, separately (for diagnosis)
SumOK(seqs, rank, split) ==
    LET RECURSIVE S(_)
        S(i) == IF i = 0 THEN 0 ELSE split[i] + S(i - 1)
    IN S(Len(seqs)) = rank
OrderOK(seqs, split) ==
    \A i, j \in DOMAIN seqs : (split[i] >= 1 /\ split[j] < Len(seqs[j])) => seqs[i][split[i]] <= seqs[j][split[j] + 1]
TieOK(seqs, split) ==
    \A i, j \in DOMAIN seqs : (i < j /\ split[j] >= 1 /\ split[i] < Len(seqs[i])) => seqs[j][split[j]] # seqs[i][split[i] + 1]
InRange(seqs, split) == \A i \in DOMAIN seqs : split[i] \in 0 .. Len(seqs[i])

PartitionOK(seqs, rank, split) ==
    /\ DOMAIN split = DOMAIN seqs /\ InRange(seqs, split)
    /\ split = ExpectedSplit(seqs, rank)

\* the three clauses as a test (cheap: no ranking of all elements) -- TLC checks on the bounded domain that they
\* characterise the expected split exactly (ClausesCharacterise in MC_MSeqA), so large inputs are judged by them
PartitionOK3(seqs, rank, split) ==
    /\ DOMAIN split = DOMAIN seqs /\ InRange(seqs, split)
    /\ SumOK(seqs, rank, split) /\ OrderOK(seqs, split) /\ TieOK(seqs, split)

\* consistency of the definition: the expected split satisfies the three clauses (checked by TLC on the bounded domain)
DefinitionConsistent(seqs, rank) ==
    LET s == ExpectedSplit(seqs, rank) IN SumOK(seqs, rank, s) /\ OrderOK(seqs, s) /\ TieOK(seqs, s)

\* selection: the key at 0-based rank of the merged order, and its offset among the equivalent keys
KeyAt(seqs, rank) == (CHOOSE x \in AllElems(seqs) : RankOf(seqs, x) = rank)[1]
SelectionOK(seqs, rank, val, offset) ==
    /\ val = KeyAt(seqs, rank)
    /\ offset = rank - Cardinality({y \in AllElems(seqs) : y[1] < val})
\* the same by counting (linear in the input)
SelectionOK2(seqs, rank, val, offset) ==
    LET lt == Cardinality({y \in AllElems(seqs) : y[1] < val})
        le == Cardinality({y \in AllElems(seqs) : y[1] <= val})
    IN lt <= rank /\ rank < le /\ offset = rank - lt
=============================================================================
