----------------------------- MODULE Trace_MSeq -----------------------------
(***************************************************************************)
(* C08 -- one event per input tuple: the split positions the real           *)
(* multisequence_partition returned for every rank 0..N and the (value,     *)
(* offset) pairs multisequence_selection returned for every rank 0..N-1;    *)
(* keys are ranks in the comparator's order (the driver maps them).         *)
(***************************************************************************)
EXTENDS MSeqA, TraceIO
VARIABLE l
Ev == TraceLog[l]
Step ==
    CASE Ev.e = "reset" -> TRUE
      [] Ev.e = "mseq" ->
            /\ Len(Ev.parts) = Total(Ev.seqs) + 1
            /\ \A r \in 0 .. Total(Ev.seqs) : PartitionOK(Ev.seqs, r, Ev.parts[r + 1])
            /\ Len(Ev.sel) = Total(Ev.seqs)
            /\ \A r \in 0 .. (Total(Ev.seqs) - 1) : SelectionOK(Ev.seqs, r, Ev.sel[r + 1][1], Ev.sel[r + 1][2])
      [] Ev.e = "mseq1" -> PartitionOK3(Ev.seqs, Ev.rank, Ev.part) /\ (Ev.rank < Total(Ev.seqs) => SelectionOK2(Ev.seqs, Ev.rank, Ev.sel[1], Ev.sel[2]))
      [] OTHER -> FALSE
TInit == l = 1
TNext == l <= TraceLen /\ Step /\ l' = l + 1
TraceSpec == TInit /\ [][TNext]_l
Progress == TrackProgress(l)
Report == ReportResult
=============================================================================
