CONSTANTS MaxM = 2
          MaxLen = 4
          Keys = {1,2,3}
          Fixed = TRUE
SPECIFICATION Spec
INVARIANT Refines
CHECK_DEADLOCK FALSE
