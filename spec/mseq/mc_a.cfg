CONSTANTS MaxM = 3
          MaxLen = 3
          Keys = {1,2,3}
SPECIFICATION Spec
INVARIANTS Consistent ClausesCharacterise SelectionDefsAgree
CHECK_DEADLOCK FALSE
