--------------------------- MODULE MSeqPartitionI ---------------------------
(***************************************************************************)
(* C08 -- transcription of tlx::multisequence_partition                     *)
(* (tlx/algorithm/multisequence_partition.hpp): padded power-of-two grid,   *)
(* sample sort, local rank, the halving refinement loop with the left       *)
(* maximum, and the skew correction through a priority queue in both        *)
(* directions.  Arrays are 0-based as in the code: a[i], b[i], seqlen[i].   *)
(*                                                                          *)
(* TLC evaluates the transcription on every input of the bounded domain and *)
(* compares with MSeqA!ExpectedSplit (the definition).  Fixed = FALSE is    *)
(* the original refinement test  comp(seq[i][middle], *lmax) ; for it TLC   *)
(* reports the smallest counterexample to the tie rule.                     *)
(***************************************************************************)
EXTENDS MSeqA

CONSTANTS MaxM, MaxLen, Keys, Fixed

VARIABLES seqs, rank

M(s) == Len(s)
SeqLen(s, i) == Len(s[i + 1])
At(s, i, p) == s[i + 1][p + 1]
Idx(s) == 0 .. (M(s) - 1)
Pow2Up(x) == IF x <= 1 THEN 1 ELSE IF x <= 2 THEN 2 ELSE IF x <= 4 THEN 4 ELSE IF x <= 8 THEN 8 ELSE IF x <= 16 THEN 16 ELSE 32
Min2(x, y) == IF x < y THEN x ELSE y
RECURSIVE SumF(_, _)
SumF(f, S) == IF S = {} THEN 0 ELSE LET x == CHOOSE y \in S : TRUE IN f[x] + SumF(f, S \ {x})

\* lexicographic<value, index>: lcomp(p, q)
LComp(p, q) == p[1] < q[1] \/ (p[1] = q[1] /\ p[2] < q[2])

\* the sample: pairs of sequences long enough, sorted by LComp, then the too-short ones in index order
RECURSIVE SortPairs(_)
SortPairs(S) == IF S = {} THEN <<>> ELSE LET x == CHOOSE y \in S : \A z \in S : z = y \/ LComp(y, z) IN <<x>> \o SortPairs(S \ {x})
RECURSIVE ShortOnes(_, _, _)
ShortOnes(s, n, i) == IF i >= M(s) THEN <<>> ELSE (IF n >= SeqLen(s, i) THEN <<<<At(s, i, 0), i>>>> ELSE <<>>) \o ShortOnes(s, n, i + 1)
Sample(s, n) == SortPairs({<<At(s, i, n), i>> : i \in {j \in Idx(s) : n < SeqLen(s, j)}}) \o ShortOnes(s, n, 0)

\* left maximum, "favor rear sequences": the last index among the maximal left-edge values; <<>> if no a[i] > 0
LMax(s, a) ==
    LET C == {i \in Idx(s) : a[i] > 0} IN
    IF C = {} THEN <<>>
    ELSE LET i == CHOOSE x \in C : (\A y \in C : At(s, y, a[y] - 1) <= At(s, x, a[x] - 1))
                                   /\ (\A y \in C : At(s, y, a[y] - 1) = At(s, x, a[x] - 1) => y <= x)
         IN <<At(s, i, a[i] - 1), i>>

\* skew > 0: move to the left, smallest (value, index) first
RECURSIVE SkewPos(_, _, _, _, _, _)
SkewPos(s, a, b, n, skew, pq) ==
    IF skew = 0 \/ pq = {} THEN <<a, b>>
    ELSE LET top == CHOOSE x \in pq : \A y \in pq : y = x \/ LComp(x, y)
             src == top[2]
             a2 == [a EXCEPT ![src] = Min2(a[src] + n + 1, SeqLen(s, src))]
             b2 == [b EXCEPT ![src] = b[src] + n + 1]
             pq2 == (pq \ {top}) \cup (IF b2[src] < SeqLen(s, src) THEN {<<At(s, src, b2[src]), src>>} ELSE {})
         IN SkewPos(s, a2, b2, n, skew - 1, pq2)
\* skew < 0: move to the right, greatest (value, index) first
RECURSIVE SkewNeg(_, _, _, _, _, _)
SkewNeg(s, a, b, n, skew, pq) ==
    IF skew = 0 THEN <<a, b>>
    ELSE LET top == CHOOSE x \in pq : \A y \in pq : y = x \/ LComp(y, x)
             src == top[2]
             a2 == [a EXCEPT ![src] = a[src] - (n + 1)]
             b2 == [b EXCEPT ![src] = b[src] - (n + 1)]
             pq2 == (pq \ {top}) \cup (IF a2[src] > 0 THEN {<<At(s, src, a2[src] - 1), src>>} ELSE {})
         IN SkewNeg(s, a2, b2, n, skew + 1, pq2)

RECURSIVE Refine(_, _, _, _, _)
Refine(s, r, a, b, nOld) ==
    IF nOld = 0 THEN a
    ELSE LET n == nOld \div 2
             lm == LMax(s, a)
             Take(i) == LET middle == (b[i] + a[i]) \div 2 IN
                        /\ lm # <<>> /\ middle < SeqLen(s, i)
                        /\ IF Fixed THEN LComp(<<At(s, i, middle), i>>, lm) ELSE At(s, i, middle) < lm[1]
             a1 == [i \in Idx(s) |-> IF Take(i) THEN Min2(a[i] + n + 1, SeqLen(s, i)) ELSE a[i]]
             b1 == [i \in Idx(s) |-> IF Take(i) THEN b[i] ELSE b[i] - (n + 1)]
             leftsize == SumF([i \in Idx(s) |-> a1[i] \div (n + 1)], Idx(s))
             skew == r \div (n + 1) - leftsize
             ab == IF skew > 0 THEN SkewPos(s, a1, b1, n, skew, {<<At(s, i, b1[i]), i>> : i \in {j \in Idx(s) : b1[j] < SeqLen(s, j)}})
                   ELSE IF skew < 0 THEN SkewNeg(s, a1, b1, n, skew, {<<At(s, i, a1[i] - 1), i>> : i \in {j \in Idx(s) : a1[j] > 0}})
                   ELSE <<a1, b1>>
         IN Refine(s, r, ab[1], ab[2], n)

PartitionI(s, r) ==
    LET N == Total(s) IN
    IF r = N THEN [i \in Idx(s) |-> SeqLen(s, i)]
    ELSE LET nmax == CHOOSE x \in {SeqLen(s, i) : i \in Idx(s)} : \A i \in Idx(s) : SeqLen(s, i) <= x
             l == Pow2Up(nmax + 1) - 1
             n == l \div 2
             smp == Sample(s, n)
             localrank == r \div l
             \* first position at which the "a += n + 1" loop stops
             J == CHOOSE j \in 0 .. M(s) : /\ (\A k \in 0 .. (j - 1) : k < localrank /\ n + 1 <= SeqLen(s, smp[k + 1][2]))
                                           /\ (j = M(s) \/ ~(j < localrank /\ n + 1 <= SeqLen(s, smp[j + 1][2])))
             PosOf(i) == CHOOSE k \in 0 .. (M(s) - 1) : smp[k + 1][2] = i
             a0 == [i \in Idx(s) |-> IF PosOf(i) < J THEN n + 1 ELSE 0]
             b0 == [i \in Idx(s) |-> IF PosOf(i) < J THEN l ELSE l - (n + 1)]
         IN Refine(s, r, a0, b0, n)

\* as a sequence indexed 1..m, like ExpectedSplit
PartitionSeq(s, r) == LET a == PartitionI(s, r) IN [i \in DOMAIN s |-> a[i - 1]]

SortedSeqs == {s \in UNION {[1 .. n -> Keys] : n \in 1 .. MaxLen} : \A i \in 1 .. (Len(s) - 1) : s[i] <= s[i + 1]}
Init == /\ seqs \in UNION {[1 .. m -> SortedSeqs] : m \in 1 .. MaxM}
        /\ rank \in 0 .. (MaxM * MaxLen)
        /\ rank <= Total(seqs)
Next == UNCHANGED <<seqs, rank>>
Spec == Init /\ [][Next]_<<seqs, rank>>

\* the transcribed algorithm computes exactly the split the definition demands
Refines == PartitionSeq(seqs, rank) = ExpectedSplit(seqs, rank)
=============================================================================
