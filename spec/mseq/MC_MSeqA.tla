------------------------------ MODULE MC_MSeqA ------------------------------
\* TLC checks the definition itself on a bounded domain: the expected split satisfies the property's three clauses
EXTENDS MSeqA
CONSTANTS MaxM, MaxLen, Keys
VARIABLES seqs, rank
SortedSeqs == {s \in UNION {[1 .. n -> Keys] : n \in 1 .. MaxLen} : \A i \in 1 .. (Len(s) - 1) : s[i] <= s[i + 1]}
Init == /\ seqs \in UNION {[1 .. m -> SortedSeqs] : m \in 1 .. MaxM}
        /\ rank \in 0 .. (MaxM * MaxLen)
        /\ rank <= Total(seqs)
Next == UNCHANGED <<seqs, rank>>
Spec == Init /\ [][Next]_<<seqs, rank>>
Consistent == DefinitionConsistent(seqs, rank)
AllSplits == {f \in [DOMAIN seqs -> 0 .. MaxLen] : \A i \in DOMAIN seqs : f[i] <= Len(seqs[i])}
ClausesCharacterise == \A f \in AllSplits : PartitionOK3(seqs, rank, f) <=> (f = ExpectedSplit(seqs, rank))
SelectionDefsAgree == rank < Total(seqs) => \A v \in Keys, o \in 0 .. (MaxM * MaxLen) : SelectionOK(seqs, rank, v, o) <=> SelectionOK2(seqs, rank, v, o)
=============================================================================
