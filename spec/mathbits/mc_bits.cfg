CONSTANT Quick = TRUE
SPECIFICATION Spec
INVARIANT Laws
CHECK_DEADLOCK FALSE
