------------------------------- MODULE MC_Bits -------------------------------
\* TLC checks laws relating the definitions of BitsA on every 8-bit word (and pairs of them where binary)
EXTENDS BitsA
CONSTANT Quick      \* TRUE: y ranges over a representative subset only
VARIABLES x, y
W == 8
Words == {<<n>> : n \in 0 .. 255}
Val(v) == v[1]
SmallWords == {<<n>> : n \in {0, 1, 2, 3, 7, 8, 15, 16, 100, 127, 128, 129, 200, 254, 255}}
Init == x \in Words /\ y \in (IF Quick THEN SmallWords ELSE Words)
Next == UNCHANGED <<x, y>>
Spec == Init /\ [][Next]_<<x, y>>
Laws ==
    /\ FromBits(Bits(x, W), W) = x
    /\ Clz(x, W) + Log2Floor(x, W) = (IF Val(x) = 0 THEN W ELSE W - 1)
    /\ Popcount(x, W) = 0 <=> Val(x) = 0
    /\ Ffs(x, W) = (IF Val(x) = 0 THEN 0 ELSE Ctz(x, W) + 1)
    /\ Val(x) > 0 => (Val(RoundDownPow2(x, W)) <= Val(x) /\ 2 * Val(RoundDownPow2(x, W)) > Val(x) /\ IsPow2(RoundDownPow2(x, W), W))
    /\ (Val(x) > 0 /\ RoundUpPow2(x, W, W - 1) # NR) => (Val(RoundUpPow2(x, W, W - 1)) >= Val(x) /\ Val(RoundUpPow2(x, W, W - 1)) < 2 * Val(x))
    /\ Val(x) > 0 => (Pow2(Log2Floor(x, W)) <= Val(x) /\ Val(x) <= Pow2(Log2Ceil(x, W)))
    /\ Bswap(Bswap(x, W), W) = x
    /\ \A s \in 0 .. 8 : Ror(Rol(x, W, s), W, s) = x /\ Popcount(Rol(x, W, s), W) = Popcount(x, W)
    /\ Val(AbsDiff(x, y)) = (IF Val(x) > Val(y) THEN Val(x) - Val(y) ELSE Val(y) - Val(x))
    /\ Val(y) > 0 => Val(DivCeil(x, Val(y))) = (Val(x) + Val(y) - 1) \div Val(y)
    /\ (Val(y) > 0 /\ RoundUp(x, Val(y), 16) # NR) => Val(RoundUp(x, Val(y), 16)) = ((Val(x) + Val(y) - 1) \div Val(y)) * Val(y)
=============================================================================
