------------------------------ MODULE Trace_Bits ------------------------------
(***************************************************************************)
(* C20 -- events recorded by harness/drv_math.cpp.                          *)
(*  "word":  one W-bit word v (limbs); every field lists what the different *)
(*           implementations (intrinsic-backed, *_template fall-back,       *)
(*           signed overload) returned -- all must equal the definition.    *)
(*  "arith": div_ceil / round_up of v by a small k; abs_diff of two words.  *)
(*  "small": signed small integers (sgn, abs_diff, div_ceil on ints).       *)
(*  "agg":   Aggregate built by add / + / += from two value lists.          *)
(***************************************************************************)
EXTENDS BitsA, TraceIO
VARIABLE l
Ev == TraceLog[l]
All(s, x) == \A i \in DOMAIN s : s[i] = x
AllOrNR(s, x) == x = NR \/ All(s, x)
Word(e) ==
    LET v == e.v  W == e.w IN
    /\ All(e.clz, Clz(v, W)) /\ All(e.ctz, Ctz(v, W)) /\ All(e.ffs, Ffs(v, W)) /\ All(e.popcount, Popcount(v, W))
    /\ All(e.log2floor, Log2Floor(v, W))
    /\ All(e.log2ceil, Log2Ceil(v, W))
    /\ All(e.ispow2, IsPow2(v, W))
    /\ All(e.ispow2_signed, IsPow2(v, W) /\ Bit(v, W - 1) = 0)
    /\ AllOrNR(e.roundup, RoundUpPow2(v, W, W - 1))
    /\ AllOrNR(e.rounddown, RoundDownPow2(v, W))
    /\ (Bit(v, W - 1) = 0 => (AllOrNR(e.roundup_signed, RoundUpPow2(v, W, W - 2)) /\ AllOrNR(e.rounddown_signed, RoundDownPow2(v, W))))
    /\ All(e.bswap, Bswap(v, W))
    /\ \A i \in DOMAIN e.rot : All(e.rot[i].rol, Rol(v, W, e.rot[i].s)) /\ All(e.rot[i].ror, Ror(v, W, e.rot[i].s))
    /\ All(e.sgn_signed, Sgn(v, W))
Arith(e) ==
    /\ \A i \in DOMAIN e.div : /\ All(e.div[i].div_ceil, DivCeil(e.v, e.div[i].k))
                               /\ AllOrNR(e.div[i].round_up, RoundUp(e.v, e.div[i].k, e.w))
    /\ \A i \in DOMAIN e.diff : All(e.diff[i].abs_diff, AbsDiff(e.v, e.diff[i].b))
Abs(x) == IF x < 0 THEN -x ELSE x
CeilDiv(a, b) == (a + b - 1) \div b
\* popcount of a byte buffer = sum of the bytes' popcounts, whatever the alignment of the buffer
Pop8(b) == Cardinality({i \in 0 .. 7 : (b \div (2 ^ i)) % 2 = 1})
RECURSIVE PopSum(_)
PopSum(s) == IF s = <<>> THEN 0 ELSE Pop8(s[1]) + PopSum(Tail(s))
PopBuf(e) == All(e.res, PopSum(e.bytes))
Small(e) ==
    /\ e.sgn = (IF e.a < 0 THEN -1 ELSE IF e.a > 0 THEN 1 ELSE 0)
    /\ e.abs_diff = Abs(e.a - e.b)
    /\ (e.a >= 0 /\ e.b > 0) => (e.div_ceil = CeilDiv(e.a, e.b) /\ e.round_up = CeilDiv(e.a, e.b) * e.b)
Agg(e) ==
    LET all == e.xs \o e.ys IN
    /\ Len(e.results) = 6 /\ e.aliases = TRUE
    /\ \A i \in DOMAIN e.results : AggOK(all, e.results[i].count, e.results[i].min, e.results[i].max, e.results[i].sum, e.results[i].nnvar) /\ e.results[i].exact = TRUE
Step ==
    CASE Ev.e = "reset" -> TRUE
      [] Ev.e = "word" -> Word(Ev)
      [] Ev.e = "arith" -> Arith(Ev)
      [] Ev.e = "small" -> Small(Ev)
      [] Ev.e = "popbuf" -> PopBuf(Ev)
      [] Ev.e = "agg" -> Agg(Ev)
      [] OTHER -> FALSE
TInit == l = 1
TNext == l <= TraceLen /\ Step /\ l' = l + 1
TraceSpec == TInit /\ [][TNext]_l
Progress == TrackProgress(l)
Report == ReportResult
=============================================================================
