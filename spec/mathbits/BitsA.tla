-------------------------------- MODULE BitsA --------------------------------
(***************************************************************************)
(* C20 -- integer helpers as mathematics on W-bit words.  TLC integers are  *)
(* 32-bit, so a word is a little-endian sequence of 16-bit limbs            *)
(* (W = 8 and 16: one limb; 32: two; 64: four).  Bit-level functions are    *)
(* defined on the set of set bit positions, arithmetic ones by schoolbook   *)
(* limb arithmetic with small second operands.  "Not representable" is the  *)
(* value NR: the property only constrains results that fit the result type. *)
(***************************************************************************)
EXTENDS Integers, Sequences, FiniteSets

B == 65536
NR == <<-1>>
Pow2(k) == 2 ^ k
NL(W) == IF W <= 16 THEN 1 ELSE W \div 16
Bit(v, i) == (v[(i \div 16) + 1] \div Pow2(i % 16)) % 2
Bits(v, W) == {i \in 0 .. (W - 1) : Bit(v, i) = 1}
SetMax(S) == CHOOSE x \in S : \A y \in S : y <= x
SetMin(S) == CHOOSE x \in S : \A y \in S : x <= y
\* word from a set of bit positions
RECURSIVE SumPow(_)
SumPow(S) == IF S = {} THEN 0 ELSE LET x == CHOOSE y \in S : TRUE IN Pow2(x) + SumPow(S \ {x})
FromBits(S, W) == [l \in 1 .. NL(W) |-> SumPow({i - 16 * (l - 1) : i \in {j \in S : j \div 16 = l - 1}})]
IsZero(v) == \A l \in DOMAIN v : v[l] = 0

Clz(v, W) == IF Bits(v, W) = {} THEN W ELSE W - 1 - SetMax(Bits(v, W))
Ctz(v, W) == IF Bits(v, W) = {} THEN W ELSE SetMin(Bits(v, W))
Ffs(v, W) == IF Bits(v, W) = {} THEN 0 ELSE SetMin(Bits(v, W)) + 1
Popcount(v, W) == Cardinality(Bits(v, W))
Log2Floor(v, W) == IF Bits(v, W) = {} THEN 0 ELSE SetMax(Bits(v, W))
IsPow2(v, W) == Cardinality(Bits(v, W)) = 1
\* smallest power of two >= v, for v >= 1; limit = highest bit position the result type can hold
RoundUpPow2(v, W, limit) ==
    IF Bits(v, W) = {} THEN NR            \* 0 has no power of two above it that the function documents: not constrained
    ELSE IF IsPow2(v, W) THEN v
    ELSE IF SetMax(Bits(v, W)) + 1 > limit THEN NR
    ELSE FromBits({SetMax(Bits(v, W)) + 1}, W)
\* ceil(log2 v) for v >= 1
Log2Ceil(v, W) == IF Bits(v, W) = {} THEN 0 ELSE IF IsPow2(v, W) THEN SetMax(Bits(v, W)) ELSE SetMax(Bits(v, W)) + 1
\* largest power of two <= v, for v >= 1
RoundDownPow2(v, W) == IF Bits(v, W) = {} THEN NR ELSE FromBits({SetMax(Bits(v, W))}, W)
\* byte swap: byte b moves to byte W/8 - 1 - b
Bswap(v, W) == FromBits({8 * ((W \div 8) - 1 - (i \div 8)) + (i % 8) : i \in Bits(v, W)}, W)
Rol(v, W, s) == FromBits({(i + s) % W : i \in Bits(v, W)}, W)
Ror(v, W, s) == FromBits({(i + W - (s % W)) % W : i \in Bits(v, W)}, W)

(***************************************************************************)
(* limb arithmetic with a small second operand 1 <= k < 2^15                *)
(***************************************************************************)
\* (quotient limbs, remainder) of v / k, most significant limb first
RECURSIVE DivFrom(_, _, _, _)
DivFrom(v, k, l, rem) ==          \* processes limb l down to 1; returns <<quotient as function on 1..l, remainder>>
    IF l = 0 THEN <<<<>>, rem>>
    ELSE LET cur == rem * B + v[l]
             rest == DivFrom(v, k, l - 1, cur % k)
         IN <<Append(rest[1], cur \div k), rest[2]>>
\* DivFrom builds the quotient with the most significant limb *last appended*; since recursion appends after
\* descending, position p of the result holds limb p (little endian)
DivSmall(v, k) == DivFrom(v, k, Len(v), 0)
RECURSIVE AddSmall(_, _, _)
AddSmall(v, c, l) == IF l > Len(v) THEN (IF c = 0 THEN v ELSE NR)
                     ELSE LET t == v[l] + c IN AddSmall([v EXCEPT ![l] = t % B], t \div B, l + 1)
RECURSIVE MulSmall(_, _, _, _)
MulSmall(v, k, l, c) == IF l > Len(v) THEN (IF c = 0 THEN v ELSE NR)
                        ELSE LET t == v[l] * k + c IN MulSmall([v EXCEPT ![l] = t % B], k, l + 1, t \div B)
DivCeil(v, k) == LET d == DivSmall(v, k) IN IF d[2] = 0 THEN d[1] ELSE AddSmall(d[1], 1, 1)
\* ceil(v / k) * k, NR if it does not fit W bits (for W = 8 the single limb must stay below 256)
Fits(v, W) == v # NR /\ (W >= 16 \/ v[1] < Pow2(W))
RoundUp(v, k, W) == LET q == DivCeil(v, k) IN IF q = NR THEN NR ELSE LET p == MulSmall(q, k, 1, 0) IN IF Fits(p, W) THEN p ELSE NR
\* |a - b| on unsigned words
LessW(a, b) == \E l \in DOMAIN a : a[l] < b[l] /\ \A m \in DOMAIN a : m > l => a[m] = b[m]
RECURSIVE SubW(_, _, _, _)
SubW(a, b, l, borrow) == IF l > Len(a) THEN a
                         ELSE LET t == a[l] - b[l] - borrow IN SubW([a EXCEPT ![l] = (t + B) % B], b, l + 1, IF t < 0 THEN 1 ELSE 0)
AbsDiff(a, b) == IF LessW(a, b) THEN SubW(b, a, 1, 0) ELSE SubW(a, b, 1, 0)
\* signum of a W-bit two's complement word
Sgn(v, W) == IF IsZero(v) THEN 0 ELSE IF Bit(v, W - 1) = 1 THEN -1 ELSE 1

(***************************************************************************)
(* Aggregate: exact integer facts about a bag of small integers             *)
(***************************************************************************)
RECURSIVE SeqSum(_)
SeqSum(s) == IF s = <<>> THEN 0 ELSE s[1] + SeqSum(Tail(s))
SeqSumSq(s) == SeqSum([i \in DOMAIN s |-> s[i] * s[i]])
AggOK(vals, cnt, mn, mx, sum, nnvar) ==
    /\ cnt = Len(vals)
    /\ Len(vals) > 0 => /\ mn = SetMin({vals[i] : i \in DOMAIN vals}) /\ mx = SetMax({vals[i] : i \in DOMAIN vals})
                        /\ sum = SeqSum(vals)
    \* n (n - 1) var = n * sum of squares - (sum)^2
    /\ Len(vals) > 1 => nnvar = Len(vals) * SeqSumSq(vals) - SeqSum(vals) * SeqSum(vals)
=============================================================================
