------------------------------- MODULE MC_StrA -------------------------------
\* TLC checks the round-trip and consistency laws of the definitions on every string / vector of a bounded domain
EXTENDS StrA
CONSTANTS Bytes, MaxLen
VARIABLES s, t
Strs == UNION {[1 .. n -> Bytes] : n \in 0 .. MaxLen}
Init == s \in Strs /\ t \in Strs
Next == UNCHANGED <<s, t>>
Spec == Init /\ [][Next]_<<s, t>>
Sep == <<44>>
NoSep(x) == \A i \in DOMAIN x : x[i] # 44
Laws ==
    /\ \A w \in {0, 4, 8} : Base64Dec(Base64Enc(s, w)) = s
    /\ Len(Base64Enc(s, 0)) = 4 * ((Len(s) + 2) \div 3)
    /\ Len(HexEnc(s, TRUE)) = 2 * Len(s) /\ ToLower(HexEnc(s, TRUE)) = HexEnc(s, FALSE)
    /\ (NoSep(s) /\ NoSep(t)) => Split(Sep, Join(Sep, <<s, t>>), -1) = <<s, t>>
    /\ Join(Sep, Split(Sep, s, -1)) = s
    /\ \A lim \in 1 .. 3 : Join(Sep, Split(Sep, s, lim)) = s /\ Len(Split(Sep, s, lim)) <= lim
    /\ t # <<>> => (ReplaceAll(s, t, t) = s /\ (~Occurs(s, t) => ReplaceFirst(s, t, <<1>>) = s))
    /\ Trim(s, t) = TrimLeft(TrimRight(s, t), t)
    /\ CompareIcase(s, t) = -CompareIcase(t, s)
    /\ Levenshtein(s, t) = Levenshtein(t, s) /\ (Levenshtein(s, t) = 0 <=> s = t) /\ Levenshtein(s, t) <= Max2(Len(s), Len(t))
=============================================================================
