------------------------------ MODULE Trace_Str ------------------------------
(***************************************************************************)
(* C19 -- events recorded by harness/drv_str.cpp.  "str": everything the    *)
(* unary / binary helpers returned for a pair of byte strings (s, t); "vec":*)
(* join / split / join_quoted / split_quoted on a vector of strings.  An    *)
(* exception is logged as the one-element result <<-2>> (<<<<-2>>>> for a   *)
(* vector result).                                                          *)
(***************************************************************************)
EXTENDS StrA, TraceIO
VARIABLE l
Ev == TraceLog[l]
Exc == <<-2>>
WS == <<32, 13, 10, 9>>
Sg(x) == IF x < 0 THEN -1 ELSE IF x > 0 THEN 1 ELSE 0
All(r, x) == \A i \in DOMAIN r : r[i] = x

Str(e) ==
    LET s == e.s  t == e.t IN
    \* codecs: equal to the RFC encoding, and decoding inverts it, for every line-break width
    /\ \A i \in DOMAIN e.b64 : e.b64[i].enc = Base64Enc(s, e.b64[i].w) /\ e.b64[i].dec = s /\ e.b64[i].dec_def = Base64Dec(e.b64[i].enc)
    /\ e.hex_u = HexEnc(s, TRUE) /\ e.hex_l = HexEnc(s, FALSE) /\ e.parse_u = s /\ e.parse_l = s
    /\ All(e.to_lower, ToLower(s)) /\ All(e.to_upper, ToUpper(s))
    /\ All(e.trim, Trim(s, t)) /\ All(e.trim_left, TrimLeft(s, t)) /\ All(e.trim_right, TrimRight(s, t))
    /\ All(e.trim_ws, Trim(s, WS)) /\ All(e.trim_left_ws, TrimLeft(s, WS)) /\ All(e.trim_right_ws, TrimRight(s, WS))
    /\ All(e.erase_all, EraseAll(s, t))
    /\ (t # <<>> => /\ All(e.replace_first, ReplaceFirst(s, t, <<88, 89>>)) /\ All(e.replace_all, ReplaceAll(s, t, <<88, 89>>))
                    /\ All(e.replace_all_del, ReplaceAll(s, t, <<>>)))
    /\ (Len(t) = 1 => /\ All(e.trim_c, Trim(s, t)) /\ All(e.erase_c, EraseAll(s, t))
                      /\ All(e.replace_first_c, ReplaceFirst(s, t, <<88>>)) /\ All(e.replace_all_c, ReplaceAll(s, t, <<88>>))
                      /\ e.contains_c = Occurs(s, t)
                      /\ \A i \in DOMAIN e.split_c : e.split_c[i].parts = Split(t, s, e.split_c[i].limit))
    /\ All(e.starts, StartsWith(s, t)) /\ All(e.ends, EndsWith(s, t)) /\ e.contains = Occurs(s, t)
    /\ All(e.starts_icase, StartsWith(ToLower(s), ToLower(t))) /\ All(e.ends_icase, EndsWith(ToLower(s), ToLower(t)))
    /\ \A i \in DOMAIN e.compare_icase : Sg(e.compare_icase[i]) = CompareIcase(s, t)
    /\ All(e.equal_icase, CompareIcase(s, t) = 0) /\ All(e.less_icase, CompareIcase(s, t) < 0)
    /\ All(e.lev, Levenshtein(s, t)) /\ All(e.lev_icase, Levenshtein(ToLower(s), ToLower(t)))
    /\ \A i \in DOMAIN e.pad : e.pad[i].r = PadTo(s, e.pad[i].len, 46)
    /\ \A i \in DOMAIN e.split_s : e.split_s[i].parts = Split(t, s, e.split_s[i].limit)
    /\ \A i \in DOMAIN e.split_min : e.split_min[i].parts = SplitMin(t, s, e.split_min[i].minf, e.split_min[i].limit)

Vec(e) ==
    /\ All(e.join, Join(e.glue, e.parts))
    /\ e.split_back = Split(e.glue, Join(e.glue, e.parts), -1)
    \* join then split returns the parts when the list is non-empty and the glue neither occurs in nor straddles the parts
    /\ (e.parts # <<>> /\ e.glue # <<>> /\ Split(e.glue, Join(e.glue, e.parts), -1) = e.parts) => e.split_back = e.parts
    \* join_quoted / split_quoted invert each other (separator ',', quote '"', escape '\')
    /\ e.quoted_back = e.parts
    /\ e.quoted_back_default = e.parts

Step ==
    CASE Ev.e = "reset" -> TRUE
      [] Ev.e = "str" -> Str(Ev)
      [] Ev.e = "vec" -> Vec(Ev)
      [] OTHER -> FALSE
TInit == l = 1
TNext == l <= TraceLen /\ Step /\ l' = l + 1
TraceSpec == TInit /\ [][TNext]_l
Progress == TrackProgress(l)
Report == ReportResult
=============================================================================
