CONSTANTS Bytes = {44, 65, 97}
          MaxLen = 3
SPECIFICATION Spec
INVARIANT Laws
CHECK_DEADLOCK FALSE
