--------------------------------- MODULE StrA ---------------------------------
(***************************************************************************)
(* C19 -- string codecs and helpers as definitions on sequences of bytes    *)
(* (integers 0..255).  The codecs follow RFC 4648 (base64 alphabet, '='     *)
(* padding) and plain two-digit hexadecimal; the helpers follow the         *)
(* documentation in tlx/string/*.hpp.                                       *)
(***************************************************************************)
EXTENDS Integers, Sequences, FiniteSets

Min2(a, b) == IF a < b THEN a ELSE b
Max2(a, b) == IF a > b THEN a ELSE b
RECURSIVE Flatten(_)
Flatten(ss) == IF ss = <<>> THEN <<>> ELSE Head(ss) \o Flatten(Tail(ss))
Match(h, n, i) == i + Len(n) <= Len(h) /\ \A k \in 1 .. Len(n) : h[i + k] = n[k]      \* n occurs in h at 0-based offset i
Occurs(h, n) == \E i \in 0 .. Len(h) : Match(h, n, i)

(************************ base64, RFC 4648 *********************************)
B64Alphabet == <<65,66,67,68,69,70,71,72,73,74,75,76,77,78,79,80,81,82,83,84,85,86,87,88,89,90,
                 97,98,99,100,101,102,103,104,105,106,107,108,109,110,111,112,113,114,115,116,117,118,119,120,121,122,
                 48,49,50,51,52,53,54,55,56,57,43,47>>
B64(i) == B64Alphabet[i + 1]
Pad == 61     \* '='
NL == 10
\* one group of 1..3 bytes -> 4 characters
Group(g) ==
    LET b1 == g[1]  b2 == IF Len(g) >= 2 THEN g[2] ELSE 0  b3 == IF Len(g) >= 3 THEN g[3] ELSE 0 IN
    <<B64(b1 \div 4), B64((b1 % 4) * 16 + b2 \div 16),
      IF Len(g) >= 2 THEN B64((b2 % 16) * 4 + b3 \div 64) ELSE Pad,
      IF Len(g) >= 3 THEN B64(b3 % 64) ELSE Pad>>
RECURSIVE EncFrom(_, _, _, _)
\* data from 1-based position p on; linelen = characters on the current line; w = line break width (0: none)
EncFrom(d, p, linelen, w) ==
    IF p > Len(d) THEN <<>>
    ELSE LET g == SubSeq(d, p, Min2(p + 2, Len(d)))
             brk == Len(g) = 3 /\ w > 0 /\ linelen + 4 >= w
         IN Group(g) \o (IF brk THEN <<NL>> ELSE <<>>) \o EncFrom(d, p + 3, IF brk THEN 0 ELSE linelen + 4, w)
Base64Enc(d, w) == EncFrom(d, 1, 0, w)
\* decoding: whitespace and '=' are skipped; four 6-bit digits -> three bytes, a trailing partial quadruple yields its complete bytes
B64Value(c) == IF \E i \in 0 .. 63 : B64(i) = c THEN CHOOSE i \in 0 .. 63 : B64(i) = c ELSE -1
Digits(s) == SelectSeq([i \in DOMAIN s |-> B64Value(s[i])], LAMBDA v : v >= 0)
RECURSIVE DecDigits(_)
DecDigits(q) ==
    IF Len(q) < 2 THEN <<>>
    ELSE <<q[1] * 4 + q[2] \div 16>>
         \o (IF Len(q) >= 3 THEN <<(q[2] % 16) * 16 + q[3] \div 4>> ELSE <<>>)
         \o (IF Len(q) >= 4 THEN <<(q[3] % 4) * 64 + q[4]>> \o DecDigits(SubSeq(q, 5, Len(q))) ELSE <<>>)
Base64Dec(s) == DecDigits(Digits(s))

(************************ hexdump ******************************************)
HexDigit(v, upper) == IF v < 10 THEN 48 + v ELSE (IF upper THEN 55 ELSE 87) + v
HexEnc(d, upper) == Flatten([i \in DOMAIN d |-> <<HexDigit(d[i] \div 16, upper), HexDigit(d[i] % 16, upper)>>])

(************************ join / split *************************************)
RECURSIVE Join(_, _)
Join(glue, parts) == IF parts = <<>> THEN <<>> ELSE IF Len(parts) = 1 THEN parts[1] ELSE parts[1] \o glue \o Join(glue, Tail(parts))
\* split at every occurrence of the non-empty separator, scanning left to right, at most `limit` parts (limit 0: none; -1: unlimited)
RECURSIVE SplitFrom(_, _, _, _, _)
SplitFrom(sep, s, start, i, limit) ==       \* start: 0-based begin of the current part, i: scan position, limit: parts still allowed (-1 unlimited)
    IF limit = 1 \/ i + Len(sep) > Len(s) THEN <<SubSeq(s, start + 1, Len(s))>>
    ELSE IF Match(s, sep, i) THEN <<SubSeq(s, start + 1, i)>> \o SplitFrom(sep, s, i + Len(sep), i + Len(sep), IF limit = -1 THEN -1 ELSE limit - 1)
    ELSE SplitFrom(sep, s, start, i + 1, limit)
Split(sep, s, limit) ==
    IF limit = 0 THEN <<>>
    ELSE IF sep = <<>> THEN [i \in 1 .. Len(s) |-> <<s[i]>>]          \* documented special case: every character on its own
    ELSE SplitFrom(sep, s, 0, 0, limit)
SplitMin(sep, s, minf, limit) == LET r == Split(sep, s, limit) IN r \o [i \in 1 .. (minf - Len(r)) |-> <<>>]

(************************ replace ******************************************)
RECURSIVE ReplaceAllFrom(_, _, _, _)
ReplaceAllFrom(s, needle, instead, i) ==
    IF i >= Len(s) THEN <<>>
    ELSE IF Match(s, needle, i) THEN instead \o ReplaceAllFrom(s, needle, instead, i + Len(needle))
    ELSE <<s[i + 1]>> \o ReplaceAllFrom(s, needle, instead, i + 1)
ReplaceAll(s, needle, instead) == ReplaceAllFrom(s, needle, instead, 0)
ReplaceFirst(s, needle, instead) ==
    IF ~Occurs(s, needle) THEN s
    ELSE LET i == CHOOSE j \in 0 .. Len(s) : Match(s, needle, j) /\ \A k \in 0 .. (j - 1) : ~Match(s, needle, k)
         IN SubSeq(s, 1, i) \o instead \o SubSeq(s, i + Len(needle) + 1, Len(s))

(************************ trim, erase, pad, case ***************************)
InSet(c, drop) == \E k \in DOMAIN drop : drop[k] = c
LeftCount(s, drop) == IF \A i \in DOMAIN s : InSet(s[i], drop) THEN Len(s) ELSE (CHOOSE i \in DOMAIN s : ~InSet(s[i], drop) /\ \A j \in 1 .. (i - 1) : InSet(s[j], drop)) - 1
RightCount(s, drop) == IF \A i \in DOMAIN s : InSet(s[i], drop) THEN Len(s) ELSE Len(s) - (CHOOSE i \in DOMAIN s : ~InSet(s[i], drop) /\ \A j \in (i + 1) .. Len(s) : InSet(s[j], drop))
TrimLeft(s, drop) == SubSeq(s, LeftCount(s, drop) + 1, Len(s))
TrimRight(s, drop) == SubSeq(s, 1, Len(s) - RightCount(s, drop))
Trim(s, drop) == TrimRight(TrimLeft(s, drop), drop)
EraseAll(s, drop) == SelectSeq(s, LAMBDA c : ~InSet(c, drop))
PadTo(s, len, pc) == [i \in 1 .. len |-> IF i <= Len(s) THEN s[i] ELSE pc]
Lower(c) == IF c >= 65 /\ c <= 90 THEN c + 32 ELSE c           \* ASCII letters only
Upper(c) == IF c >= 97 /\ c <= 122 THEN c - 32 ELSE c
ToLower(s) == [i \in DOMAIN s |-> Lower(s[i])]
ToUpper(s) == [i \in DOMAIN s |-> Upper(s[i])]
StartsWith(s, m) == Match(s, m, 0)
EndsWith(s, m) == Len(m) <= Len(s) /\ Match(s, m, Len(s) - Len(m))
\* strcmp-like comparison of the lower-cased strings: -1, 0, +1 (shorter prefix first)
RECURSIVE Cmp(_, _, _)
Cmp(a, b, k) == IF k > Len(a) /\ k > Len(b) THEN 0
                ELSE IF k > Len(a) THEN -1 ELSE IF k > Len(b) THEN 1
                ELSE IF a[k] < b[k] THEN -1 ELSE IF a[k] > b[k] THEN 1 ELSE Cmp(a, b, k + 1)
CompareIcase(a, b) == Cmp(ToLower(a), ToLower(b), 1)

(************************ Levenshtein **************************************)
RECURSIVE Lev(_, _, _, _)
Lev(a, b, i, j) ==      \* distance between the prefixes a[1..i] and b[1..j]
    IF i = 0 THEN j ELSE IF j = 0 THEN i
    ELSE Min2(Min2(Lev(a, b, i - 1, j) + 1, Lev(a, b, i, j - 1) + 1), Lev(a, b, i - 1, j - 1) + (IF a[i] = b[j] THEN 0 ELSE 1))
Levenshtein(a, b) == Lev(a, b, Len(a), Len(b))
=============================================================================
