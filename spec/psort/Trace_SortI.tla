------------------------------ MODULE Trace_SortI -----------------------------
(***************************************************************************)
(* C06, implementation level (a rejection that Trace_Sort accepts is DRIFT) -- one event per sort call executed under the scheduler shim:        *)
(* {"e":"sort","keys":[..],"out":[original indices],"stable":b,             *)
(*  "live_delta":0,"problems":0,"deadlock":false, ...}                      *)
(* live_delta = element instances alive after the call minus before it      *)
(* (every temporary copy must be destroyed), problems = races / operations  *)
(* on destroyed sync objects reported by the shim.                          *)
(***************************************************************************)
EXTENDS SortA, TraceIO
VARIABLE l
Ev == TraceLog[l]

(***************************************************************************)
(* Phase discipline of PMergesortI on the recorded accesses to the caller's *)
(* array: "acc" = [[thread, write(0|1), position, barrier waits completed]..].  *)
(* Thread t (shim numbering: worker iam = t - 1) reads only its own chunk   *)
(* and only before its first barrier; it writes only in the merge phase     *)
(* (after 2 barriers with exact splitting, after 1 with sampling); every    *)
(* position is written exactly once; with exact splitting thread iam writes *)
(* exactly the positions of chunk iam, with sampling the threads write      *)
(* contiguous ranges in thread order.                                       *)
(***************************************************************************)
NEl == Len(Ev.keys)
TEff == IF Ev.threads > NEl THEN NEl ELSE Ev.threads
ChunkStart(i) == (i * (NEl \div TEff)) + (IF i < NEl % TEff THEN i ELSE NEl % TEff)
MergePhase == IF Ev.mwmsa = 0 THEN 1 ELSE 2          \* MWMSA_SAMPLING = 0, MWMSA_EXACT = 1
Writes == {i \in 1 .. Len(Ev.acc) : Ev.acc[i][2] = 1}
AccessOK ==
    (HasField(Ev, "acc") /\ NEl >= 2) =>
        /\ \A i \in 1 .. Len(Ev.acc) :
              LET a == Ev.acc[i]  iam == a[1] - 1 IN
              /\ iam \in 0 .. TEff - 1
              /\ (a[2] = 0 => a[4] = 0 /\ a[3] > ChunkStart(iam) /\ a[3] <= ChunkStart(iam + 1))
              /\ (a[2] = 1 => a[4] = MergePhase /\ (Ev.mwmsa = 1 => a[3] > ChunkStart(iam) /\ a[3] <= ChunkStart(iam + 1)))
        /\ \A p \in 1 .. NEl : Cardinality({i \in Writes : Ev.acc[i][3] = p}) = 1
        /\ \A i, j \in Writes : (Ev.acc[i][1] < Ev.acc[j][1]) => Ev.acc[i][3] < Ev.acc[j][3]
Step ==
    CASE Ev.e = "reset" -> TRUE
      [] Ev.e = "sort" -> /\ SortOK(Ev.keys, Ev.out, Ev.stable)
                          /\ Ev.live_delta = 0
                          /\ Ev.problems = 0 /\ Ev.deadlock = FALSE
                          /\ AccessOK
      [] OTHER -> FALSE
TInit == l = 1
TNext == l <= TraceLen /\ Step /\ l' = l + 1
TraceSpec == TInit /\ [][TNext]_l
Progress == TrackProgress(l)
Report == ReportResult
=============================================================================
