-------------------------------- MODULE SortA --------------------------------
(***************************************************************************)
(* C06 -- what parallel_mergesort / stable_parallel_mergesort must deliver. *)
(* keys[i] is the key of the i-th input element; out[p] is the original     *)
(* index of the element found at position p afterwards (identities, so a    *)
(* duplicated or lost element is visible).                                  *)
(***************************************************************************)
EXTENDS Integers, Sequences, FiniteSets

IsPerm(n, out) == Len(out) = n /\ {out[p] : p \in 1 .. n} = 1 .. n
Sorted(keys, out) == \A p \in 1 .. (Len(out) - 1) : keys[out[p]] <= keys[out[p + 1]]
\* exactly the arrangement std::stable_sort produces: equal keys keep their input order
StableArr(keys, out) == \A p \in 1 .. (Len(out) - 1) : keys[out[p]] = keys[out[p + 1]] => out[p] < out[p + 1]

SortOK(keys, out, stable) ==
    /\ IsPerm(Len(keys), out)
    /\ Sorted(keys, out)
    /\ stable => StableArr(keys, out)

\* the stable arrangement is unique (checked by TLC on a bounded domain in MC_SortA)
=============================================================================
