------------------------------ MODULE Trace_Sort ------------------------------
(***************************************************************************)
(* C06 -- one event per sort call executed under the scheduler shim:        *)
(* {"e":"sort","keys":[..],"out":[original indices],"stable":b,             *)
(*  "live_delta":0,"problems":0,"deadlock":false, ...}                      *)
(* live_delta = element instances alive after the call minus before it      *)
(* (every temporary copy must be destroyed), problems = races / operations  *)
(* on destroyed sync objects reported by the shim.                          *)
(***************************************************************************)
EXTENDS SortA, TraceIO
VARIABLE l
Ev == TraceLog[l]

Step ==
    CASE Ev.e = "reset" -> TRUE
      [] Ev.e = "sort" -> /\ SortOK(Ev.keys, Ev.out, Ev.stable)
                          /\ Ev.live_delta = 0
                          /\ Ev.problems = 0 /\ Ev.deadlock = FALSE
      [] OTHER -> FALSE
TInit == l = 1
TNext == l <= TraceLen /\ Step /\ l' = l + 1
TraceSpec == TInit /\ [][TNext]_l
Progress == TrackProgress(l)
Report == ReportResult
=============================================================================
