---------------------------- MODULE PMergesortI ----------------------------
(***************************************************************************)
(* C06 -- parallel_sort_mwms_pu (tlx/sort/parallel_mergesort.hpp) as the    *)
(* code has it: T threads, each                                             *)
(*   P0  copies its chunk of the input into temporary[i] and sorts it       *)
(*   [sampling: writes its samples; the last thread to arrive at the        *)
(*    barrier sorts them]                                                   *)
(*   B1  barrier                                                            *)
(*   P1  computes pieces[i][s].end for every s (exact: multisequence        *)
(*       partition at rank starts[i+1] over all temporaries; sampling:      *)
(*       lower bounds of two samples: begin and end at once)                *)
(*   B2  barrier (exact only)                                               *)
(*   P2  pieces[i][s].begin = pieces[i-1][s].end (exact only)               *)
(*   P3  merges its pieces of all temporaries into source[offset ..)        *)
(*   B3  barrier                                                            *)
(*   P4  destroys temporary[i]                                              *)
(* Each phase is two steps (begin: announce what it reads and writes; end:  *)
(* take effect), so that phases of different threads overlap in every       *)
(* possible way.  TLC checks: no two overlapping phases touch the same      *)
(* memory with a write (NoConflict), the result is the stable sort of the   *)
(* input (exact + Stable) / a sorted permutation, every temporary is        *)
(* destroyed exactly once, and all threads terminate.  The constants        *)
(* UseB2 / UseB3 switch a barrier off: TLC must then find a conflict        *)
(* (negative self-tests).                                                   *)
(***************************************************************************)
EXTENDS Integers, Sequences, FiniteSets, TLC

CONSTANTS T,          \* threads
          N,          \* elements (N >= T)
          Keys,       \* key values
          Sampling,   \* splitting algorithm: FALSE = exact, TRUE = sampling
          UseB2, UseB3

Threads == 0 .. T - 1
\* an element is <<key, original position>>; stable order = lexicographic
Less(a, b) == a[1] < b[1] \/ (a[1] = b[1] /\ a[2] < b[2])
KeyLess(a, b) == a[1] < b[1]

VARIABLES src,        \* the caller's array (sequence of elements)
          input,      \* ghost: the array at the start
          temp,       \* temp[i]: sorted copy of chunk i; <<>> before allocation / after destruction (chunks are non-empty: N >= T)
          destroyed,  \* how often temp[i] was destroyed
          pieces,     \* pieces[i][s] = [b |-> begin, e |-> end] (0-based offsets into temp[s])
          thr,        \* sampling: the T - 1 thresholds (elements) chosen from the sorted samples
          pc,         \* pc[i]: phase name
          busy,       \* busy[i]: [r |-> regions read, w |-> regions written] of the phase thread i is in the middle of
          arrived,    \* threads waiting at the current barrier
          conflict    \* ghost: description of the first conflicting overlap
vars == <<src, input, temp, destroyed, pieces, thr, pc, busy, arrived, conflict>>

Start(i) == (i * (N \div T)) + (IF i < N % T THEN i ELSE N % T)          \* starts[i], 0-based
ChunkLen(i) == Start(i + 1) - Start(i)

Idle == [r |-> {}, w |-> {}]
\* regions: <<"src", p>>, <<"tmp", s>>, <<"pe", i>> (pieces[i][*].end), <<"pb", i>>, <<"smp">>
SrcRegion(a, b) == {<<"src", p>> : p \in a .. b}

\* sorting a small sequence: insertion by the given order (CHOOSE a sorted permutation)
SortedBy(s, LessOp(_, _)) ==
    CHOOSE t \in [1 .. Len(s) -> {s[i] : i \in 1 .. Len(s)}] :
        /\ \A i \in 1 .. Len(s) - 1 : ~LessOp(t[i + 1], t[i])
        /\ \A x \in {s[i] : i \in 1 .. Len(s)} : Cardinality({i \in 1 .. Len(s) : t[i] = x}) = Cardinality({i \in 1 .. Len(s) : s[i] = x})

Init ==
    /\ src \in [1 .. N -> Keys \X {0}] /\ input = src      \* positions are attached below (elements carry them from the start)
    /\ temp = [i \in Threads |-> <<>>] /\ destroyed = [i \in Threads |-> 0]
    /\ pieces = [i \in Threads |-> [s \in Threads |-> [b |-> 0, e |-> 0]]]
    /\ thr = <<>>
    /\ pc = [i \in Threads |-> "P0"] /\ busy = [i \in Threads |-> Idle] /\ arrived = {} /\ conflict = ""

\* elements as <<key, position>>
Elem(p) == <<input[p][1], p>>

(* ---- phases: Begin announces, End takes effect ---- *)
Clash(i, acc) ==
    \E j \in Threads \ {i} : (acc.w \cap (busy[j].r \cup busy[j].w)) # {} \/ (acc.r \cap busy[j].w) # {}
Begin(i, phase, acc) ==
    /\ pc[i] = phase /\ busy[i] = Idle
    /\ busy' = [busy EXCEPT ![i] = acc]
    /\ conflict' = IF conflict = "" /\ Clash(i, acc) THEN phase ELSE conflict
    /\ UNCHANGED <<src, input, temp, destroyed, pieces, thr, pc, arrived>>
End(i, phase, next) ==
    /\ pc[i] = phase /\ busy[i] # Idle
    /\ busy' = [busy EXCEPT ![i] = Idle] /\ pc' = [pc EXCEPT ![i] = next]
    /\ UNCHANGED <<input, arrived, conflict>>

AllTmp == {<<"tmp", s>> : s \in Threads}

\* P0: copy own chunk, sort it (stable), [sampling: write own samples]
P0Acc(i) == [r |-> SrcRegion(Start(i) + 1, Start(i + 1)), w |-> {<<"tmp", i>>} \cup (IF Sampling THEN {<<"smp", i>>} ELSE {})]
P0End(i) ==
    /\ End(i, "P0", "B1")
    /\ temp' = [temp EXCEPT ![i] = SortedBy([p \in 1 .. ChunkLen(i) |-> Elem(Start(i) + p)], Less)]
    /\ UNCHANGED <<src, destroyed, pieces, thr>>

\* rank of the split in temp[s] for a global rank: elements of the stable merge order before position `rank`
AllElems == {Elem(p) : p \in 1 .. N}
\* the element at 1-based position r of the stably sorted whole
Nth(r) == CHOOSE x \in AllElems : Cardinality({y \in AllElems : Less(y, x)}) = r - 1
\* exact split at global rank r (number of elements left of it): offset in temp[s] = elements of temp[s] among the first r.
\* multisequence_partition puts equal keys of lower-numbered sequences first; sequence number order = chunk order = position order,
\* so "the first r in (key, sequence, offset) order" is "the first r in (key, position) order".
ExactEnd(s, r) == Cardinality({q \in 1 .. Len(temp[s]) : Cardinality({y \in AllElems : Less(y, temp[s][q])}) < r})
\* sampling: lower bound of a threshold key in temp[s]
LowerBound(s, x) == Cardinality({q \in 1 .. Len(temp[s]) : KeyLess(temp[s][q], x)})

P1Acc(i) == [r |-> AllTmp \cup (IF Sampling THEN {<<"smp", j>> : j \in Threads} ELSE {}), w |-> {<<"pe", i>>} \cup (IF Sampling THEN {<<"pb", i>>} ELSE {})]
P1End(i) ==
    /\ End(i, "P1", IF Sampling THEN "P3" ELSE IF UseB2 THEN "B2" ELSE "P2")
    /\ (\A s \in Threads : temp[s] # <<>>)           \* reading an unallocated temporary would be a crash: B1 guarantees it
    /\ pieces' = [pieces EXCEPT ![i] = [s \in Threads |->
                    IF Sampling
                    THEN [b |-> IF i = 0 THEN 0 ELSE LowerBound(s, thr[i]), e |-> IF i = T - 1 THEN Len(temp[s]) ELSE LowerBound(s, thr[i + 1])]
                    ELSE [b |-> pieces[i][s].b, e |-> IF i = T - 1 THEN Len(temp[s]) ELSE ExactEnd(s, Start(i + 1))]]]
    /\ UNCHANGED <<src, temp, destroyed, thr>>

\* P2 (exact): begin = end of the previous thread's piece
P2Acc(i) == [r |-> IF i = 0 THEN {} ELSE {<<"pe", i - 1>>}, w |-> {<<"pb", i>>}]
P2End(i) ==
    /\ End(i, "P2", "P3")
    /\ pieces' = [pieces EXCEPT ![i] = [s \in Threads |-> [b |-> IF i = 0 THEN 0 ELSE pieces[i - 1][s].e, e |-> pieces[i][s].e]]]
    /\ UNCHANGED <<src, temp, destroyed, thr>>

\* P3: merge own pieces into source[offset ..)
Offset(i) == LET RECURSIVE Sum(_) Sum(s) == IF s = T THEN 0 ELSE pieces[i][s].b + Sum(s + 1) IN Sum(0)
Length(i) == LET RECURSIVE Sum(_) Sum(s) == IF s = T THEN 0 ELSE (pieces[i][s].e - pieces[i][s].b) + Sum(s + 1) IN Sum(0)
MyElems(i) == UNION {{temp[s][q] : q \in (pieces[i][s].b + 1) .. pieces[i][s].e} : s \in Threads}
P3Acc(i) == [r |-> AllTmp \cup {<<"pe", i>>, <<"pb", i>>}, w |-> SrcRegion(Offset(i) + 1, Offset(i) + Length(i))]
P3Ok(i) == \A s \in Threads : pieces[i][s].b <= pieces[i][s].e /\ pieces[i][s].e <= Len(temp[s])
P3End(i) ==
    /\ End(i, "P3", IF UseB3 THEN "B3" ELSE "P4")
    /\ (\A s \in Threads : temp[s] # <<>>)
    /\ LET mine == MyElems(i)
           merged == SortedBy([q \in 1 .. Cardinality(mine) |-> CHOOSE x \in mine : Cardinality({y \in mine : Less(y, x)}) = q - 1], Less)
       IN src' = [p \in 1 .. N |-> IF p > Offset(i) /\ p <= Offset(i) + Length(i) /\ p - Offset(i) <= Len(merged) THEN <<merged[p - Offset(i)][1], merged[p - Offset(i)][2]>> ELSE src[p]]
    /\ UNCHANGED <<temp, destroyed, pieces, thr>>

\* P4: destroy own temporary
P4Acc(i) == [r |-> {}, w |-> {<<"tmp", i>>}]
P4End(i) ==
    /\ End(i, "P4", "done")
    /\ temp' = [temp EXCEPT ![i] = <<>>] /\ destroyed' = [destroyed EXCEPT ![i] = @ + 1]
    /\ UNCHANGED <<src, pieces, thr>>

(* ---- barriers ---- *)
AtBarrier(i) == pc[i] \in {"B1", "B2", "B3"}
NextOf(b) == CASE b = "B1" -> "P1" [] b = "B2" -> "P2" [] b = "B3" -> "P4"
Arrive(i) ==
    /\ AtBarrier(i) /\ i \notin arrived
    /\ IF arrived \cup {i} = Threads
       THEN \* the last one releases all; at B1 of the sampling variant it first sorts the samples (and the thresholds are read off)
            /\ arrived' = {}
            /\ pc' = [j \in Threads |-> NextOf(pc[i])]
            /\ IF Sampling /\ pc[i] = "B1"
               THEN \E cut \in [1 .. T - 1 -> 1 .. N] :       \* thresholds = some elements, in non-decreasing order
                        /\ \A q \in 1 .. T - 2 : ~KeyLess(Nth(cut[q + 1]), Nth(cut[q]))
                        /\ thr' = [q \in 1 .. T - 1 |-> Nth(cut[q])]
               ELSE UNCHANGED thr
       ELSE arrived' = arrived \cup {i} /\ UNCHANGED <<pc, thr>>
    /\ UNCHANGED <<src, input, temp, destroyed, pieces, busy, conflict>>

Next ==
    \E i \in Threads :
        \/ Begin(i, "P0", P0Acc(i)) \/ P0End(i)
        \/ Begin(i, "P1", P1Acc(i)) \/ P1End(i)
        \/ Begin(i, "P2", P2Acc(i)) \/ P2End(i)
        \/ (P3Ok(i) /\ Begin(i, "P3", P3Acc(i))) \/ P3End(i)
        \/ Begin(i, "P4", P4Acc(i)) \/ P4End(i)
        \/ Arrive(i)
Done == \A i \in Threads : pc[i] = "done"
Spec == Init /\ [][Next]_vars /\ WF_vars(Next)

(***************************************************************************)
NoConflict == conflict = ""
\* pieces handed to the merge are well formed (otherwise P3 cannot even start: reported as a deadlock / by this invariant)
PiecesOk == \A i \in Threads : pc[i] = "P3" /\ busy[i] = Idle => P3Ok(i)
\* the result: stable sort of the input (exact), a sorted permutation (sampling)
SortedPerm == Done =>
    /\ \A p \in 1 .. N - 1 : ~KeyLess(src[p + 1], src[p])
    /\ {src[p] : p \in 1 .. N} = AllElems
StableResult == (Done /\ ~Sampling) => \A p \in 1 .. N - 1 : Less(src[p], src[p + 1])
TemporariesDestroyedOnce == (Done => \A i \in Threads : destroyed[i] = 1 /\ temp[i] = <<>>) /\ \A i \in Threads : destroyed[i] <= 1
Terminates == <>Done
=============================================================================
