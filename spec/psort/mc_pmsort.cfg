CONSTANTS T = 2
          N = 4
          Keys = {1, 2}
          Sampling = FALSE
          UseB2 = TRUE
          UseB3 = TRUE
SPECIFICATION Spec
INVARIANTS NoConflict PiecesOk SortedPerm StableResult TemporariesDestroyedOnce
PROPERTY Terminates
CHECK_DEADLOCK FALSE
