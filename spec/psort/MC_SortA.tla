------------------------------ MODULE MC_SortA ------------------------------
\* sanity of the definition: for every key vector of the bound exactly one permutation satisfies the stable clause
EXTENDS SortA
CONSTANTS MaxN, Keys
VARIABLE keys
Perms(n) == {f \in [1 .. n -> 1 .. n] : {f[i] : i \in 1 .. n} = 1 .. n}
Init == keys \in UNION {[1 .. n -> Keys] : n \in 0 .. MaxN}
Next == UNCHANGED keys
Spec == Init /\ [][Next]_keys
StableUnique == Cardinality({f \in Perms(Len(keys)) : SortOK(keys, f, TRUE)}) = 1
SomeSorted == \E f \in Perms(Len(keys)) : SortOK(keys, f, FALSE)
=============================================================================
