----------------------------- MODULE MergeCaseI -----------------------------
(***************************************************************************)
(* C05 -- the hand-unrolled 3-way and 4-way merges of multiway_merge.hpp    *)
(* (multiway_merge_3_variant / _4_variant with guarded iterators): a goto   *)
(* machine whose state is the current order of the sequences' heads; after  *)
(* each emitted element the advanced sequence is re-inserted into the order *)
(* by up to three comparisons whose operators (< or <=) come from the       *)
(* TLX_MERGE3CASE / TLX_MERGE4CASE tables.  tools/props/c05.py extracts     *)
(* those tables from the source file each time the check runs (module       *)
(* MergeCaseTables), so a changed operator in the source changes the model. *)
(* TLC checks on every small input and every requested length that the      *)
(* machine emits exactly the stable merge and advances the inputs past what *)
(* it emitted -- the tables' mix of < and <= is what makes it stable.       *)
(***************************************************************************)
EXTENDS Integers, Sequences, FiniteSets, MergeCaseTables
\* MergeCaseTables defines  Table3 == [order |-> <<c0, c1>>]  and  Table4 == [order |-> <<c0, c1, c2>>]  with c \in {"<", "<="}

CONSTANTS K,        \* 3 or 4
          Keys, MaxLen
VARIABLES phase, seqs, size
vars == <<phase, seqs, size>>

SortedSeqs == {s \in UNION {[1 .. n -> Keys] : n \in 0 .. MaxLen} : \A i \in 1 .. (Len(s) - 1) : s[i] <= s[i + 1]}
Total == LET RECURSIVE Sum(_) Sum(i) == IF i > K THEN 0 ELSE Len(seqs[i]) + Sum(i + 1) IN Sum(1)

\* guarded iterators: pos[i] = elements of sequence i consumed; an exhausted sequence compares as the supremum
Sup(pos, i) == pos[i] = Len(seqs[i])
Hd(pos, i) == seqs[i][pos[i] + 1]
Lt(pos, i, j) == IF Sup(pos, i) THEN Sup(pos, j) ELSE IF Sup(pos, j) THEN TRUE ELSE Hd(pos, i) < Hd(pos, j)          \* operator< of guarded_iterator, as written
Le(pos, i, j) == IF Sup(pos, j) THEN ~Sup(pos, i) ELSE IF Sup(pos, i) THEN FALSE ELSE ~(Hd(pos, j) < Hd(pos, i))      \* operator<=
Cmp(op, pos, i, j) == IF op = "<" THEN Lt(pos, i, j) ELSE Le(pos, i, j)

\* the initial decision trees (sequence numbers 0-based as in the code; position vectors are 1-based: seq a is seqs[a + 1])
P0 == [i \in 1 .. K |-> 0]
L(a, b) == Lt(P0, a + 1, b + 1)
LE(a, b) == Le(P0, a + 1, b + 1)
Start3 == IF LE(0, 1) THEN (IF LE(1, 2) THEN <<0, 1, 2>> ELSE IF L(2, 0) THEN <<2, 0, 1>> ELSE <<0, 2, 1>>)
          ELSE (IF LE(1, 2) THEN (IF LE(0, 2) THEN <<1, 0, 2>> ELSE <<1, 2, 0>>) ELSE <<2, 1, 0>>)
Decision(a, b, c, d) == IF L(d, a) THEN <<d, a, b, c>> ELSE IF L(d, b) THEN <<a, d, b, c>> ELSE IF L(d, c) THEN <<a, b, d, c>> ELSE <<a, b, c, d>>
Start4 == IF LE(0, 1) THEN (IF LE(1, 2) THEN Decision(0, 1, 2, 3) ELSE IF L(2, 0) THEN Decision(2, 0, 1, 3) ELSE Decision(0, 2, 1, 3))
          ELSE (IF LE(1, 2) THEN (IF LE(0, 2) THEN Decision(1, 0, 2, 3) ELSE Decision(1, 2, 0, 3)) ELSE Decision(2, 1, 0, 3))

\* one label of the goto machine: emit from the first sequence of the order, advance it, re-insert it
RECURSIVE Run(_, _, _, _)
Run(order, pos, left, out) ==
    IF left = 0 THEN [out |-> out, pos |-> pos]
    ELSE LET a == order[1] + 1
             out1 == Append(out, <<Hd(pos, a), a, pos[a] + 1>>)
             pos1 == [pos EXCEPT ![a] = @ + 1]
             ops == IF K = 3 THEN Table3[order] ELSE Table4[order]
             \* how far the advanced sequence moves back in the order
             next == IF Cmp(ops[1], pos1, a, order[2] + 1) THEN order
                     ELSE IF Cmp(ops[2], pos1, a, order[3] + 1) THEN <<order[2], order[1]>> \o SubSeq(order, 3, K)
                     ELSE IF K = 3 THEN <<order[2], order[3], order[1]>>
                     ELSE IF Cmp(ops[3], pos1, a, order[4] + 1) THEN <<order[2], order[3], order[1], order[4]>>
                     ELSE <<order[2], order[3], order[4], order[1]>>
         IN Run(next, pos1, left - 1, out1)
Result == IF size = 0 THEN [out |-> <<>>, pos |-> P0] ELSE Run(IF K = 3 THEN Start3 ELSE Start4, P0, size, <<>>)

\* the stable merge: elements <<key, sequence, position>> ordered by (key, sequence, position)
Elems == UNION {{<<seqs[i][p], i, p>> : p \in 1 .. Len(seqs[i])} : i \in 1 .. K}
Before(x, y) == x[1] < y[1] \/ (x[1] = y[1] /\ (x[2] < y[2] \/ (x[2] = y[2] /\ x[3] < y[3])))
StableNth(n) == CHOOSE e \in Elems : Cardinality({x \in Elems : Before(x, e)}) = n - 1

Init == phase = 0 /\ seqs = <<>> /\ size = 0
PickSeqs == phase = 0 /\ phase' = 1 /\ seqs' \in [1 .. K -> SortedSeqs] /\ size' = 0
PickSize == phase = 1 /\ phase' = 2 /\ UNCHANGED seqs /\ size' \in 0 .. Total
Spec == Init /\ [][PickSeqs \/ PickSize]_vars

\* NB: the code may be asked for a length up to the total only; an exhausted head is never emitted
EmitsStableMerge == phase = 2 =>
    LET r == Result IN
    /\ Len(r.out) = size
    /\ \A n \in 1 .. size : r.out[n] = StableNth(n)
    /\ \A i \in 1 .. K : r.pos[i] = Cardinality({n \in 1 .. size : r.out[n][2] = i})
=============================================================================
