-------------------------------- MODULE MergeA --------------------------------
(***************************************************************************)
(* C05 / C07 -- multiway merging as a state machine.  k sequences of keys,  *)
(* each non-decreasing; an element is <<key, source sequence, position>>.   *)
(* A merge run is a sequence of Take(i) steps: the head of a non-exhausted  *)
(* sequence i may be taken iff no other head is smaller; the stable         *)
(* variants additionally require that no lower-numbered sequence shows an   *)
(* equivalent head.  Because elements carry their identity, a recorded      *)
(* output determines the run, and a run is legal iff every step was         *)
(* enabled -- which is what RunOK evaluates for a recorded call.            *)
(***************************************************************************)
EXTENDS Integers, Sequences, FiniteSets

CONSTANTS MaxK, MaxLen, Keys
VARIABLES seqs, stable, taken, out

vars == <<seqs, stable, taken, out>>

HeadOf(s, t, i) == s[i][t[i] + 1]
Live(s, t) == {i \in DOMAIN s : t[i] < Len(s[i])}
CanTake(s, t, st, i) ==
    /\ i \in Live(s, t)
    /\ \A j \in Live(s, t) : HeadOf(s, t, i) <= HeadOf(s, t, j)
    /\ st => \A j \in Live(s, t) : (HeadOf(s, t, j) = HeadOf(s, t, i)) => i <= j

SortedSeqs == {s \in UNION {[1 .. n -> Keys] : n \in 0 .. MaxLen} : \A i \in 1 .. (Len(s) - 1) : s[i] <= s[i + 1]}
Init == /\ seqs \in UNION {[1 .. k -> SortedSeqs] : k \in 0 .. MaxK}
        /\ stable \in BOOLEAN
        /\ taken = [i \in DOMAIN seqs |-> 0]
        /\ out = <<>>
Take(i) == /\ CanTake(seqs, taken, stable, i)
           /\ out' = Append(out, <<HeadOf(seqs, taken, i), i, taken[i] + 1>>)
           /\ taken' = [taken EXCEPT ![i] = @ + 1]
           /\ UNCHANGED <<seqs, stable>>
Next == \E i \in DOMAIN seqs : Take(i)
Spec == Init /\ [][Next]_vars

\* ---- what every prefix of a run satisfies (checked by TLC on the bounded domain)
OutSorted == \A n \in 1 .. (Len(out) - 1) : out[n][1] <= out[n + 1][1]
\* the smallest elements: nothing left behind is smaller than anything emitted
SmallestTaken == \A n \in 1 .. Len(out) : \A j \in Live(seqs, taken) : out[n][1] <= HeadOf(seqs, taken, j)
\* each input advanced past exactly the elements taken from it, in order
AdvanceExact == \A i \in DOMAIN seqs : taken[i] = Cardinality({n \in 1 .. Len(out) : out[n][2] = i})
\* stable: equivalent elements ordered by source index, then position
StableOrder == stable => \A n \in 1 .. (Len(out) - 1) :
                   (out[n][1] = out[n + 1][1]) => (out[n][2] < out[n + 1][2] \/ (out[n][2] = out[n + 1][2] /\ out[n][3] < out[n + 1][3]))

(***************************************************************************)
(* Judging a recorded call: inputs s, requested length len, stable flag,    *)
(* the output (identities), the returned length and the advance per input.  *)
(***************************************************************************)
Counts(s, o, n) == [i \in DOMAIN s |-> Cardinality({m \in 1 .. n : o[m][2] = i})]
RunOK(s, len, st, o, ret, adv) ==
    /\ Len(o) = len /\ ret = len
    /\ \A n \in 1 .. len :
         LET t == Counts(s, o, n - 1)
             i == o[n][2]
         IN /\ i \in DOMAIN s
            /\ CanTake(s, t, st, i)
            /\ o[n] = <<HeadOf(s, t, i), i, t[i] + 1>>
    /\ adv = Counts(s, o, len)
\* parallel merges: only the element *values* must equal those of a sequential run (C07); with st = TRUE the run is unique
ValuesOK(s, len, st, o, ret, adv) ==
    IF st THEN RunOK(s, len, st, o, ret, adv)
    ELSE /\ Len(o) = len /\ ret = len
         /\ \A n \in 1 .. (len - 1) : o[n][1] <= o[n + 1][1]
         /\ \A i \in DOMAIN s : adv[i] \in 0 .. Len(s[i])
         \* the multiset of emitted identities is exactly the consumed prefixes
         /\ {<<o[n][2], o[n][3]>> : n \in 1 .. len} = UNION {{<<i, p>> : p \in 1 .. adv[i]} : i \in DOMAIN s}
         /\ \A n \in 1 .. len : o[n][1] = s[o[n][2]][o[n][3]]
         /\ \A i \in DOMAIN s : adv[i] < Len(s[i]) => \A n \in 1 .. len : o[n][1] <= s[i][adv[i] + 1]
=============================================================================
