----------------------------- MODULE Trace_Merge -----------------------------
(***************************************************************************)
(* C05 / C07 -- one event per merge call recorded by the drivers:           *)
(* {"e":"merge","seqs":[[keys]..],"len":L,"stable":b,"out":[[key,src,pos]], *)
(*  "ret":L,"adv":[n_1..n_k],"parallel":b}                                  *)
(***************************************************************************)
EXTENDS MergeA, TraceIO
VARIABLE l
Ev == TraceLog[l]

Step ==
    CASE Ev.e = "reset" -> TRUE
      [] Ev.e = "merge" /\ ~Ev.parallel -> RunOK(Ev.seqs, Ev.len, Ev.stable, Ev.out, Ev.ret, Ev.adv)
      [] Ev.e = "merge" /\ Ev.parallel -> Ev.writes_ok /\ Ev.problems = 0 /\ ValuesOK(Ev.seqs, Ev.len, Ev.stable, Ev.out, Ev.ret, Ev.adv)
      [] OTHER -> FALSE
TInit == l = 1 /\ seqs = <<>> /\ stable = FALSE /\ taken = <<>> /\ out = <<>>
TNext == l <= TraceLen /\ Step /\ l' = l + 1 /\ UNCHANGED vars
TraceSpec == TInit /\ [][TNext]_<<vars, l>>
Progress == TrackProgress(l)
Report == ReportResult
=============================================================================
