------------------------------- MODULE PMergeI -------------------------------
(***************************************************************************)
(* C07 -- parallel_multiway_merge_base as the code has it: filter the       *)
(* empty sequences, clamp the thread count, split the non-empty sequences   *)
(* into one chunk per thread (exact: multisequence partition at the ranks   *)
(* of equally_split(size, T), plus the rank `size` when size < total;       *)
(* sampling: upper bounds of T - 1 sorted samples), find the slab in which  *)
(* `size` is reached, let every thread whose target position lies before    *)
(* `size` merge min(local size, size - position) elements of its chunk to   *)
(* target + position, and advance the inputs to the read positions of that  *)
(* last slab.                                                               *)
(*                                                                          *)
(* One state per (input, size, T, algorithm, samples); TLC checks over all  *)
(* small inputs: chunks are well formed, the written ranges are disjoint    *)
(* and cover [0, size), the output is the first `size` elements of the      *)
(* (stable) merge and the inputs are advanced past exactly the elements     *)
(* they contributed.  The samples are arbitrary elements (that covers every *)
(* rounding of the floating-point sample index).  Variants reproduce the    *)
(* original code for the negative self-tests.                               *)
(***************************************************************************)
EXTENDS Integers, Sequences, FiniteSets

CONSTANTS MaxK, MaxLen, Keys, MaxT,
          Variant      \* "fixed" | "no_position_check" (every thread merges its whole chunk, inputs advanced to the ends: the original code)

VARIABLES phase,     \* 0: nothing picked, 1: sequences picked, 2: everything picked (the invariants speak about phase 2)
          seqs,      \* the caller's sequences (non-decreasing key sequences, some possibly empty)
          size, T0, exact, stable,
          samples    \* sampling: the T - 1 sorted threshold elements (keys)
vars == <<phase, seqs, size, T0, exact, stable, samples>>

SortedSeqs == {s \in UNION {[1 .. n -> Keys] : n \in 0 .. MaxLen} : \A i \in 1 .. (Len(s) - 1) : s[i] <= s[i + 1]}
Total(ss) == LET RECURSIVE Sum(_) Sum(i) == IF i > Len(ss) THEN 0 ELSE Len(ss[i]) + Sum(i + 1) IN Sum(1)

\* indices of the non-empty sequences, in order (seqs_ne)
NE == LET RECURSIVE F(_) F(i) == IF i > Len(seqs) THEN <<>> ELSE (IF Len(seqs[i]) > 0 THEN <<i>> ELSE <<>>) \o F(i + 1) IN F(1)
K == Len(NE)
SeqNE(s) == seqs[NE[s]]                       \* s-th non-empty sequence
Tot == Total(seqs)
T == IF T0 > Tot THEN Tot ELSE T0            \* num_threads clamped to total_size

\* elements with identity: <<key, sequence (index in seqs_ne), position>>; the stable merge order
Elems == UNION {{<<SeqNE(s)[p], s, p>> : p \in 1 .. Len(SeqNE(s))} : s \in 1 .. K}
Before(a, b) == a[1] < b[1] \/ (a[1] = b[1] /\ (a[2] < b[2] \/ (a[2] = b[2] /\ a[3] < b[3])))
RankOf(e) == Cardinality({x \in Elems : Before(x, e)})          \* 0-based position in the stable merge of everything

\* multisequence_partition at rank r: offset in sequence s = its elements among the first r of the stable merge (C08 decides that this is what the code computes)
PartOff(s, r) == Cardinality({p \in 1 .. Len(SeqNE(s)) : RankOf(<<SeqNE(s)[p], s, p>>) < r})
UpperBound(s, x) == Cardinality({p \in 1 .. Len(SeqNE(s)) : SeqNE(s)[p] <= x})

\* equally_split(n, p): boundaries s[0..p]
EqSplit(n, p) == LET RECURSIVE F(_, _) F(i, start) == IF i = p THEN <<n>> ELSE <<start>> \o F(i + 1, LET nx == start + (IF i < n % p THEN n \div p + 1 ELSE n \div p) IN IF nx >= n THEN n - 1 ELSE nx) IN F(0, 0)

\* chunks[slab][s] = <<first, second>> as 0-based offsets into SeqNE(s)
ChunkFirst(slab, s) ==
    IF slab = 0 THEN 0
    ELSE IF exact THEN PartOff(s, EqSplit(size, T)[slab + 1])
    ELSE UpperBound(s, samples[slab])
ChunkSecond(slab, s) ==
    IF exact
    THEN IF (Tot # size) \/ slab < T - 1 THEN PartOff(s, IF slab < T - 1 THEN EqSplit(size, T)[slab + 2] ELSE size) ELSE Len(SeqNE(s))
    ELSE IF slab + 1 < T THEN UpperBound(s, samples[slab + 1]) ELSE Len(SeqNE(s))

LocalSize(t) == LET RECURSIVE Sum(_) Sum(s) == IF s > K THEN 0 ELSE (ChunkSecond(t, s) - ChunkFirst(t, s)) + Sum(s + 1) IN Sum(1)
TargetPos(t) == LET RECURSIVE Sum(_) Sum(s) == IF s > K THEN 0 ELSE ChunkFirst(t, s) + Sum(s + 1) IN Sum(1)
MergeLen(t) == IF Variant = "no_position_check" THEN LocalSize(t)
               ELSE IF TargetPos(t) < size THEN (IF LocalSize(t) < size - TargetPos(t) THEN LocalSize(t) ELSE size - TargetPos(t)) ELSE 0

\* the elements of thread t's chunk, and the first n of their stable merge (what multiway_merge_base<Stable> writes; the unstable variant may order ties differently)
ChunkElems(t) == {e \in Elems : e[3] > ChunkFirst(t, e[2]) /\ e[3] <= ChunkSecond(t, e[2])}
Written(t) == {e \in ChunkElems(t) : Cardinality({x \in ChunkElems(t) : Before(x, e)}) < MergeLen(t)}
\* position in the target of an element written by thread t
PosOf(t, e) == TargetPos(t) + Cardinality({x \in ChunkElems(t) : Before(x, e)})

\* the slab in which `size` is reached
RECURSIVE Reached(_)
Reached(t) == IF t < 0 THEN 0 ELSE LocalSize(t) + Reached(t - 1)
LastSlab == IF Variant = "no_position_check" THEN T - 1
            ELSE IF \E t \in 0 .. T - 1 : Reached(t) >= size THEN CHOOSE t \in 0 .. T - 1 : Reached(t) >= size /\ \A u \in 0 .. t - 1 : Reached(u) < size ELSE T - 1
\* where the input s ends up: begin of its chunk in the last slab plus what that slab's merge consumed
Advance(s) == ChunkFirst(LastSlab, s) + Cardinality({e \in Written(LastSlab) : e[2] = s})

\* one dummy initial state; the step from it picks the configuration (so that TLC's workers evaluate the configurations in parallel)
Init == phase = 0 /\ seqs = <<>> /\ size = 0 /\ T0 = 1 /\ exact = TRUE /\ stable = TRUE /\ samples = <<>>
PickSeqs ==
    /\ phase = 0 /\ phase' = 1
    /\ seqs' \in UNION {[1 .. k -> SortedSeqs] : k \in 1 .. MaxK}
    /\ UNCHANGED <<size, T0, exact, stable, samples>>
PickRest ==
    /\ phase = 1 /\ phase' = 2 /\ UNCHANGED seqs
    /\ size' \in 0 .. Total(seqs) /\ T0' \in 1 .. MaxT /\ exact' \in BOOLEAN /\ stable' \in BOOLEAN
    /\ IF exact' \/ Total(seqs) = 0 THEN samples' = <<>>
       ELSE LET TT == IF T0' > Total(seqs) THEN Total(seqs) ELSE T0' IN
            samples' \in {f \in [1 .. TT - 1 -> Keys] : \A i \in 1 .. TT - 2 : f[i] <= f[i + 1]}
Spec == Init /\ [][PickSeqs \/ PickRest]_vars

Active == phase = 2 /\ Tot > 0 /\ size > 0          \* otherwise the function returns at once

\* every chunk is a range of its sequence, chunks of consecutive slabs are adjacent
ChunksWellFormed == Active => \A t \in 0 .. T - 1, s \in 1 .. K :
    /\ 0 <= ChunkFirst(t, s) /\ ChunkFirst(t, s) <= ChunkSecond(t, s) /\ ChunkSecond(t, s) <= Len(SeqNE(s))
    /\ (t > 0 => ChunkFirst(t, s) = ChunkSecond(t - 1, s))
\* no thread is asked to merge a negative number of elements or more than its chunk holds
LengthsSane == Active => \A t \in 0 .. T - 1 : MergeLen(t) >= 0 /\ MergeLen(t) <= LocalSize(t)
\* each output position below `size` is written by exactly one thread, none at or behind `size`
WritesPartition == Active =>
    /\ \A n \in 0 .. size - 1 : Cardinality({<<t, e>> \in (0 .. T - 1) \X Elems : e \in Written(t) /\ PosOf(t, e) = n}) = 1
    /\ \A t \in 0 .. T - 1 : \A e \in Written(t) : PosOf(t, e) < size
\* the values: position n holds an element of the n-th key of the merge; stable: exactly the n-th element of the stable merge
ValuesRight == Active => \A t \in 0 .. T - 1 : \A e \in Written(t) :
    IF stable THEN RankOf(e) = PosOf(t, e)
    ELSE \E x \in Elems : RankOf(x) = PosOf(t, e) /\ x[1] = e[1]
\* the inputs are advanced past exactly the elements they contributed
AdvanceExact == Active => \A s \in 1 .. K :
    Advance(s) = Cardinality({e \in UNION {Written(t) : t \in 0 .. T - 1} : e[2] = s})
=============================================================================
