CONSTANTS MaxK = 2
          MaxLen = 3
          Keys = {1, 2}
          MaxT = 3
          Variant = "fixed"
SPECIFICATION Spec
INVARIANTS ChunksWellFormed LengthsSane WritesPartition ValuesRight AdvanceExact
CHECK_DEADLOCK FALSE
