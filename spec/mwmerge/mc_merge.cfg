CONSTANTS MaxK = 3
          MaxLen = 2
          Keys = {1,2}
SPECIFICATION Spec
INVARIANTS OutSorted SmallestTaken AdvanceExact StableOrder
CHECK_DEADLOCK FALSE
