CONSTANTS MaxK = 0
          MaxLen = 0
          Keys = {}
SPECIFICATION TraceSpec
CONSTRAINT Progress
POSTCONDITION Report
CHECK_DEADLOCK FALSE
