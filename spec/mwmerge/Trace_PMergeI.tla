---------------------------- MODULE Trace_PMergeI ----------------------------
(***************************************************************************)
(* C07, implementation level: Trace_Merge plus the writer of every output   *)
(* position as PMergeI predicts it.  A rejection here that Trace_Merge      *)
(* accepts is DRIFT (the code splits the work differently from the model),  *)
(* not a violation of C07.                                                  *)
(***************************************************************************)
EXTENDS MergeA, TraceIO
VARIABLE l
Ev == TraceLog[l]

(***************************************************************************)
(* Implementation level (PMergeI): which thread wrote which position.       *)
(* "writers"[n + 1] = shim thread that wrote output position n (thread iam  *)
(* of the merge is shim thread iam + 1).  With exact splitting thread iam   *)
(* writes exactly the positions between the iam-th and (iam+1)-th boundary  *)
(* of equally_split(len, T), T = min(threads, total); with sampling the     *)
(* threads write contiguous ranges in thread order.  Only for calls of the  *)
(* base function (front = 0), which always takes the parallel path.         *)
(***************************************************************************)
TotalLen == LET RECURSIVE Sum(_) Sum(i) == IF i > Len(Ev.seqs) THEN 0 ELSE Len(Ev.seqs[i]) + Sum(i + 1) IN Sum(1)
TEff == IF Ev.threads > TotalLen THEN TotalLen ELSE Ev.threads
EqSplit(n, p) == LET RECURSIVE F(_, _) F(i, start) == IF i = p THEN <<n>> ELSE <<start>> \o F(i + 1, LET nx == start + (IF i < n % p THEN n \div p + 1 ELSE n \div p) IN IF nx >= n THEN n - 1 ELSE nx) IN F(0, 0)
WritersOK ==
    (HasField(Ev, "writers") /\ Ev.front = 0 /\ Ev.len > 0 /\ TotalLen > 0) =>
        /\ Len(Ev.writers) = Ev.len
        /\ \A n \in 1 .. Ev.len : Ev.writers[n] \in 1 .. TEff
        /\ \A n \in 1 .. Ev.len - 1 : Ev.writers[n] <= Ev.writers[n + 1]
        /\ (Ev.mwmsa = 1 => LET b == EqSplit(Ev.len, TEff) IN
                                \* (IF instead of a disjunction: TLC would split an action-level disjunction into one successor per true disjunct and position)
                                \A n \in 1 .. Ev.len : b[Ev.writers[n]] <= n - 1 /\ (IF Ev.writers[n] = TEff THEN TRUE ELSE n - 1 < b[Ev.writers[n] + 1]))
Step ==
    CASE Ev.e = "reset" -> TRUE
      [] Ev.e = "merge" /\ ~Ev.parallel -> RunOK(Ev.seqs, Ev.len, Ev.stable, Ev.out, Ev.ret, Ev.adv)
      [] Ev.e = "merge" /\ Ev.parallel -> Ev.writes_ok /\ Ev.problems = 0 /\ WritersOK /\ ValuesOK(Ev.seqs, Ev.len, Ev.stable, Ev.out, Ev.ret, Ev.adv)
      [] OTHER -> FALSE
TInit == l = 1 /\ seqs = <<>> /\ stable = FALSE /\ taken = <<>> /\ out = <<>>
TNext == l <= TraceLen /\ Step /\ l' = l + 1 /\ UNCHANGED vars
TraceSpec == TInit /\ [][TNext]_<<vars, l>>
Progress == TrackProgress(l)
Report == ReportResult
=============================================================================
