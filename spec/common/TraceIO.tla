------------------------------ MODULE TraceIO ------------------------------
(***************************************************************************)
(* Shared plumbing of every trace specification.                            *)
(*                                                                          *)
(* The recorded execution is an ndjson file named by the environment        *)
(* variable TRACE; one JSON object per line, field "e" names the event.     *)
(* A trace spec declares VARIABLE l (position of the next event), conjoins  *)
(* Consume(l) to every action, uses TrackProgress as CONSTRAINT and         *)
(* ReportResult as POSTCONDITION.  The longest prefix the spec can explain  *)
(* is kept in TLC register 1 and printed as                                 *)
(*     <<"TRACE_RESULT", accepted, total>>                                  *)
(* accepted = total  <=>  the execution is a behaviour of the spec.         *)
(***************************************************************************)
EXTENDS Naturals, Sequences, TLC, Json, IOUtils

TraceLog == ndJsonDeserialize(IOEnv.TRACE)
TraceLen == Len(TraceLog)

ASSUME TLCSet(1, 0)

Max2(a, b) == IF a > b THEN a ELSE b

\* l is the index of the next event to consume (1-based); l - 1 were accepted
TrackProgress(l) == TLCSet(1, Max2(TLCGet(1), l - 1))

ReportResult == PrintT(<<"TRACE_RESULT", TLCGet(1), TraceLen>>)

HasField(r, f) == f \in DOMAIN r
=============================================================================
