#!/usr/bin/env python3
"""Which lines of the anchored tlx sources does the quick tier of a check never execute?

    tools/coverage.py C02 [C13 ...]

Rebuilds the property's drivers with gcov counters (VERIF_COVERAGE), runs the quick tier, and prints for every
file the property is anchored in the executable lines that were never reached, grouped into ranges with the
enclosing function.  A blind spot of the generators shows up here before a seeded change finds it.
Not a check: it decides nothing and writes no evidence (evidence goes to a scratch directory)."""
import glob, json, os, re, shutil, subprocess, sys
V = os.path.dirname(os.path.dirname(os.path.abspath(__file__)))
REPO = os.environ.get("VERIF_REPO", "/repo")


def main():
    props = {json.loads(l)["id"]: json.loads(l) for l in open(os.path.join(V, "properties.jsonl"))}
    for pid in sys.argv[1:]:
        cov = "/var/tmp/verif-cov/%s" % pid
        shutil.rmtree(cov, ignore_errors=True)
        os.makedirs(cov)
        env = dict(os.environ, VERIF_COVERAGE=cov, VERIF_EVIDENCE=os.path.join(cov, "evidence"))
        r = subprocess.run([os.path.join(V, "tools", "check"), pid, "--tier", "quick"], env=env, stdout=subprocess.PIPE, stderr=subprocess.STDOUT, text=True)
        print("== %s: quick tier with coverage build exited %d" % (pid, r.returncode))
        hits = {}      # file -> line -> count
        for gcda in glob.glob(os.path.join(cov, "*", "*.gcda")):
            d = os.path.dirname(gcda)
            out = subprocess.run(["gcov", "-t", "-o", d, gcda], cwd=d, stdout=subprocess.PIPE, stderr=subprocess.DEVNULL, text=True).stdout
            cur = None
            for ln in out.split("\n"):
                m = re.match(r"\s*-:\s+0:Source:(.*)", ln)
                if m:
                    cur = os.path.realpath(os.path.join(d, m.group(1)))
                    continue
                m = re.match(r"\s*([0-9#=\-*]+):\s*(\d+):", ln)
                if not m or cur is None or not cur.startswith(os.path.realpath(REPO) + "/tlx/"):
                    continue
                c = m.group(1).rstrip("*")
                if c == "-":
                    continue
                n = 0 if c in ("#####", "=====") else int(c)
                h = hits.setdefault(cur, {})
                h[int(m.group(2))] = h.get(int(m.group(2)), 0) + n
        anchors = [os.path.realpath(os.path.join(REPO, f)) for f in props[pid]["anchors"]["files"]]
        for f in sorted(hits):
            if f not in anchors and not any(f.startswith(a.rsplit(".", 1)[0]) for a in anchors):
                continue
            lines = hits[f]
            miss = sorted(l for l, c in lines.items() if c == 0)
            print("-- %s: %d of %d executable lines never reached" % (os.path.relpath(f, REPO), len(miss), len(lines)))
            src = open(f, errors="replace").read().split("\n")
            i = 0
            while i < len(miss):
                j = i
                while j + 1 < len(miss) and miss[j + 1] - miss[j] <= 3:
                    j += 1
                print("   %5d-%-5d %s" % (miss[i], miss[j], src[miss[i] - 1].strip()[:100]))
                i = j + 1


if __name__ == "__main__":
    main()
