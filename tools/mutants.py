#!/usr/bin/env python3
"""tools/mutants.py -- mutation campaign against the quick tier of a check (development aid, not a check).

  tools/mutants.py <ID> [--n 40] [--seed 1] [--jobs 4] [--files f1,f2] [--lines a-b] [--ops rel,arith,...] [--out DIR]

Systematic counterpart of the seeded changes of DESIGN 9.6: every mutant is a one-line syntactic change
(relational / arithmetic / logical operator, off-by-one constant, deleted statement, swapped notify) to a file the
property is anchored in.  The mutated tree is a scratch copy of /repo's HEAD (`git archive HEAD tlx`) under
/var/tmp/mutants; the quick tier runs against it through VERIF_REPO, evidence goes to a scratch directory.

Result per mutant:   killed (exit 1 with VIOLATION lines) | nocompile (exit 2 with a compile error) |
                     internal (exit 2 otherwise: the machinery broke -- worth looking at) | SURVIVED (exit 0).
Survivors are either equivalent mutants, changes irrelevant to the property, or blind spots of the check; they
are listed with their diff in <out>/survivors.txt and have to be judged by reading them.  It decides nothing
about /repo and writes nothing under /verif/evidence.
"""
import argparse
import concurrent.futures as cf
import json
import os
import random
import re
import shutil
import subprocess
import sys
import time

VERIF = os.path.dirname(os.path.dirname(os.path.abspath(__file__)))

REL = [(r" <= ", " < "), (r" < ", " <= "), (r" >= ", " > "), (r" > ", " >= "), (r" == ", " != "), (r" != ", " == ")]
ARITH = [(r" \+ 1\b", ""), (r" - 1\b", ""), (r" \+ 1\b", " + 2"), (r" - 1\b", " - 2"), (r" \+ ", " - "), (r" - ", " + "),
         (r"\+\+", "--"), (r" / 2\b", " / 2 + 1"), (r" >> 1\b", ""), (r" \* 2\b", "")]
LOGIC = [(r" && ", " || "), (r" \|\| ", " && "), (r"if \(!", "if ("), (r"while \(!", "while ("),
         (r"\btrue\b", "false"), (r"\bfalse\b", "true")]
SYNC = [(r"notify_all", "notify_one"), (r"memory_order_\w+", "memory_order_relaxed")]
CONST = [(r"\b0\b", "1"), (r"\b1\b", "0"), (r"\b1\b", "2")]

_STMT = re.compile(r"^\s*(?!return\b|break\b|continue\b|goto\b|case\b|default\b|using\b|typedef\b|template\b|friend\b|static_assert\b)"
                   r"[\w:\.\->\[\]\*\(\)&<>, ]+?(\+\+|--|\s[\+\-\*/\|&]?=\s[^=].*|\([^;]*\))\s*;\s*$")
_DECL = re.compile(r"^\s*(const\s+|static\s+|unsigned\s+|typename\s+)*[\w:<>,\*& ]+\s+[\*&]?\w+\s*(=|\(|\{|;)")


def code_lines(path, lo=None, hi=None):
    """(lineno, text) of lines that look like code (no comments, preprocessor, asserts, debug output)"""
    res = []
    incomment = False
    for i, ln in enumerate(open(path, encoding="utf-8", errors="replace").read().split("\n"), 1):
        s = ln.strip()
        if incomment:
            if "*/" in s:
                incomment = False
            continue
        if s.startswith("/*"):
            if "*/" not in s:
                incomment = True
            continue
        if not s or s.startswith(("//", "#", "*", "TLX_LOG", "LOG", "assert", "TLX_ASSERT", "tlx_die", "TLX_DIE", "static_assert",
                                  "template", "typedef", "using", "friend", "namespace", "print", "std::cout", "std::cerr", "die")):
            continue
        if (lo and i < lo) or (hi and i > hi):
            continue
        res.append((i, ln))
    return res


def candidates(path, ops, lo, hi):
    """all (lineno, newline, label) single-line mutants of a file"""
    out = []
    for i, ln in code_lines(path, lo, hi):
        code = ln.split("//")[0]
        tail = ln[len(code):]
        # text inside /* ... */ on the line is not code: blank it (same length, so that match positions stay valid)
        code = re.sub(r"/\*.*?\*/", lambda m: " " * len(m.group(0)), code)
        tables = []
        if "rel" in ops:
            tables += [("rel", a, b) for a, b in REL]
        if "arith" in ops:
            tables += [("arith", a, b) for a, b in ARITH]
        if "logic" in ops:
            tables += [("logic", a, b) for a, b in LOGIC]
        if "sync" in ops:
            tables += [("sync", a, b) for a, b in SYNC]
        if "const" in ops:
            tables += [("const", a, b) for a, b in CONST]
        for kind, a, b in tables:
            for m in re.finditer(a, code):
                if kind == "rel" and ("template" in code or "operator" in code or "<<" in code[max(0, m.start() - 1):m.end() + 1]
                                      or ">>" in code[max(0, m.start() - 1):m.end() + 1]):
                    continue
                if kind == "const" and ('"' in code or "[" not in code and "=" not in code and "(" not in code):
                    continue
                if m.group(0) == b:
                    continue
                new = code[:m.start()] + b + code[m.end():] + tail
                out.append((i, new, "%s: %s -> %s" % (kind, m.group(0).strip(), b.strip() or "(removed)")))
        if "del" in ops and _STMT.match(code) and not _DECL.match(code) and "{" not in code and "}" not in code:
            ws = code[:len(code) - len(code.lstrip())]
            out.append((i, ws + "/* deleted */;" + tail, "del: " + code.strip()[:60]))
    return out


def run_mutant(args):
    idx, prop, relpath, lineno, newline, label, outdir, head_tar, timeout, tier = args
    root = "/var/tmp/mutants/%s_%d_%d" % (prop, os.getpid(), idx)
    shutil.rmtree(root, ignore_errors=True)
    os.makedirs(root)
    subprocess.run(["tar", "-x", "-C", root, "-f", head_tar], check=True)
    p = os.path.join(root, relpath)
    lines = open(p, encoding="utf-8", errors="replace").read().split("\n")
    old = lines[lineno - 1]
    lines[lineno - 1] = newline
    open(p, "w", encoding="utf-8").write("\n".join(lines))
    env = dict(os.environ, VERIF_REPO=root, VERIF_EVIDENCE=os.path.join(outdir, "ev"), VERIF_TMP=os.path.join(outdir, "tmp"), VERIF_REPLAYS=os.path.join(outdir, "replays", "m%03d" % idx),
               VERIF_CACHE=os.path.join(outdir, "cache%d" % (idx % 8)))
    os.makedirs(env["VERIF_TMP"], exist_ok=True)
    t0 = time.time()
    logf = os.path.join(outdir, "m%03d.log" % idx)
    try:
        with open(logf, "w") as lf:
            pr = subprocess.run([os.path.join(VERIF, "tools", "check"), prop, "--tier", tier], stdout=lf, stderr=subprocess.STDOUT,
                                env=env, cwd=VERIF, timeout=timeout)
        rc = pr.returncode
    except subprocess.TimeoutExpired:
        rc = 124
    txt = open(logf, errors="replace").read()
    if rc == 1 and "VIOLATION" in txt:
        res = "killed"
    elif rc == 2 and ("compile failed" in txt or "preprocess failed" in txt or "link failed" in txt):
        res = "nocompile"
    elif rc == 0:
        res = "SURVIVED"
    elif rc == 124:
        res = "timeout"
    else:
        res = "internal"
    first = ""
    for ln in txt.split("\n"):
        if ln.startswith("VIOLATION"):
            first = ln[:260]
            break
    shutil.rmtree(root, ignore_errors=True)
    # replays written by a check that ran against a mutant are not evidence about /repo
    return {"idx": idx, "file": relpath, "line": lineno, "label": label, "old": old.strip(), "new": newline.strip(), "result": res,
            "secs": round(time.time() - t0), "first": first}


def main():
    ap = argparse.ArgumentParser()
    ap.add_argument("prop")
    ap.add_argument("--n", type=int, default=40)
    ap.add_argument("--seed", type=int, default=1)
    ap.add_argument("--jobs", type=int, default=4)
    ap.add_argument("--files", default=None)
    ap.add_argument("--lines", default=None, help="a-b: restrict to this line range (single file)")
    ap.add_argument("--ops", default="rel,arith,logic,sync,del")
    ap.add_argument("--out", default=None)
    ap.add_argument("--timeout", type=int, default=2400)
    ap.add_argument("--tier", default="quick")
    ap.add_argument("--list", action="store_true")
    a = ap.parse_args()
    prop = a.prop
    files = None
    if a.files:
        files = a.files.split(",")
    else:
        for l in open(os.path.join(VERIF, "properties.jsonl")):
            p = json.loads(l)
            if p["id"] == prop:
                files = p["anchors"]["files"]
    lo = hi = None
    if a.lines:
        lo, hi = [int(x) for x in a.lines.split("-")]
    ops = set(a.ops.split(","))
    outdir = a.out or "/var/tmp/mutants/out_%s_%d" % (prop, a.seed)
    os.makedirs(outdir, exist_ok=True)
    head_tar = os.path.join(outdir, "head.tar")
    subprocess.run("git -C /repo archive HEAD tlx > %s" % head_tar, shell=True, check=True)
    src = os.path.join(outdir, "src")
    shutil.rmtree(src, ignore_errors=True)
    os.makedirs(src)
    subprocess.run(["tar", "-x", "-C", src, "-f", head_tar], check=True)
    cands = []
    for f in files:
        for (i, new, label) in candidates(os.path.join(src, f), ops, lo, hi):
            cands.append((f, i, new, label))
    shutil.rmtree(src, ignore_errors=True)
    rng = random.Random(a.seed)
    rng.shuffle(cands)
    # at most one mutant per source line in a run: spreads the sample over the code
    seen, pick = set(), []
    for c in cands:
        if (c[0], c[1]) in seen:
            continue
        seen.add((c[0], c[1]))
        pick.append(c)
        if len(pick) >= a.n:
            break
    print("%s: %d candidate mutants in %d files, running %d" % (prop, len(cands), len(files), len(pick)), flush=True)
    if a.list:
        for c in pick:
            print(c[0], c[1], c[3])
        return
    jobs = [(k, prop, c[0], c[1], c[2], c[3], outdir, head_tar, a.timeout, a.tier) for k, c in enumerate(pick)]
    results = []
    with cf.ThreadPoolExecutor(max_workers=a.jobs) as pool:
        for r in pool.map(run_mutant, jobs):
            results.append(r)
            print("m%03d %-9s %4ds %s:%d %s" % (r["idx"], r["result"], r["secs"], r["file"], r["line"], r["label"]), flush=True)
    json.dump(results, open(os.path.join(outdir, "results.json"), "w"), indent=1)
    with open(os.path.join(outdir, "survivors.txt"), "w") as f:
        for r in results:
            if r["result"] in ("SURVIVED", "internal", "timeout"):
                f.write("%s m%03d %s:%d  %s\n   - %s\n   + %s\n" % (r["result"], r["idx"], r["file"], r["line"], r["label"], r["old"], r["new"]))
    cnt = {}
    for r in results:
        cnt[r["result"]] = cnt.get(r["result"], 0) + 1
    print("SUMMARY", prop, json.dumps(cnt))
    shutil.rmtree(os.path.join(outdir, "tmp"), ignore_errors=True)
    for k in range(8):
        shutil.rmtree(os.path.join(outdir, "cache%d" % k), ignore_errors=True)


if __name__ == "__main__":
    main()
