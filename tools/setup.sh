#!/bin/sh
# offline setup: verify tools are present; everything else is built by the checks themselves
set -e
cd "$(dirname "$0")/.."
command -v java >/dev/null; command -v g++ >/dev/null; command -v python3 >/dev/null
test -f /opt/veriftools/tla/tla2tools.jar
mkdir -p /var/tmp/verif-cache evidence replays
chmod +x tools/check
echo "setup ok"
