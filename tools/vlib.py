#!/usr/bin/env python3
"""Common machinery for the /verif checks.

Every check is  tools/check <ID> --tier quick|thorough  and is implemented by
a module tools/props/<id>.py with a function run(ctx).  This library provides

  * Ctx            per-run scratch dir, seed, tier, evidence, verdict handling
  * build()        compile a driver from /repo's *current* working tree
                   (cache keyed by the hash of the preprocessed translation
                   unit, so any edit under /repo forces a rebuild)
  * tlc_mc()       model-check a spec/config, parse states / transitions /
                   per-action coverage, fail closed on any TLC error
  * tlc_gen()      run a generator config and collect the JSON histories that
                   the spec prints through PrintT(ToJson(h))
  * tlc_validate() validate a recorded ndjson trace against a trace spec;
                   returns the longest accepted prefix
  * known findings file handling

Exit codes of a check:  0 property held / only known findings
                        1 VIOLATION line printed
                        2 internal error of the machinery (never a VIOLATION)
"""
import atexit
import hashlib
import json
import os
import re
import shutil
import subprocess
import threading
import sys
import time

VERIF = os.path.dirname(os.path.dirname(os.path.abspath(__file__)))
REPO = os.environ.get("VERIF_REPO", "/repo")
SPEC = os.path.join(VERIF, "spec")
HARNESS = os.path.join(VERIF, "harness")
CACHE = os.environ.get("VERIF_CACHE", "/var/tmp/verif-cache")
TLA_CP = "/opt/veriftools/tla/tla2tools.jar:/opt/veriftools/tla/CommunityModules-deps.jar"
NCPU = os.cpu_count() or 4


class InternalError(Exception):
    pass


def log(*a):
    print("[verif]", *a, file=sys.stderr, flush=True)


def sh(cmd, timeout=None, env=None, cwd=None, stdin=None):
    """run, return (rc, stdout, stderr); rc=124 on timeout"""
    e = dict(os.environ)
    if env:
        e.update(env)
    try:
        p = subprocess.run(cmd, stdout=subprocess.PIPE, stderr=subprocess.PIPE,
                           timeout=timeout, env=e, cwd=cwd, input=stdin)
        return p.returncode, p.stdout.decode("utf-8", "replace"), p.stderr.decode("utf-8", "replace")
    except subprocess.TimeoutExpired as ex:
        out = (ex.stdout or b"").decode("utf-8", "replace")
        err = (ex.stderr or b"").decode("utf-8", "replace")
        return 124, out, err


# --------------------------------------------------------------------------
# known findings

def load_known_findings():
    """-> list of dicts {kind: finding|fixed, property, key, text}"""
    res = []
    p = os.path.join(VERIF, "known_findings.txt")
    if not os.path.exists(p):
        return res
    for line in open(p):
        line = line.strip()
        if not line or line.startswith("#"):
            continue
        m = re.match(r"(finding|fixed):\s+property=(\S+)\s+(.*)$", line)
        if not m:
            continue
        kind, prop, rest = m.groups()
        key = None
        mk = re.match(r"key=(\S+)\s*(.*)$", rest)
        if mk:
            key, rest = mk.groups()
        res.append({"kind": kind, "property": prop, "key": key, "text": rest})
    return res


# --------------------------------------------------------------------------

class Ctx:
    def __init__(self, prop, tier, seed, level="model_checking"):
        self.prop = prop
        self.tier = tier
        self.seed = seed
        self.level = level
        self.t0 = time.time()
        base = os.environ.get("VERIF_TMP", "/var/tmp")
        self.tmp = os.path.join(base, "verif.%d.%s" % (os.getpid(), prop))
        os.makedirs(self.tmp, exist_ok=True)
        if not os.environ.get("VERIF_KEEP"):
            atexit.register(lambda: shutil.rmtree(self.tmp, ignore_errors=True))
        self.cov = {"states": 0, "transitions": 0, "traces_validated_against_impl": 0,
                    "evaluations": 0, "distinct_nontrivial": 0, "samples": [],
                    "model_runs": [], "rule": "", "events_validated": 0}
        self.assumptions = []
        self.violations = []       # (key, text, replay)
        self.known_hits = {}       # key -> text
        self.notes = []
        self._nontriv = set()
        self.findings = [f for f in load_known_findings() if f["property"] == prop]
        self._mdn = 0
        self._lock = threading.RLock()

    # -- scratch helpers
    def path(self, *a):
        p = os.path.join(self.tmp, *a)
        os.makedirs(os.path.dirname(p), exist_ok=True)
        return p

    def metadir(self):
        with self._lock:
            self._mdn += 1
            n = self._mdn
        return self.path("md%d" % n)

    # -- coverage bookkeeping
    def add_model_run(self, r):
        self.cov["states"] += r["distinct"]
        self.cov["transitions"] += r["generated"]
        self.cov["model_runs"].append({k: r[k] for k in ("module", "cfg", "generated", "distinct", "depth", "wall_s", "coverage") if k in r})

    def count_case(self, case_key, nontrivial=True):
        self.cov["evaluations"] += 1
        if nontrivial:
            self._nontriv.add(hashlib.md5(case_key.encode() if isinstance(case_key, str) else case_key).digest()[:8])

    def sample(self, obj, limit=4):
        if len(self.cov["samples"]) < limit:
            self.cov["samples"].append(obj)

    # -- verdicts
    def violation(self, key, text, replay_src=None, replay_text=None):
        """register a violation; known finding keys are downgraded"""
        with self._lock:
            return self._violation(key, text, replay_src, replay_text)

    def _violation(self, key, text, replay_src=None, replay_text=None):
        for f in self.findings:
            if f["kind"] == "finding" and f["key"] == key:
                self.known_hits[key] = f["text"]
                return False
        if sum(1 for v in self.violations if v[0] == key) >= 3:
            self.cov["more_violations_same_key"] = self.cov.get("more_violations_same_key", 0) + 1
            return True
        n = len(self.violations) + 1
        # replays of runs against another tree (self-tests, mutants: VERIF_REPLAYS) are kept apart from /verif/replays
        rp = os.path.join(os.environ.get("VERIF_REPLAYS") or os.path.join(VERIF, "replays"), "%s-%d.ndjson" % (self.prop, n))
        os.makedirs(os.path.dirname(rp), exist_ok=True)
        if replay_src and os.path.exists(replay_src):
            shutil.copyfile(replay_src, rp)
        else:
            with open(rp, "w") as f:
                f.write(replay_text or (json.dumps({"key": key, "text": text}) + "\n"))
        self.violations.append((key, text, rp))
        return True

    def finish(self):
        self.cov["distinct_nontrivial"] = len(self._nontriv)
        if not self.cov["samples"]:
            self.cov["samples"] = ["(no sample recorded)"]
        ev = {
            "property_id": self.prop, "tier": self.tier, "seed": self.seed,
            "level": self.level, "coverage": self.cov,
            "assumptions": self.assumptions, "wall_s": round(time.time() - self.t0, 2),
            "violations": len(self.violations),
            "known_findings_hit": sorted(self.known_hits),
            "notes": self.notes,
        }
        # evidence under /verif/evidence describes /repo only; self-tests against another tree (VERIF_REPO) write elsewhere
        evdir = os.environ.get("VERIF_EVIDENCE") or (os.path.join(VERIF, "evidence") if os.path.realpath(REPO) == "/repo" else "/var/tmp/verif-alt-evidence")
        os.makedirs(evdir, exist_ok=True)
        with open(os.path.join(evdir, self.prop + ".json"), "w") as f:
            json.dump(ev, f, indent=1, default=str)
        for k, t in sorted(self.known_hits.items()):
            print("KNOWN-FINDING: property=%s %s %s" % (self.prop, k, t))
        for key, text, rp in self.violations:
            print("VIOLATION property=%s replay=%s key=%s %s" % (self.prop, rp, key, text))
        sys.stdout.flush()
        return 1 if self.violations else 0


# --------------------------------------------------------------------------
# building drivers from /repo's working tree

def build(ctx, name, sources, flags=(), cxx="g++", std="c++17", opt="-O1", defs=("-DNDEBUG",),
          includes=(), libs=("-pthread",), timeout=900):
    """Compile `sources` (first is the driver, others are absolute paths, e.g. under /repo/tlx)
    into one executable.  Returns its path.  Cache key: hash of every preprocessed TU + flags."""
    os.makedirs(CACHE, exist_ok=True)
    covdir = os.environ.get("VERIF_COVERAGE")
    if covdir:
        # coverage build (tools/coverage.py): plain -O0 objects with gcov counters kept under $VERIF_COVERAGE/<driver>/; sanitizer builds are skipped
        if any("sanitize" in f for f in flags):
            flags = [f for f in flags if "sanitize" not in f]
            name = name + "_cov_skip"
        opt = "-O0"
        flags = list(flags) + ["--coverage", "-DVERIF_COVERAGE"]
    base = [cxx, "-std=" + std, opt, "-g0", "-I" + REPO, "-I" + HARNESS] + list(defs) + list(includes) + list(flags)
    h = hashlib.sha256()
    h.update(" ".join(base + list(libs)).encode())
    for s in sources:
        rc, out, err = sh(base + ["-E", "-P", s], timeout=timeout)
        if rc != 0:
            raise InternalError("preprocess failed for %s:\n%s" % (s, err[-3000:]))
        h.update(out.encode())
    key = h.hexdigest()[:24]
    exe = os.path.join(CACHE, "%s-%s" % (name, key))
    if covdir:
        exe = os.path.join(covdir, name, name)
        os.makedirs(os.path.dirname(exe), exist_ok=True)
    if os.path.exists(exe):
        return exe
    t0 = time.time()
    objs = []
    procs = []
    for i, s in enumerate(sources):
        o = os.path.join(covdir, name, "%s-%d.o" % (name, i)) if covdir else ctx.path("obj", "%s-%d.o" % (name, i))
        objs.append(o)
        procs.append((s, subprocess.Popen(base + ["-c", s, "-o", o], stdout=subprocess.PIPE, stderr=subprocess.PIPE)))
    for s, p in procs:
        try:
            out, err = p.communicate(timeout=timeout)
        except subprocess.TimeoutExpired:
            p.kill()
            raise InternalError("compile timeout " + s)
        if p.returncode != 0:
            raise InternalError("compile failed for %s:\n%s" % (s, err.decode()[-4000:]))
    tmpexe = exe + ".tmp%d" % os.getpid()
    rc, out, err = sh(base + objs + ["-o", tmpexe] + list(libs), timeout=timeout)
    if rc != 0:
        raise InternalError("link failed for %s:\n%s" % (name, err[-4000:]))
    os.replace(tmpexe, exe)
    log("built %s in %.1fs" % (name, time.time() - t0))
    # keep the cache small: drop older binaries of the same driver
    for f in os.listdir(CACHE):
        if f.startswith(name + "-") and f != os.path.basename(exe) and not f.endswith(".tmp%d" % os.getpid()):
            try:
                if time.time() - os.path.getmtime(os.path.join(CACHE, f)) > 6 * 3600:
                    os.remove(os.path.join(CACHE, f))
            except OSError:
                pass
    return exe


# --------------------------------------------------------------------------
# TLC

def _java(xmx="4g", deque=False):
    cmd = ["java", "-XX:+UseParallelGC", "-Xss1g", "-Xmx" + xmx]
    if deque:
        cmd.append("-Dtlc2.tool.queue.IStateQueue=StateDeque")
    cmd += ["-cp", TLA_CP, "tlc2.TLC"]
    return cmd


_RE_STATES = re.compile(r"(\d+) states generated, (\d+) distinct states found")
_RE_DEPTH = re.compile(r"The depth of the complete state graph search is (\d+)")
_RE_COV = re.compile(r"^<(\w+) line \d+, col \d+ to line \d+, col \d+ of module (\w+)(?: \([\d ]+\))?>: (\d+):(\d+)", re.M)


def _prep_spec_dir(ctx, spec_dir):
    """TLC writes state files next to the spec unless -metadir; copy specs to scratch
    so that nothing is ever written under /verif/spec and relative module lookup works."""
    dst = ctx.path("spec_" + os.path.basename(spec_dir))
    if not os.path.exists(os.path.join(dst, ".copied")):
        os.makedirs(dst, exist_ok=True)
        for d in (os.path.join(SPEC, "common"), spec_dir):
            for f in os.listdir(d):
                if f.endswith((".tla", ".cfg")):
                    shutil.copyfile(os.path.join(d, f), os.path.join(dst, f))
        open(os.path.join(dst, ".copied"), "w").close()
    return dst


def tlc_raw(ctx, spec_dir, module, cfg, workers=4, extra=(), env=None, timeout=900, xmx="4g",
            deque=False, cfg_text=None):
    d = _prep_spec_dir(ctx, spec_dir)
    if cfg_text is not None:
        with open(os.path.join(d, cfg), "w") as f:
            f.write(cfg_text)
    cmd = _java(xmx, deque) + ["-checkpoint", "0", "-workers", str(workers), "-metadir", ctx.metadir(),
                               "-config", cfg] + list(extra) + [module + ".tla"]
    t0 = time.time()
    rc, out, err = sh(cmd, timeout=timeout, env=env, cwd=d)
    return rc, out, err, time.time() - t0


def tlc_mc(ctx, spec_dir, module, cfg, workers=None, coverage=True, timeout=1200, xmx="8g",
           expect_ok=True, extra=(), cfg_text=None, env=None, require_actions=(), deque=False):
    """Exhaustive model check.  Any error/violation on the unchanged spec is an internal error
    (the spec is ours; a failing spec means a broken check, not a property violation),
    unless expect_ok=False, in which case (ok, result) is returned."""
    workers = workers or min(NCPU, 8)
    ex = list(extra)
    if coverage:
        ex = ["-coverage", "1"] + ex
    rc, out, err, wall = tlc_raw(ctx, spec_dir, module, cfg, workers, ex, timeout=timeout, xmx=xmx,
                                 cfg_text=cfg_text, env=env, deque=deque)
    m = _RE_STATES.findall(out)
    res = {"module": module, "cfg": cfg, "rc": rc, "wall_s": round(wall, 2), "out": out,
           "generated": int(m[-1][0]) if m else 0, "distinct": int(m[-1][1]) if m else 0}
    md = _RE_DEPTH.search(out)
    if md:
        res["depth"] = int(md.group(1))
    cov = {}
    for name, mod, taken, gen in _RE_COV.findall(out):
        # TLC prints coverage cumulatively several times; keep the max
        cov[name] = max(cov.get(name, 0), int(gen))    # states generated by this action
    res["coverage"] = cov
    ok = (rc == 0 and "Model checking completed. No error has been found." in out)
    res["ok"] = ok
    if expect_ok:
        if not ok:
            raise InternalError("TLC model check %s/%s failed (rc=%d):\n%s\n%s" % (module, cfg, rc, out[-6000:], err[-2000:]))
        norm = {}
        for kname, v in cov.items():
            kk = kname[2:] if kname.startswith("Do") else kname
            norm[kk] = norm.get(kk, 0) + v
        for a in require_actions:
            aa = a[2:] if a.startswith("Do") else a
            if norm.get(aa, 0) == 0:
                raise InternalError("vacuity guard: action %s of %s never taken in %s" % (a, module, cfg))
        ctx.add_model_run(res)
    return res


GEN_MARK = '"@@GEN@@"'


def tlc_gen(ctx, spec_dir, module, cfg, simulate=None, depth=None, workers=4, timeout=600, seed=None,
            xmx="4g", cfg_text=None, extra=(), env=None, limit=None):
    """Run a generator spec.  The spec prints   PrintT(<<"@@GEN@@", ToJson(x)>>)  ; we collect x.
    simulate=N: random behaviours (-simulate); TLC is stopped as soon as N distinct items were read
    (its own num= limit is only checked now and then).  Otherwise BFS (exhaustive within the cfg)."""
    ex = list(extra)
    if simulate:
        ex += ["-simulate", "num=%d" % simulate]
        if depth:
            ex += ["-depth", str(depth)]
        if seed is not None:
            ex += ["-seed", str(seed)]
        limit = limit or simulate
    d = _prep_spec_dir(ctx, spec_dir)
    if cfg_text is not None:
        with open(os.path.join(d, cfg), "w") as f:
            f.write(cfg_text)
    cmd = _java(xmx) + ["-workers", str(1 if simulate else workers), "-metadir", ctx.metadir(), "-config", cfg] + ex + [module + ".tla"]
    e = dict(os.environ)
    if env:
        e.update(env)
    t0 = time.time()
    p = subprocess.Popen(cmd, stdout=subprocess.PIPE, stderr=subprocess.DEVNULL, cwd=d, env=e)
    items, seen, tail = [], set(), []
    stopped = False
    prefix = "<<" + GEN_MARK
    try:
        for raw in p.stdout:
            line = raw.decode("utf-8", "replace").rstrip("\n")
            if line.startswith(prefix):
                body = line[len(prefix) + 2:]
                if body.endswith(">>"):
                    body = body[:-2]
                try:
                    sj = json.loads(body)
                    if sj in seen:
                        continue
                    seen.add(sj)
                    items.append(json.loads(sj))
                except Exception as exn:
                    raise InternalError("cannot parse generator line: %r (%s)" % (line[:300], exn))
                if limit and len(items) >= limit:
                    stopped = True
                    break
            else:
                tail.append(line)
                if len(tail) > 200:
                    tail = tail[-100:]
            if time.time() - t0 > timeout:
                raise InternalError("TLC generator %s/%s timed out" % (module, cfg))
    finally:
        if stopped or p.poll() is None:
            p.kill()
        p.wait()
    out = "\n".join(tail)
    if not stopped and p.returncode != 0:
        raise InternalError("TLC generator %s/%s failed (rc=%s):\n%s" % (module, cfg, p.returncode, out[-5000:]))
    if not items:
        raise InternalError("TLC generator %s/%s produced nothing:\n%s" % (module, cfg, out[-3000:]))
    m = _RE_STATES.findall(out)
    stats = {"module": module, "cfg": cfg, "wall_s": round(time.time() - t0, 2), "items": len(items),
             "generated": int(m[-1][0]) if m else 0, "distinct": int(m[-1][1]) if m else 0,
             "mode": "simulate" if simulate else "bfs"}
    return items, stats


_RE_TRACE_RESULT = re.compile(r'<<"TRACE_RESULT", (\d+), (\d+)>>')


def tlc_validate_file(ctx, spec_dir, module, cfg, trace_file, timeout=900, xmx="4g", env=None, deque=True):
    """-> (accepted_events, total_events, out).  The trace spec must define, following
    spec/common/TraceIO.tla, the register-1 tracking and the TRACE_RESULT postcondition."""
    e = {"TRACE": trace_file}
    if env:
        e.update(env)
    rc, out, err, wall = tlc_raw(ctx, spec_dir, module, cfg, 1, [], env=e, timeout=timeout, xmx=xmx, deque=deque)
    m = _RE_TRACE_RESULT.search(out)
    if not m or rc != 0:
        raise InternalError("trace validation run failed (rc=%d) for %s:\n%s\n%s" % (rc, trace_file, out[-5000:], err[-2000:]))
    return int(m.group(1)), int(m.group(2)), out


def split_executions(lines, reset_event="reset"):
    """group ndjson lines into executions; each starts with a reset event"""
    ex = []
    for ln in lines:
        if not ln.strip():
            continue
        if ('"e":"%s"' % reset_event) in ln or not ex:
            ex.append([])
        ex[-1].append(ln)
    return ex


def validate_traces(ctx, spec_dir, module, cfg, trace_file, classify, max_rejects=8, shards=None,
                    timeout=900, reset_event="reset", env=None, property_level=None):
    """Validate an ndjson trace consisting of many executions (each starting with a reset event).
    On a rejection the offending execution is cut out, re-validated alone (a rejection counts only
    if it repeats) and validation continues with the remainder.
    classify(execution_lines, index_of_rejected_line) -> (key, text)
    """
    lines = []
    for ln in read_text(trace_file).split("\n"):
        if not ln.strip():
            continue
        try:
            if not isinstance(json.loads(ln), dict):
                raise ValueError
        except ValueError:
            ln = '{"e":"garbled"}'       # a crashed / memory-corrupting execution: no trace spec accepts this event
        lines.append(ln)
    execs = split_executions(lines, reset_event)
    shards = shards or min(NCPU, 8)
    # shard executions round-robin in contiguous blocks
    n = len(execs)
    if n == 0:
        raise InternalError("empty trace file " + trace_file)
    per = (n + shards - 1) // shards
    # blocks of at most `per` executions and at most MAXLINES events: keeps single TLC runs short and the shards balanced
    MAXLINES = 6000
    blocks, cur, cur_lines = [], [], 0
    for ex in execs:
        if cur and (len(cur) >= per or cur_lines + len(ex) > MAXLINES):
            blocks.append(cur)
            cur, cur_lines = [], 0
        cur.append(ex)
        cur_lines += len(ex)
    if cur:
        blocks.append(cur)
    import concurrent.futures as cf
    with ctx._lock:
        ctx._valn = getattr(ctx, "_valn", 0) + 1
        tag = "v%d" % ctx._valn

    def run_block(bi_block):
        bi, block = bi_block
        rejected = []
        accepted_execs = 0
        events = 0
        rest = block
        rounds = 0
        while rest:
            rounds += 1
            f = ctx.path("val", "%s-%s-b%d-r%d.ndjson" % (module, tag, bi, rounds))
            with open(f, "w") as fh:
                for ex in rest:
                    fh.write("\n".join(ex) + "\n")
            acc, tot, out = tlc_validate_file(ctx, spec_dir, module, cfg, f, timeout=timeout, env=env)
            if acc >= tot:
                accepted_execs += len(rest)
                events += tot
                break
            # find the execution containing event index acc (0-based line acc is the rejected one)
            c = 0
            idx = None
            for i, ex in enumerate(rest):
                if c + len(ex) > acc:
                    idx = i
                    break
                c += len(ex)
            bad = rest[idx]
            events += c
            accepted_execs += idx
            # confirm alone
            f1 = ctx.path("val", "%s-%s-b%d-r%d-single.ndjson" % (module, tag, bi, rounds))
            with open(f1, "w") as fh:
                fh.write("\n".join(bad) + "\n")
            acc1, tot1, out1 = tlc_validate_file(ctx, spec_dir, module, cfg, f1, timeout=timeout, env=env)
            if acc1 >= tot1:
                raise InternalError("trace rejection did not repeat when the execution was validated alone: %s" % f)
            rejected.append((bad, acc1))
            rest = rest[idx + 1:]
            if len(rejected) >= max_rejects:
                break
        return accepted_execs, events, rejected

    tot_acc = 0
    tot_events = 0
    all_rej = []
    with cf.ThreadPoolExecutor(max_workers=shards) as pool:
        for acc, ev, rej in pool.map(run_block, list(enumerate(blocks))):
            tot_acc += acc
            tot_events += ev
            all_rej += rej
    ctx.cov["traces_validated_against_impl"] += tot_acc + len(all_rej)
    ctx.cov["events_validated"] += tot_events
    if property_level is not None:
        # The spec just used is implementation-shaped; only the property-level spec decides (DESIGN R1).  What it rejected is recorded as DRIFT, never as a
        # violation -- and what it ACCEPTED is not a verdict either: an implementation-level trace spec need not constrain every result the property talks about
        # (round-6 seeded change C17f: Trace_SplayI compares the node structure after exists() but not its return value, and the property-level validation used to
        # run only after an implementation-level rejection).  The whole file is therefore always validated against the property-level spec as well.
        pdir, pmod, pcfg = property_level
        ctx.cov["ilevel_executions_validated"] = ctx.cov.get("ilevel_executions_validated", 0) + tot_acc
        if all_rej:
            ctx.cov["drift_executions"] = ctx.cov.get("drift_executions", 0) + len(all_rej)
            bad0, at0 = all_rej[0]
            ctx.notes.append("DRIFT: %d+ executions are not behaviours of %s (first: event %d: %s); verdict taken from %s" %
                             (len(all_rej), module, at0 + 1, bad0[min(at0, len(bad0) - 1)][:160], pmod))
        ctx.cov["traces_validated_against_impl"] -= tot_acc + len(all_rej)
        ctx.cov["events_validated"] -= tot_events
        return validate_traces(ctx, pdir, pmod, pcfg, trace_file, classify, max_rejects=max_rejects, shards=shards,
                               timeout=timeout, reset_event=reset_event, env=env)
    for bad, at in all_rej:
        key, text = classify(bad, at)
        ctx.violation(key, text + " (rejected at event %d of %d: %s)" % (at + 1, len(bad), bad[min(at, len(bad) - 1)][:300]),
                      replay_text="\n".join(bad) + "\n")
    return tot_acc, all_rej


# --------------------------------------------------------------------------

def run_driver(exe, args, stdin_text=None, timeout=600, env=None):
    rc, out, err = sh([exe] + list(args), timeout=timeout, env=env,
                      stdin=stdin_text.encode() if stdin_text is not None else None)
    return rc, out, err


def main(run_fn, prop, level="model_checking"):
    import argparse
    ap = argparse.ArgumentParser()
    ap.add_argument("--tier", default=os.environ.get("VERIF_TIER", "quick"), choices=["quick", "thorough"])
    ap.add_argument("--replay", default=None)
    a = ap.parse_args(sys.argv[2:] if len(sys.argv) > 1 and not sys.argv[1].startswith("-") else sys.argv[1:])
    seed = int(os.environ.get("VERIF_SEED", "1") or 1)
    ctx = Ctx(prop, a.tier, seed, level)
    ctx.replay = a.replay
    try:
        run_fn(ctx)
        rc = ctx.finish()
    except InternalError as e:
        log("INTERNAL ERROR in check %s: %s" % (prop, e))
        if ctx.violations:
            # the machinery tripped after the code under test had already been caught (e.g. a crashing mutant left no trace to validate):
            # the violations found so far are the verdict
            ctx.notes.append("the check stopped early with an internal error after reporting violations: %s" % str(e)[:300])
            sys.exit(ctx.finish())
        sys.exit(2)
    except Exception:
        import traceback
        log("INTERNAL ERROR (unexpected exception) in check %s:\n%s" % (prop, traceback.format_exc()))
        if ctx.violations:
            ctx.notes.append("the check stopped early with an unexpected exception after reporting violations")
            sys.exit(ctx.finish())
        sys.exit(2)
    sys.exit(rc)


def run_driver_checked(ctx, exe, args, timeout=600, what="driver", replay_src=None, env=None, ok_codes=(0,)):
    """Run a conformance driver.  A crash (signal), abnormal exit or hang of the code under test is a
    violation in its own right (no property tolerates it on inputs the property quantifies over)."""
    if "(" in what and any(v[0].startswith("hang/") for v in ctx.violations):
        # a sanitizer / monitor build of a driver that already did not terminate as a plain build would only wait for the same time-out again
        ctx.notes.append("%s skipped: the plain build of this driver already hung" % what)
        return False, "", ""
    rc, out, err = run_driver(exe, args, timeout=timeout, env=env)
    if rc in ok_codes:
        return True, out, err
    if rc == 124:
        ctx.violation("hang/" + what, "%s did not terminate within %ds" % (what, timeout), replay_src=replay_src)
    else:
        ctx.violation("crash/" + what, "%s exited with status %d: %s" % (what, rc, err.strip()[-400:].replace("\n", " | ")),
                      replay_src=replay_src)
    return False, out, err


# --------------------------------------------------------------------------
# transition covers of a TLC state graph
#
# A generator spec prints one line per *generated transition* (ACTION_CONSTRAINT with PrintT):
#     <<"@@GEN@@", ToJson([f |-> ToString(vars), o |-> op', t |-> ToString(vars')])>>
# edge_tours() turns the edge list into operation sequences that start in the initial state and
# together take every transition at least once (model-based test generation: one test obligation
# per transition of the implementation-shaped spec).

def edge_tours(edges, maxlen=80, init=None):
    from collections import defaultdict, deque
    out = defaultdict(list)
    seen_e = set()
    for e in edges:
        k = (e["f"], json.dumps(e["o"], sort_keys=True), e["t"])
        if k in seen_e:
            continue
        seen_e.add(k)
        out[e["f"]].append((e["o"], e["t"]))
    if init is None:
        init = edges[0]["f"]
    # BFS tree from init
    parent = {init: None}
    dq = deque([init])
    while dq:
        n = dq.popleft()
        for o, t in out.get(n, ()):
            if t not in parent:
                parent[t] = (n, o)
                dq.append(t)

    def path_to(n):
        ops = []
        while parent[n] is not None:
            p, o = parent[n]
            ops.append(o)
            n = p
        ops.reverse()
        return ops
    uncovered = {n: list(reversed(v)) for n, v in out.items() if n in parent}
    tours = []
    order = sorted(uncovered, key=lambda n: len(path_to(n)))
    for start in order:
        while uncovered[start]:
            ops = path_to(start)
            n = start
            while len(ops) < maxlen and uncovered.get(n):
                o, t = uncovered[n].pop()
                ops.append(o)
                n = t
            tours.append(ops)
    return tours, len(seen_e), len(parent)


def run_driver_sharded(ctx, exe, lines, out_path, what="driver", nshards=None, timeout=3000, env=None, extra_args=(), header=None):
    """Run a script-driven driver (exe <script> <trace-out>) on `lines` split into shards that run in parallel;
    the traces are concatenated in shard order into out_path.  Returns True if every shard exited normally."""
    import concurrent.futures as cf
    if "(" in what and any(v[0].startswith("hang/") for v in ctx.violations):
        ctx.notes.append("%s skipped: the plain build of this driver already hung" % what)
        return False
    nshards = max(1, min(nshards or NCPU, len(lines)))
    per = (len(lines) + nshards - 1) // nshards
    parts = [lines[i:i + per] for i in range(0, len(lines), per)]
    jobs = []
    for i, part in enumerate(parts):
        s = ctx.path("shards", "%s-%d.txt" % (what.replace("/", "_"), i))
        o = "/dev/null" if out_path == "/dev/null" else ctx.path("shards", "%s-%d.ndjson" % (what.replace("/", "_"), i))
        open(s, "w").write((header + "\n" if header else "") + "\n".join(part) + "\n")
        jobs.append((s, o))
    results = []
    with cf.ThreadPoolExecutor(max_workers=nshards) as pool:
        futs = [pool.submit(run_driver, exe, [s, o] + list(extra_args), None, timeout, env) for s, o in jobs]
        for f in futs:
            results.append(f.result())
    ok = True
    with open(out_path, "w") as out:
        for (s, o), (rc, so, se) in zip(jobs, results):
            if o != "/dev/null" and os.path.exists(o):
                out.write(read_text(o))
            if rc != 0:
                ok = False
                if rc == 124:
                    ctx.violation("hang/" + what, "%s did not terminate within %ds" % (what, timeout), replay_src=s)
                else:
                    ctx.violation("crash/" + what, "%s exited with status %d: %s" % (what, rc, se.strip()[-400:].replace("\n", " | ")), replay_src=s)
    return ok


def read_text(path):
    """trace files written by a crashing / memory-corrupting mutant may contain arbitrary bytes"""
    with open(path, "rb") as f:
        return f.read().decode("utf-8", "replace")
