#!/bin/bash
# seedcheck.sh <ID> [props...]: run the quick checks against the seeded worktree
id=$1; shift; props=${*:-$id}
cd /verif
for P in $props; do
  s=$(date +%s)
  VERIF_REPO=/tmp/${SEEDPFX:-seed}_$id VERIF_EVIDENCE=/tmp/ev_seed tools/check $P --tier quick > /var/tmp/seedcheck_${id}_$P.log 2>&1; rc=$?
  echo "seed $id vs check $P: rc=$rc viol=$(grep -c '^VIOLATION' /var/tmp/seedcheck_${id}_$P.log) secs=$(( $(date +%s) - s ))"
  grep '^VIOLATION' /var/tmp/seedcheck_${id}_$P.log | cut -c1-330 | awk '{k=$4; c[k]++; if (c[k]<=1) print}' | head -3
done
