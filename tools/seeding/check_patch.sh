#!/bin/bash
# check_patch.sh <patch.diff> <PROP> [tier]: run a check against a scratch copy of /repo's HEAD with the patch applied
p=$1; prop=$2; tier=${3:-quick}
S=/var/tmp/patch_scratch_$$_$prop
rm -rf "$S"; mkdir -p "$S"
git -C /repo archive HEAD tlx | tar -x -C "$S"
(cd "$S" && patch -p1 -s < "$p") || { echo "patch failed"; rm -rf "$S"; exit 9; }
s=$(date +%s)
VERIF_REPO="$S" VERIF_EVIDENCE=/var/tmp/ev_seed VERIF_REPLAYS=/var/tmp/replays_seed timeout 3600 /verif/tools/check $prop --tier $tier > /var/tmp/check_patch_$prop.$$.log 2>&1; rc=$?
echo "patch $(basename $(dirname $p)) vs $prop: rc=$rc viol=$(grep -c '^VIOLATION' /var/tmp/check_patch_$prop.$$.log) secs=$(( $(date +%s) - s )) log=/var/tmp/check_patch_$prop.$$.log"
grep '^VIOLATION' /var/tmp/check_patch_$prop.$$.log | cut -c1-300 | head -3
rm -rf "$S"
