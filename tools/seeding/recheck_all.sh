#!/bin/bash
# Re-run the quick tier of every property against every seeded change kept under /verif/seeded (scratch copy of /repo's HEAD + the patch).
# RECHECK_ONLY=<regex> restricts the run to matching directory names; VERIF_SEED is passed through (schedule-dependent changes should be caught under every seed).
# Expected: exit status 1 with VIOLATION lines for each.  Usage: tools/seeding/recheck_all.sh [summary-file]
V=$(cd "$(dirname "$0")/../.." && pwd)
OUT=${1:-/var/tmp/seeded_recheck.txt}
: > "$OUT"
for d in "$V"/seeded/*/; do
  name=$(basename "$d"); prop=${name:0:3}
  if [ -n "$RECHECK_ONLY" ] && ! echo "$name" | grep -Eq "$RECHECK_ONLY"; then continue; fi
  S=/var/tmp/seeded_scratch_$name
  rm -rf "$S"; mkdir -p "$S"
  git -C /repo archive HEAD tlx | tar -x -C "$S"
  if ! (cd "$S" && patch -p1 -s < "$d/patch.diff" > /dev/null 2>&1); then echo "$name patch-failed" >> "$OUT"; rm -rf "$S"; continue; fi
  s=$(date +%s)
  VERIF_REPO="$S" timeout 3600 "$V/tools/check" "$prop" --tier quick > /var/tmp/seeded_recheck_$name.log 2>&1; rc=$?
  echo "$name rc=$rc viol=$(grep -c '^VIOLATION' /var/tmp/seeded_recheck_$name.log) secs=$(( $(date +%s) - s ))" >> "$OUT"
  rm -rf "$S"
done
echo RECHECKDONE >> "$OUT"
