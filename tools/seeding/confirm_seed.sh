#!/bin/bash
# confirm_seed.sh <ID>: demo fails on modified worktree, passes on clean tree; listed existing tests pass with the change
id=$1; WT=/tmp/${SEEDPFX:-seed}_$id; OUT=/tmp/${OUTPFX:-seedout}_$id
cd $OUT || exit 9
echo "== $id: $(python3 -c "import json;m=json.load(open('$OUT/meta.json'));print(m['summary'][:200])")"
git -C $WT diff --stat | tail -1
cmd=$(python3 -c "import json;print(json.load(open('$OUT/meta.json'))['demo_cmd'])")
echo "demo_cmd: $cmd"
( cd $OUT && timeout 900 bash -c "$cmd" > $OUT/confirm_mod.log 2>&1 ); rc_mod=$?
# (git stash is shared between worktrees: save the change to a file instead)
git -C $WT diff > $OUT/confirm_saved.diff
git -C $WT checkout -- .
( cd $OUT && timeout 900 bash -c "$cmd" > $OUT/confirm_clean.log 2>&1 ); rc_clean=$?
git -C $WT apply $OUT/confirm_saved.diff
cmp -s <(git -C $WT diff) $OUT/patch.diff || echo "NOTE: worktree diff differs from patch.diff"
echo "demo: modified rc=$rc_mod  clean rc=$rc_clean"
tests=$(python3 -c "
import json,os
m=json.load(open('$OUT/meta.json'))
print(' '.join(os.path.basename(t.split()[0]) for t in m.get('tests_run',[])))")
echo "tests: $tests"
if [ -n "$tests" ]; then
  cmake -G Ninja -S $WT -B $WT/_build -DCMAKE_BUILD_TYPE=RelWithDebInfo -DTLX_BUILD_TESTS=ON > /dev/null 2>&1
  for t in $tests; do
    ninja -C $WT/_build $t > $OUT/confirm_build_$t.log 2>&1 || { echo "  build FAILED $t"; continue; }
    ( cd $WT/_build/tests && timeout 1800 ./$t > $OUT/confirm_test_$t.log 2>&1 ); echo "  $t rc=$?"
  done
  rm -rf $WT/_build
fi
