#!/usr/bin/env python3
"""Regenerates /verif/MANIFEST.json from tools/manifest_table.py (single source of truth)."""
import json, os, sys
V = os.path.dirname(os.path.dirname(os.path.abspath(__file__)))
sys.path.insert(0, os.path.join(V, "tools"))
from manifest_table import CHECKS, NA, EXTRA

MC = "model_checking"

def main():
    props = [json.loads(l)["id"] for l in open(os.path.join(V, "properties.jsonl"))]
    hooks_commits = []
    hp = os.path.join(V, "hooks_commits.txt")
    if os.path.exists(hp):
        hooks_commits = [l.split()[0] for l in open(hp) if l.strip() and not l.startswith("#")]
    m = {
     "version": 1,
     "setup_cmd": "tools/setup.sh",
     "hooks": {"guard": "TLX_VERIF_HOOKS",
               "enable": "drivers are compiled by the checks themselves from /repo's working tree (g++ -I/repo); -DTLX_VERIF_HOOKS enables the guarded hooks listed in source_commits (PS5 step life-cycle events for C04; everything else needs no hook: templates are instantiated with instrumented parameters and the sync primitives are redirected by a force-included shim header)",
               "baseline_off_cmd": "cmake --build /repo/_build && ctest --test-dir /repo/_build -j8 --timeout 900",
               "source_commits": hooks_commits, "add_only": True},
     "engines": [{"name": "tlc", "path": "/opt/veriftools/tla/tla2tools.jar", "serves_properties": sorted(CHECKS),
                  "kind_free_text": "explicit-state model checker for the TLA+ specs under /verif/spec (model checking, behaviour generation, trace validation)"}],
     "checks": [], "not_applicable": [],
     "notes": "All checks: tools/check <ID> --tier quick|thorough. See DESIGN.md.",
    }
    for pid in props:
        if pid in CHECKS:
            c = CHECKS[pid]
            m["checks"].append({
              "property_id": pid,
              "quick_cmd": "tools/check %s --tier quick" % pid,
              "thorough_cmd": "tools/check %s --tier thorough" % pid,
              "evidence_file": "/verif/evidence/%s.json" % pid,
              "replay_cmd_template": "tools/check %s --replay {path}" % pid,
              "engine": "tlc",
              "level_claimed": {"category": c.get("level", MC), "text": c["text"] + (" " + EXTRA[pid] if pid in EXTRA else ""), "design_ref": c.get("ref", "")},
              "level_note": c["note"] + " Executions accepted by an implementation-level trace spec are always validated against the property-level spec as well (DESIGN R1, 9.10).", "technique": c["technique"]})
        else:
            m["not_applicable"].append({"property_id": pid, "reason": NA.get(pid, "check under construction in this session; not yet registered")})
    json.dump(m, open(os.path.join(V, "MANIFEST.json"), "w"), indent=1)

main()
