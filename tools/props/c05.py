"""C05 -- sequential multiway merge.  spec/mwmerge/{MergeA,Trace_Merge}.tla"""
import itertools
import json
import os
import random
import re
from vlib import *

SD = os.path.join(SPEC, "mwmerge")


def sorted_seqs(keys, maxlen):
    out = [[]]
    for n in range(1, maxlen + 1):
        out += [list(c) for c in itertools.combinations_with_replacement(keys, n)]
    return out


def line(t, L):
    return "%d %s %d" % (len(t), " ".join("%d %s" % (len(x), " ".join(map(str, x))) for x in t), L)


def gen_inputs(ctx, rng, quick):
    lines = []
    S2 = sorted_seqs((1, 2), 2)           # 6 sequences incl. the empty one
    S3 = sorted_seqs((1, 2, 3), 3)        # 20
    for k in (0, 1, 2, 3):
        for t in itertools.product(S2, repeat=k):
            tot = sum(map(len, t))
            for L in range(tot + 1):
                lines.append(line(t, L))
    prod = [t for k in ((2,) if quick else (2, 3)) for t in itertools.product(S3, repeat=k)]
    for t in prod:
        tot = sum(map(len, t))
        for L in ({0, tot, tot // 2} if quick else range(tot + 1)):
            lines.append(line(t, L))
    for k in ((4,) if quick else (4, 5)):
        prod = list(itertools.product(S2, repeat=k))
        if quick:
            prod = rng.sample(prod, len(prod) // 3)
        for t in prod:
            tot = sum(map(len, t))
            for L in {0, tot, rng.randint(0, tot)}:
                lines.append(line(t, L))
    for i in range(150 if quick else 3000):
        k = rng.choice((3, 4, 5, 6, 7, 8, 9, 12, 13, 16, 17))
        nk = rng.choice((1, 2, 3, 6))
        t = []
        dom = rng.randrange(k) if rng.random() < 0.3 else -1
        for j in range(k):
            ln = 0 if rng.random() < 0.25 else rng.randint(1, 6)
            if j == dom:
                ln = rng.randint(20, 60)
            t.append(sorted(rng.randint(1, nk) for _ in range(ln)))
        tot = sum(map(len, t))
        for L in {0, tot, rng.randint(0, tot)}:
            lines.append(line(t, L))
    return lines


def extract_tables(path):
    """the comparison-operator tables of the unrolled 3-way / 4-way merges, read from the source"""
    src = read_text(path)
    t3 = re.findall(r"TLX_MERGE3CASE\((\d), (\d), (\d), (<=?), (<=?)\);", src)
    t4 = re.findall(r"TLX_MERGE4CASE\((\d), (\d), (\d), (\d), (<=?), (<=?), (<=?)\);", src)
    if len(t3) != 6 or len(t4) != 24:
        raise InternalError("could not extract the TLX_MERGE3CASE / TLX_MERGE4CASE tables from %s (%d / %d rows)" % (path, len(t3), len(t4)))
    def rows(t, k):
        return " @@ ".join("<<%s>> :> <<%s>>" % (", ".join(r[:k]), ", ".join('"%s"' % o for o in r[k:])) for r in t)
    return ("---- MODULE MergeCaseTables ----\n\\* extracted from %s by tools/props/c05.py\nEXTENDS TLC\nTable3 == %s\nTable4 == %s\n====\n" %
            (os.path.relpath(path, REPO), rows(t3, 3), rows(t4, 4)))


def unrolled_variants(ctx, quick):
    """MergeCaseI: the goto machines of multiway_merge_3_variant / _4_variant with the operator tables of the current source"""
    from vlib import _prep_spec_dir
    d = _prep_spec_dir(ctx, SD)
    open(os.path.join(d, "MergeCaseTables.tla"), "w").write(extract_tables(os.path.join(REPO, "tlx/algorithm/multiway_merge.hpp")))
    CFG = "CONSTANTS K = %d\n Keys = {1, 2}\n MaxLen = %d\nSPECIFICATION Spec\nINVARIANT EmitsStableMerge\nCHECK_DEADLOCK FALSE\n"
    for (k, ml) in ([(3, 3), (4, 2)] if quick else [(3, 4), (4, 3)]):
        r = tlc_mc(ctx, SD, "MergeCaseI", "mc_mergecase_%d.cfg" % k, workers=NCPU, coverage=False, timeout=6000, xmx="12g", expect_ok=False, cfg_text=CFG % (k, ml))
        if r["ok"]:
            ctx.add_model_run(r)
        elif "Invariant EmitsStableMerge is violated" in r["out"]:
            # the tables come from the code under test: this is a verdict on the code
            ms = re.findall(r"seqs = (<<.*>>)", r["out"])
            m = re.match(r"(.*)", ms[-1]) if ms else None
            ctx.violation("merge/unrolled-%d-way" % k, "multiway_merge_%d_variant: with the comparison operators of the source's TLX_MERGE%dCASE table the goto machine does not emit "
                          "the stable merge (TLC counterexample: seqs = %s)" % (k, k, m.group(1)[:200] if m else "?"))
        else:
            raise InternalError("TLC model check MergeCaseI failed (rc=%s):\n%s" % (r["rc"], r["out"][-3000:]))


def run(ctx):
    quick = ctx.tier == "quick"
    rng = random.Random(ctx.seed)
    ctx.cov["rule"] = ("cases = (tuple of sorted sequences incl. empty ones, length L): complete products over small key sets for k = 0..5 with every / several L, "
                       "plus seeded tuples for k up to 17 (dominant sequence, heavy duplicates); every case runs under {stable, unstable} x {sentinels, none} x "
                       "4 algorithms with element size / comparator / front end rotating; non-trivial = total size >= 2; distinct by content")
    tlc_mc(ctx, SD, "MergeA", "mc_merge_run.cfg", workers=8, timeout=3000,
           cfg_text="CONSTANTS MaxK = %d\n MaxLen = %d\n Keys = {1,2}\nSPECIFICATION Spec\nINVARIANTS OutSorted SmallestTaken AdvanceExact StableOrder\nCHECK_DEADLOCK FALSE\n" % ((3, 2) if quick else (4, 2)))
    unrolled_variants(ctx, quick)
    lines = gen_inputs(ctx, rng, quick)
    for ln in lines:
        ctx.count_case(ln, nontrivial=len(ln.split()) > 4)
    scr = ctx.path("mm_scripts.txt")
    open(scr, "w").write("\n".join(lines) + "\n")
    src = os.path.join(HARNESS, "drv_mwmerge.cpp")
    exe = build(ctx, "drv_mwmerge", [src])
    tr = ctx.path("mm.ndjson")
    run_driver_checked(ctx, exe, [scr, tr], what="drv_mwmerge", replay_src=scr)
    exe_a = build(ctx, "drv_mwmerge_asan", [src], flags=["-fsanitize=address,undefined", "-fno-sanitize-recover=undefined"])
    run_driver_checked(ctx, exe_a, [scr, ctx.path("mm_asan.ndjson")], what="drv_mwmerge(asan)", replay_src=scr, timeout=3000)
    if not (os.path.exists(tr) and os.path.getsize(tr)):
        return
    tl = [x for x in read_text(tr).split("\n") if x]
    ctx.cov["merge_calls_validated"] = len(tl) - 1
    ctx.sample({"recorded_call": json.loads(tl[len(tl) // 2])})
    # group calls into chunks of 25 per "execution" so that one bad call does not hide the others for long
    per = ctx.path("mm_chunks.ndjson")
    with open(per, "w") as f:
        body = [x for x in tl if '"e":"reset"' not in x]
        for i in range(0, len(body), 25):
            f.write('{"e":"reset"}\n' + "\n".join(body[i:i + 25]) + "\n")

    def classify(ex, at):
        e = json.loads(ex[min(at, len(ex) - 1)])
        return ("merge/%s/%s/mwma%s" % ("stable" if e.get("stable") else "unstable", "sentinels" if e.get("sentinels") else "plain", e.get("mwma")),
                "multiway merge (k=%d, L=%s, %s, mwma %s, %s elements) did not produce a legal merge run / return value / input advance" %
                (len(e.get("seqs", [])), e.get("len"), "stable" if e.get("stable") else "unstable", e.get("mwma"), e.get("el")))
    validate_traces(ctx, SD, "Trace_Merge", "Trace_Merge.cfg", per, classify, shards=NCPU, max_rejects=20)
    ctx.assumptions += ["input sequences are sorted by the comparator; L <= total size (documented preconditions)",
                        "sentinel variants: each sequence is followed in memory by one element greater than all real ones"]
