"""C15 -- sorting networks.  spec/networks/{NetA,NetI,Trace_Net}.tla"""
import json
import os
from vlib import *

SD = os.path.join(SPEC, "networks")


def run(ctx):
    quick = ctx.tier == "quick"
    ctx.cov["rule"] = ("cases = (family, entry point, n): the compare-exchange sequence recorded from the real code for all 2^n zero-one inputs; TLC "
                       "decides each by the zero-one principle over all 2^n inputs; non-trivial = n >= 2; distinct by (family, entry, n)")
    exe = build(ctx, "drv_networks", [os.path.join(HARNESS, "drv_networks.cpp")], opt="-O2")
    tr = ctx.path("nets.ndjson")
    ok, out, err = run_driver_checked(ctx, exe, [tr], what="drv_networks")
    exe_a = build(ctx, "drv_networks_asan", [os.path.join(HARNESS, "drv_networks.cpp")], flags=["-fsanitize=address,undefined", "-fno-sanitize-recover=undefined"])
    run_driver_checked(ctx, exe_a, [ctx.path("nets_asan.ndjson")], what="drv_networks(asan)", timeout=1200)
    if not ok:
        return
    lines = [x for x in read_text(tr).split("\n") if x]
    nets = [json.loads(x) for x in lines if '"e":"net"' in x]
    for n in nets:
        ctx.count_case("%s/%s/%d" % (n["family"], n["entry"], n["n"]), nontrivial=n["n"] >= 2)
    ctx.cov["zero_one_inputs_executed"] = sum(2 ** n["n"] for n in nets)
    ctx.cov["exhaustive"] = True
    ctx.sample({"recorded_network": {k: nets[10][k] for k in ("family", "n", "entry", "seq")}})
    # explicit-state exploration of the recorded networks (all 2^n inputs x every prefix of the comparator sequence)
    # (the networks come from the code under test: an invariant violation here is a verdict on the code, reported precisely by the trace validation below)
    r = tlc_mc(ctx, SD, "NetI", "mc_net.cfg", workers=8, coverage=False, env={"TRACE": tr}, timeout=3000, xmx="16g", expect_ok=False,
               cfg_text="CONSTANT MaxN = %d\nSPECIFICATION Spec\nINVARIANT SortedAtEnd\nCHECK_DEADLOCK FALSE\n" % (10 if quick else 16))
    if r["ok"]:
        ctx.add_model_run(r)
    elif "Invariant SortedAtEnd is violated" in r["out"]:
        ctx.notes.append("NetI: a recorded network leaves some zero-one input unsorted (see the violation reported by the trace validation)")
    else:
        raise InternalError("TLC model check NetI failed (rc=%s):\n%s" % (r["rc"], r["out"][-3000:]))
    # vacuity guard: a network with one comparator removed must be rejected
    broken = json.loads(json.dumps([n for n in nets if n["family"] == "best" and n["n"] == 16 and n["entry"] == "direct"][0]))
    del broken["seq"][len(broken["seq"]) // 2]
    fneg = ctx.path("neg.ndjson")
    open(fneg, "w").write(lines[0] + "\n" + json.dumps(broken) + "\n")
    acc, tot, _ = tlc_validate_file(ctx, SD, "Trace_Net", "Trace_Net.cfg", fneg)
    if acc >= tot:
        raise InternalError("a sorting network with one comparator removed was accepted: the zero-one check is vacuous")
    ctx.notes.append("self-test: best::sort16 with one comparator removed is rejected by SortsAllZeroOne, as expected")
    # the verdict: every recorded network, every compare-exchange call.  One execution per event so that each is judged on its own.
    per = ctx.path("nets_per_event.ndjson")
    with open(per, "w") as f:
        for ln in lines:
            if '"e":"reset"' in ln:
                continue
            f.write('{"e":"reset"}\n' + ln + "\n")

    def classify(ex, at):
        e = json.loads(ex[-1])
        if e.get("e") == "net":
            return ("%s/%s/n%d" % (e["family"], e["entry"], e["n"]), "sorting network %s %s n=%d does not sort every zero-one input (or is not data-oblivious: %d sequences; %d wrong real outputs)" %
                    (e["family"], e["entry"], e["n"], e["variants"], e["bad_outputs"]))
        return ("cswap", "the default compare-exchange functor does not leave (min, max) / is not a permutation of its arguments")
    validate_traces(ctx, SD, "Trace_Net", "Trace_Net.cfg", per, classify, max_rejects=100)
    ctx.assumptions += ["zero-one principle: a data-oblivious compare-exchange network that sorts all 0/1 inputs sorts every input under every strict weak order",
                        "obliviousness is observed on all 2^n zero-one inputs (one comparator sequence per network)"]
