"""C01 -- B+ tree containers vs. the std ordered containers.  spec/btree/{OrderedA,MC_OrderedA,Gen_Ordered,Trace_Ordered}.tla"""
import json
import os
import random
from vlib import *
from props.btree_common import *


def run(ctx):
    quick = ctx.tier == "quick"
    rng = random.Random(ctx.seed)
    ctx.cov["rule"] = ("cases = (history, flavour, configuration): histories = TLC transition cover of the abstract multiplicity state (2 keys, multiplicity <= 2, every call of the "
                       "script alphabet from every state), TLC random walks with fill / drain phases over 8 keys (40-120 calls) and seeded long fill / drain histories (150-3000 "
                       "calls over 14-40 keys with bulk loads at capacity multiples, copies, assignments, swaps, comparisons); every history runs on set, multiset, map, multimap "
                       "x 10 configurations (leaf slots 4-16 x inner slots 4-16 chosen independently, linear / binary node search, less / greater, int / tracked elements); "
                       "after every call: contents of both containers, reverse walk, size, and find / count / lower_bound / upper_bound / exists / equal_range (const and "
                       "non-const) for 11 probe keys; non-trivial = history with at least 2 calls")
    for multi in ("TRUE", "FALSE"):
        for desc in ("FALSE", "TRUE"):
            tlc_mc(ctx, SD, "MC_OrderedA", "mc_ordered_run.cfg", workers=8, coverage=False, timeout=3000,
                   cfg_text="CONSTANTS Multi = %s\n IsMap = FALSE\n Desc = %s\n Keys = {1, 2, 3, 4}\n MaxLen = %d\nSPECIFICATION Spec\nINVARIANTS LawsHold Trichotomy\nCHECK_DEADLOCK FALSE\n" %
                   (multi, desc, 5 if quick else 7))
    # the in-node searches (binary and linear) against their definition, every sorted node content; the seeded change C01b must be refuted
    NS = "CONSTANTS Keys = {1, 2, 3, 4}\n MaxSlots = %d\n Variant = \"%s\"\nSPECIFICATION Spec\nINVARIANT SearchesAgree\nCHECK_DEADLOCK FALSE\n"
    tlc_mc(ctx, SD, "NodeSearchI", "mc_nodesearch.cfg", workers=8, coverage=False, timeout=3000, cfg_text=NS % (6 if quick else 9, "fixed"))
    r = tlc_mc(ctx, SD, "NodeSearchI", "mc_nodesearch_neg.cfg", workers=8, coverage=False, timeout=3000, expect_ok=False, cfg_text=NS % (5, "lower_returns_on_match"))
    if r["ok"] or " is violated" not in r["out"]:
        raise InternalError("negative self-test: NodeSearchI with find_lower returning on the first match is not refuted")
    # the search-free form of a range insertion used by Trace_Ordered accepts exactly what the step-by-step definition accepts
    for (mu, im) in (("TRUE", "TRUE"), ("FALSE", "TRUE"), ("TRUE", "FALSE")):
        tlc_mc(ctx, SD, "MC_RangeEq", "mc_rangeeq_%s_%s.cfg" % (mu, im), workers=8, coverage=False, timeout=3000,
               cfg_text="CONSTANTS Multi = %s\n IsMap = %s\n Desc = FALSE\n Keys = {1, 2}\n MaxS = %d\n MaxE = %d\nSPECIFICATION Spec\nINVARIANT Equivalent\nCHECK_DEADLOCK FALSE\n" %
               (mu, im, 2 if quick else 3, 3))
    lines, header = histories(ctx, rng, quick)
    for ln in lines:
        ctx.count_case(ln, nontrivial=len(ln.split()) >= 5)
    exe = build_driver(ctx)
    tr = ctx.path("bt.ndjson")
    run_driver_sharded(ctx, exe, lines, tr, what="drv_btree", extra_args=["0", "0123", "0123456789"], header=header)
    if not (os.path.exists(tr) and os.path.getsize(tr)):
        return
    groups = split_groups(read_text(tr), False)
    nev = 0
    jobs = []
    for (fl, desc), evs in sorted(groups.items()):
        nev += sum(1 for x in evs if x.startswith('{"e":"op"'))
        gf = ctx.path("bt_%s_%s.ndjson" % (FLAVOURS[fl], "desc" if desc else "asc"))
        open(gf, "w").write("\n".join(evs) + "\n")

        def classify(ex, at, fl=fl, desc=desc):
            e = jl(ex[min(at, len(ex) - 1)])
            cfg = jl(ex[0]) if ex and ex[0].startswith('{"e":"reset"') else {}
            if e.get("e") != "op":
                return ("btree/%s/crash" % FLAVOURS[fl], "btree_%s: execution ended abnormally: %s" % (FLAVOURS[fl], str(e)[:120]))
            return ("btree/%s/%s" % (FLAVOURS[fl], e.get("op")),
                    "btree_%s (leaf %s / inner %s slots, %s search, %s): call %s%s gives a result, contents or query answer that std::%s would not" %
                    (FLAVOURS[fl], cfg.get("ls"), cfg.get("is"), "binary" if cfg.get("bin") else "linear", "greater" if desc else "less", e.get("op"),
                     (" key %s" % e.get("k")) if "k" in e else "", FLAVOURS[fl]))
        jobs.append((gf, classify))
    import concurrent.futures as cf
    with cf.ThreadPoolExecutor(max_workers=len(jobs) or 1) as pool:
        for f in [pool.submit(validate_traces, ctx, SD, "Trace_Ordered", "Trace_Ordered.cfg", gf, cl, 6, max(2, NCPU // 4), 3000) for gf, cl in jobs]:
            f.result()
    ctx.cov["calls_validated_distinct"] = nev
    ops = [x for x in read_text(tr).split("\n") if x.startswith('{"e":"op"') and len(x) < 1500]
    if ops:
        ctx.sample({"recorded_call": jl(ops[len(ops) // 2])})
    ctx.assumptions += ["keys are ints (or a tracked wrapper of an int) ordered by std::less / std::greater through a function object; payloads are distinct serial numbers",
                        "iterator positions are observed as distance from begin()", "erase(first, last) is not implemented by tlx (BTREE_TODO) and is not exercised"]
