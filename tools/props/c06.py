"""C06 -- parallel mergesort.  spec/psort/{SortA,MC_SortA,Trace_Sort}.tla"""
import itertools
import json
import os
import random
from vlib import *

SD = os.path.join(SPEC, "psort")
VS = os.path.join(HARNESS, "vsched", "vsched.cpp")
SHIM = ["-include", "vsched/vsched.hpp"]


def run(ctx):
    quick = ctx.tier == "quick"
    rng = random.Random(ctx.seed)
    ctx.cov["rule"] = ("cases = (key vector, configuration): every key vector over 2 keys up to length 6 (quick) / 3 keys up to length 7 (thorough) and shaped vectors "
                       "of length 0..40 (all equal, 2-4 distinct keys, sorted, reversed, n < threads, n not divisible by threads); each under 8 configurations = "
                       "stable x {exact, sampling} x threads in {1..8,16,20} x oversampling x shim schedule (random, PCT, run-first); non-trivial = n >= 2")
    tlc_mc(ctx, SD, "MC_SortA", "mc_sorta.cfg", workers=8, coverage=False, timeout=3000,
           cfg_text="CONSTANTS MaxN = %d\n Keys = {1,2,3}\nSPECIFICATION Spec\nINVARIANTS StableUnique SomeSorted\nCHECK_DEADLOCK FALSE\n" % (4 if quick else 5))
    # PMergesortI: the phases of parallel_sort_mwms_pu, every overlap of phases of different threads; barriers switched off must be refuted
    PM = ("CONSTANTS T = %d\n N = %d\n Keys = {1, 2}\n Sampling = %s\n UseB2 = %s\n UseB3 = %s\nSPECIFICATION Spec\n"
          "INVARIANTS NoConflict PiecesOk SortedPerm StableResult TemporariesDestroyedOnce\n%sCHECK_DEADLOCK FALSE\n")
    live = "PROPERTY Terminates\n"
    for (t, n, smp, lv) in ([(2, 4, "FALSE", live), (3, 5, "FALSE", live), (2, 4, "TRUE", live)] if quick else
                            [(2, 4, "FALSE", live), (3, 5, "FALSE", live), (3, 6, "FALSE", live), (4, 6, "FALSE", ""), (2, 4, "TRUE", live), (2, 5, "TRUE", live), (3, 5, "TRUE", "")]):
        tlc_mc(ctx, SD, "PMergesortI", "mc_pmsort_run.cfg", workers=NCPU, coverage=False, timeout=3000, xmx="12g", cfg_text=PM % (t, n, smp, "TRUE", "TRUE", lv))
    for (b2, b3) in (("FALSE", "TRUE"), ("TRUE", "FALSE")):
        r = tlc_mc(ctx, SD, "PMergesortI", "mc_pmsort_neg.cfg", workers=NCPU, coverage=False, timeout=3000, expect_ok=False, cfg_text=PM % (2, 4, "FALSE", b2, b3, ""))
        if r["ok"] or " is violated" not in r["out"]:
            raise InternalError("negative self-test: PMergesortI without barrier (UseB2=%s UseB3=%s) does not violate NoConflict" % (b2, b3))
    ctx.cov["negative_self_tests"] = 2
    lines = []
    for n in range(0, 7 if quick else 8):
        for ks in itertools.product((1, 2) if quick else (1, 2, 3), repeat=n):
            lines.append("%d %s %d" % (n, " ".join(map(str, ks)), rng.randrange(1 << 30)))
    for i in range(120 if quick else 3000):
        n = rng.randint(0, 40)
        shape = rng.choice(("equal", "few", "few", "sorted", "reversed", "random"))
        nk = rng.choice((2, 3, 4))
        if shape == "equal": ks = [1] * n
        elif shape == "few": ks = [rng.randint(1, nk) for _ in range(n)]
        elif shape == "sorted": ks = sorted(rng.randint(1, 9) for _ in range(n))
        elif shape == "reversed": ks = sorted((rng.randint(1, 9) for _ in range(n)), reverse=True)
        else: ks = [rng.randint(1, 30) for _ in range(n)]
        lines.append("%d %s %d" % (n, " ".join(map(str, ks)), rng.randrange(1 << 30)))
    for ln in lines:
        ctx.count_case(ln, nontrivial=int(ln.split()[0]) >= 2)
    src = os.path.join(HARNESS, "drv_pmsort.cpp")
    pcpp = os.path.join(REPO, "tlx/algorithm/parallel_multiway_merge.cpp")
    exe = build(ctx, "drv_pmsort", [src, pcpp, VS], flags=SHIM)
    tr = ctx.path("ps.ndjson")
    run_driver_sharded(ctx, exe, lines, tr, what="drv_pmsort")
    exe_t = build(ctx, "drv_pmsort_tsan", [src, pcpp], flags=["-include", "vsched/nosched.hpp", "-DNO_VSCHED", "-fsanitize=thread", "-g"])
    run_driver_sharded(ctx, exe_t, lines[:: (6 if quick else 2)], ctx.path("ps_tsan.ndjson"), what="drv_pmsort(tsan)", env={"TSAN_OPTIONS": "halt_on_error=1 exitcode=66"})
    exe_a = build(ctx, "drv_pmsort_asan", [src, pcpp, VS], flags=SHIM + ["-fsanitize=address,undefined", "-fno-sanitize-recover=undefined"])
    run_driver_sharded(ctx, exe_a, lines[1:: (6 if quick else 2)], ctx.path("ps_asan.ndjson"), what="drv_pmsort(asan)", env={"ASAN_OPTIONS": "detect_leaks=0"})
    if not (os.path.exists(tr) and os.path.getsize(tr)):
        return
    tl = [x for x in read_text(tr).split("\n") if x]
    calls = [x for x in tl if '"e":"sort"' in x]
    ctx.cov["sort_calls_validated"] = len(calls)
    if calls:
        ctx.sample({"recorded_call": json.loads(calls[len(calls) // 2])})

    def classify(ex, at):
        e = json.loads(ex[min(at, len(ex) - 1)])
        if e.get("e") != "sort":
            return ("pmsort/crash", "a parallel_mergesort call crashed or hung: %s" % str(e)[:160])
        if e.get("deadlock"):
            return ("pmsort/deadlock", "parallel_mergesort did not terminate (deadlock under the shim)")
        if e.get("problems"):
            return ("pmsort/race", "parallel_mergesort: %s" % "; ".join(e.get("problem_text", []))[:200])
        if e.get("live_delta"):
            return ("pmsort/temporaries", "parallel_mergesort left %s element instances alive (temporary copies not destroyed)" % e.get("live_delta"))
        return ("pmsort/%s/%s/result" % ("stable" if e.get("stable") else "unstable", "sampling" if e.get("mwmsa") == 0 else "exact"),
                "%sparallel_mergesort (n=%d, threads=%s, %s splitting) did not produce a sorted permutation%s" %
                ("stable_" if e.get("stable") else "", len(e.get("keys", [])), e.get("threads"), "sampling" if e.get("mwmsa") == 0 else "exact", " in stable order" if e.get("stable") else ""))
    # implementation level first (phase discipline of the recorded array accesses as in PMergesortI); what it rejects but the property-level
    # Trace_Sort accepts is DRIFT, not a violation
    validate_traces(ctx, SD, "Trace_SortI", "Trace_SortI.cfg", tr, classify, shards=NCPU, max_rejects=20, property_level=(SD, "Trace_Sort", "Trace_Sort.cfg"))
    ctx.assumptions += ["element accesses to the input range are instrumented for the shim's happens-before check; temporaries are heap blocks and are covered by the "
                        "TSan real-thread build and by the adversarial schedules (a missing barrier lets a thread read unsorted / unallocated temporaries)",
                        "the shim executes the barrier's mutex / condition variable sequentially consistently"]
