"""C04 -- parallel string sample sort (PS5).  spec/ps5/{PS5I,Trace_PS5}.tla, spec/strsort/{StrSortA,Trace_StrSort}.tla"""
import json
import os
import random
from vlib import *
from props.c03 import shaped

SD = os.path.join(SPEC, "strsort")
PD = os.path.join(SPEC, "ps5")
VS = os.path.join(HARNESS, "vsched", "vsched.cpp")
SHIM = ["-include", "vsched/vsched.hpp"]
MC_CFG = ("CONSTANTS W = %d\n MaxSteps = %d\n MaxKids = 2\n MaxParts = 2\n MaxDepth = 1\n WithLcp = %s\n DestroyBeforeRelease = %s\n LoopReadsMember = %s\nSPECIFICATION Spec\n"
          "INVARIANTS %s\nPROPERTY Terminates\nCHECK_DEADLOCK TRUE\n")
INVS = "NoTouchAfterDelete HandleDiscipline DeletedAtMostOnce CountersNonNegative AllReleasedAtReturn ParentAlive CounterMeaning"


def line(rng, strs):
    return "%d %d %s" % (rng.randrange(1 << 30), len(strs), " ".join("%d %s" % (len(s), " ".join(map(str, s))) for s in strs))


def collections(rng, quick):
    out = []
    for n in (0, 1, 2, 3, 5, 8):
        for _ in range(3 if quick else 20):
            out.append(shaped(rng, n))
    for n in (17, 33, 40, 64, 100, 150, 300):
        for _ in range(4 if quick else 40):
            out.append(shaped(rng, n))
    # exactly smallsort_threshold strings of a parameter set (4, 32, 64, 256; thorough also 1024): the driver forces that set, see drv_ps5.cpp
    # one job of exactly 4096 strings (parameter set seqss4096): nested sequential sample sort levels above multikey quicksort, work given away at every level
    for _ in range(8 if quick else 40):
        out.append([[rng.choice((97, 98, 99, 100)) for _ in range(rng.randint(6, 15))] for _ in range(4096)])
    for n in ((4, 32, 64, 128, 256) if quick else (4, 32, 64, 128, 256, 1024)):
        for _ in range(3 if quick else 12):
            out.append(shaped(rng, n))
        out.append([[97 + (i * 7) % 3, 97 + (i * 5) % 2] + [rng.choice((97, 98))] * rng.randint(0, 9) for i in range(n)])
    # all equal / one bucket / two buckets: steps without children, buckets of size 0 and 1, splitters all equal
    for n in (5, 20, 70, 200):
        out.append([[97, 98]] * n)
        out.append([[]] * n)
        out.append([[97] * rng.randint(1, 12)] * (n // 2) + [[98]] * (n - n // 2))
        out.append([[97] * 9 + [rng.choice((1, 255))] for _ in range(n)])
        out.append([[rng.randint(1, 255)] for _ in range(n)])
        out.append([[255] * (i % 11) for i in range(n)])
    # long common prefixes (depth > one key), exactly key-sized strings
    for n in (30, 120):
        for klen in (7, 8, 9, 16, 17):
            out.append([[97] * klen + [rng.choice((1, 2, 255))] * rng.randint(0, 2) for _ in range(n)])
    if not quick:
        for n in (600, 1500):
            for _ in range(6):
                out.append(shaped(rng, n))
    return out


def prep_hook_events(tlines, lcp):
    """ps5 events -> one PS5I trace (executions separated by reset events); steps numbered in creation order"""
    exs, maxw, maxsteps = [], 1, 1
    for ln in tlines:
        if '"e":"ps5"' not in ln:
            continue
        try:
            e = json.loads(ln)
        except ValueError:
            continue
        if e.get("lcp") != lcp or not e.get("ev") or not e.get("complete"):
            continue
        idx, out = {}, []
        for (t, name, ptr, other, n) in e["ev"]:
            if name.startswith("new_"):
                idx[ptr] = len(idx) + 1
            maxw = max(maxw, t)
            out.append({"e": name, "t": t, "s": idx.get(ptr, 0), "p": idx.get(other, 0), "n": n})
        maxsteps = max(maxsteps, len(idx))
        root = out[0]
        out[0] = {"e": "reset", "kind": "big" if root["e"] == "new_big" else "small", "parts": root["n"], "params": e.get("params"), "threads": e.get("threads"), "nstr": e.get("n")}
        exs.append(out)
    res = []
    for ex in exs:
        ex[0]["w"], ex[0]["steps"] = maxw, maxsteps
        res += [json.dumps(x, separators=(",", ":")) for x in ex]
    return res, len(exs)


def classifier_level(ctx, rng, quick):
    """The splitter-tree classifiers on their own: ClassifyI model-checked, then the real templates called directly (harness/drv_classify.cpp) and judged by TLC."""
    CI = "CONSTANTS TreeBits = %d\n Keys = {2, 4, 6, 8}\n MaxSample = %d\n Variant = \"%s\"\nSPECIFICATION Spec\nINVARIANTS SplittersInOrder GetSplitterIsInOrder TreeCalculationsInverse ClassifyRight\nCHECK_DEADLOCK FALSE\n"
    for (tb, ms) in ((1, 5), (2, 6), (3, 9 if quick else 11)):
        tlc_mc(ctx, PD, "ClassifyI", "mc_classify_%d.cfg" % tb, workers=8, coverage=False, timeout=3000, cfg_text=CI % (tb, ms, "fixed"))
    for mut in ("equal_get_splitter_unshifted", "scalar_strict_less"):
        r = tlc_mc(ctx, PD, "ClassifyI", "mc_classify_neg.cfg", workers=4, coverage=False, timeout=3000, expect_ok=False, cfg_text=CI % (2, 5, mut))
        if r["ok"] or " is violated" not in r["out"]:
            raise InternalError("negative self-test: ClassifyI variant %s is not refuted" % mut)
        ctx.cov["negative_self_tests"] = ctx.cov.get("negative_self_tests", 0) + 1

    def sl(b):
        return "%d %s" % (len(b), " ".join(map(str, b)))
    lines = []
    for i in range(250 if quick else 4000):
        tb = 1 + i % 5
        ns = 2 ** tb - 1
        depth = rng.choice((0, 0, 2, 7))
        pre = [rng.choice((120, 121)) for _ in range(depth)]
        alpha = rng.choice(((97, 98), (1, 97, 255), (97, 98, 99, 100), (1, 2, 254, 255)))
        maxlen = rng.choice((1, 2, 3, 9))

        def mk():
            return pre + [rng.choice(alpha) for _ in range(rng.randint(0, maxlen))]
        nsamp = rng.choice((1, 2, ns, ns + 1, 2 * ns, 2 * ns + 3, 5 * ns))
        samples = [mk() for _ in range(nsamp)]
        if rng.random() < 0.3:                      # long runs of equal samples: duplicate splitters, empty ranges in the builder
            samples = [rng.choice(samples[:3]) for _ in range(nsamp)]
        keys = list(samples[: 12]) + [mk() for _ in range(rng.randint(0, 9))] + [pre, pre + [255] * 9]
        keys += [k + [1] for k in samples[:4]] + [k[:-1] for k in samples[:4] if len(k) > depth]
        keys = keys[: rng.choice((len(keys), max(1, len(keys) - 1), max(1, len(keys) - 2), max(1, len(keys) - 3)))]      # every residue mod 4 (unrolled groups + scalar tail)
        lines.append("%d %d %d %s %d %s" % (tb, depth, len(samples), " ".join(sl(x) for x in samples), len(keys), " ".join(sl(x) for x in keys)))
    scr = ctx.path("classify_scripts.txt")
    open(scr, "w").write("\n".join(lines) + "\n")
    exe = build(ctx, "drv_classify", [os.path.join(HARNESS, "drv_classify.cpp"), os.path.join(REPO, "tlx/die/core.cpp"), os.path.join(REPO, "tlx/logger/core.cpp")])
    tr = ctx.path("classify.ndjson")
    ok, so, se = run_driver_checked(ctx, exe, [scr, tr], what="drv_classify", replay_src=scr)
    exe_a = build(ctx, "drv_classify_asan", [os.path.join(HARNESS, "drv_classify.cpp"), os.path.join(REPO, "tlx/die/core.cpp"), os.path.join(REPO, "tlx/logger/core.cpp")],
                  flags=["-fsanitize=address,undefined", "-fno-sanitize=alignment", "-fno-sanitize-recover=undefined"])
    run_driver_checked(ctx, exe_a, [scr, ctx.path("classify_asan.ndjson")], what="drv_classify(asan)", replay_src=scr, timeout=3000)
    if not (os.path.exists(tr) and os.path.getsize(tr)):
        return
    evs = [x for x in read_text(tr).split("\n") if '"e":"classify"' in x]
    if len(evs) != 3 * len(lines) and ok:
        raise InternalError("drv_classify recorded %d events for %d script lines" % (len(evs), len(lines)))
    ctx.cov["classifier_calls_validated"] = len(evs)
    per = ctx.path("classify_chunks.ndjson")
    with open(per, "w") as f:
        for i in range(0, len(evs), 30):
            f.write('{"e":"reset"}\n' + "\n".join(evs[i:i + 30]) + "\n")

    def classify(ex, at):
        e = json.loads(ex[min(at, len(ex) - 1)])
        return ("ps5/classifier/%s/tb%s" % (e.get("cls"), e.get("tb")),
                "splitter tree classifier '%s' (treebits %s, %d samples): splitters not in order / not from the sample, a key in a bucket its value does not belong to, or a wrong splitter LCP entry"
                % (e.get("cls"), e.get("tb"), len(e.get("samples", []))))
    # implementation level first (the splitters the transcribed builder picks); what only that level rejects is DRIFT, the verdict is Trace_Classify
    validate_traces(ctx, PD, "Trace_Classify", "Trace_ClassifyI.cfg", per, classify, shards=NCPU, max_rejects=8, timeout=3000, property_level=(PD, "Trace_Classify", "Trace_Classify.cfg"))


def run(ctx):
    quick = ctx.tier == "quick"
    rng = random.Random(ctx.seed)
    ctx.cov["rule"] = ("cases = (string collection, parameter set, LCP or not, threads 1..4, shim schedule): shaped collections (duplicates, shared prefixes, all equal, empty strings, "
                       "high bytes, one / two buckets, key-sized prefixes) of 0..300 (thorough: ..1500) strings, each sorted under 6 configurations drawn from 10 parameter sets "
                       "(library front ends; tiny thresholds so that big steps, sequential sample sort, MKQS, insertion sort and work sharing all occur on small inputs) x LCP x "
                       "threads x {random, PCT, non-preemptive, run-first} schedules; collections of exactly smallsort_threshold strings (4, 32, 64, 128, 256, 4096) force the matching "
                       "parameter set (one sequential-sample-sort job next to idle workers; the 4096-string ones run 16 more PCT schedules); non-trivial = at least 2 strings")
    # 0. the splitter-tree classifiers on their own
    classifier_level(ctx, rng, quick)
    # 1. the job graph: every interleaving of the step life-cycle for small constants
    for (w, st, lcp) in ([(2, 3, "FALSE"), (2, 3, "TRUE"), (2, 4, "FALSE")] if quick else [(2, 4, "FALSE"), (2, 4, "TRUE"), (3, 4, "FALSE"), (2, 5, "FALSE"), (3, 5, "TRUE")]):
        tlc_mc(ctx, PD, "PS5I", "mc_ps5_run.cfg", workers=NCPU, coverage=(st == 3), timeout=3000, cfg_text=MC_CFG % (w, st, lcp, "TRUE", "FALSE", INVS),
               require_actions=["Sample", "Enq", "EnqEnd", "Count", "Dist", "SmallRun", "AnonAdd", "SpawnAdd", "SpawnNew", "Dec", "AllDone", "Delete", "MainReturn"] if st == 3 else ())
    # vacuity guard: the original release order (bkt_[0].destroy() after the anonymous handle is given up) must be refuted
    # and so must the original enqueue loops (`p < parts_` evaluated after the last job was enqueued)
    for inv in ("NoTouchAfterDelete", "HandleDiscipline"):
        for (dbr, lrm) in (("FALSE", "FALSE"), ("TRUE", "TRUE")):
            r = tlc_mc(ctx, PD, "PS5I", "mc_ps5_neg.cfg", workers=NCPU, coverage=False, timeout=3000, cfg_text=MC_CFG % (2, 3, "FALSE", dbr, lrm, inv), expect_ok=False)
            if r["ok"] or ("Invariant %s is violated" % inv) not in r["out"]:
                raise InternalError("negative self-test: PS5I with DestroyBeforeRelease=%s LoopReadsMember=%s does not violate %s" % (dbr, lrm, inv))
    ctx.cov["negative_self_tests"] = 4
    tlc_mc(ctx, SD, "MC_StrSortA", "mc_ssa_run.cfg", workers=8, coverage=False, timeout=3000,
           cfg_text="CONSTANTS Bytes = {1, 2, 255}\n MaxLen = 2\nSPECIFICATION Spec\nINVARIANT Laws\nCHECK_DEADLOCK FALSE\n")
    # 2. the real code under the scheduler shim
    colls = collections(rng, quick)
    lines = [line(rng, c) for c in colls]
    for ln in lines:
        ctx.count_case(ln, nontrivial=int(ln.split()[1]) >= 2)
    src = os.path.join(HARNESS, "drv_ps5.cpp")
    libs = [os.path.join(REPO, "tlx", x) for x in ("thread_pool.cpp", "multi_timer.cpp", "die/core.cpp", "logger/core.cpp")]
    exe = build(ctx, "drv_ps5", [src] + libs + [VS], flags=SHIM + ["-DTLX_VERIF_HOOKS", "-DNDEBUG"])
    tr = ctx.path("ps5.ndjson")
    run_driver_sharded(ctx, exe, lines, tr, what="drv_ps5")
    small = [ln for ln in lines if int(ln.split()[1]) <= 300]
    exe_a = build(ctx, "drv_ps5_asan", [src] + libs + [VS], flags=SHIM + ["-fsanitize=address", "-DNDEBUG"])
    run_driver_sharded(ctx, exe_a, rng.sample(small, len(small) // (3 if quick else 1)), ctx.path("ps5_asan.ndjson"), what="drv_ps5(asan)", env={"ASAN_OPTIONS": "detect_leaks=0"})
    exe_t = build(ctx, "drv_ps5_tsan", [src] + libs, flags=["-include", "vsched/nosched.hpp", "-DNO_VSCHED", "-fsanitize=thread", "-g", "-DNDEBUG"])
    run_driver_sharded(ctx, exe_t, rng.sample(small, len(small) // (2 if quick else 1)), ctx.path("ps5_tsan.ndjson"), what="drv_ps5(tsan)", env={"TSAN_OPTIONS": "halt_on_error=1 exitcode=66"})
    if not (os.path.exists(tr) and os.path.getsize(tr)):
        return
    tl = [x for x in read_text(tr).split("\n") if x]
    # 3. step life-cycle events against PS5I
    for lcp in (False, True):
        evs, nex = prep_hook_events(tl, lcp)
        ctx.cov["lifecycle_executions_validated_%s" % ("lcp" if lcp else "nolcp")] = nex
        ctx.cov["lifecycle_events_%s" % ("lcp" if lcp else "nolcp")] = len(evs) - nex
        if not evs:
            continue
        hf = ctx.path("ps5_steps_%s.ndjson" % ("lcp" if lcp else "nolcp"))
        open(hf, "w").write("\n".join(evs) + "\n")

        def classify_steps(ex, at):
            e = json.loads(ex[min(at, len(ex) - 1)])
            return ("ps5/lifecycle/%s" % e.get("e"), "parallel sample sort step life-cycle: event %s (thread %s, step %s, value %s) is not allowed by PS5I at this point "
                    "(step touched after release / counter or deletion out of order)" % (e.get("e"), e.get("t"), e.get("s"), e.get("n")))
        # PS5I is implementation-shaped: what it rejects but the property-level Trace_PS5A accepts (no operation on a deleted step, no double deletion,
        # everything deleted at return) is DRIFT
        validate_traces(ctx, PD, "Trace_PS5", "Trace_PS5_lcp.cfg" if lcp else "Trace_PS5.cfg", hf, classify_steps, shards=NCPU, max_rejects=8, timeout=3000,
                        property_level=(PD, "Trace_PS5A", "Trace_PS5A.cfg"))
    # 4. results against StrSortA
    calls = [x for x in tl if '"e":"ssort"' in x or '"e":"crash"' in x]
    ctx.cov["sort_calls_validated"] = len(calls)
    if calls:
        ctx.sample({"recorded_call": json.loads(min((c for c in calls if '"in":[[' in c and c.count("],[") >= 3), key=len, default=calls[0]))})
    per = ctx.path("ps5_calls.ndjson")
    with open(per, "w") as f:
        for i in range(0, len(calls), 30):
            f.write('{"e":"reset"}\n' + "\n".join(calls[i:i + 30]) + "\n")

    def classify(ex, at):
        e = json.loads(ex[min(at, len(ex) - 1)])
        if e.get("e") != "ssort":
            return ("ps5/crash", "a parallel string sort crashed or hung: %s" % str(e)[:160])
        if e.get("deadlock"):
            return ("ps5/deadlock", "parallel string sort did not terminate under the shim: %s" % "; ".join(e.get("problem_text", []))[:200])
        if e.get("problems"):
            return ("ps5/race", "parallel string sort: %s" % "; ".join(e.get("problem_text", []))[:200])
        return ("ps5/%s/%s" % (e.get("params"), "lcp" if e.get("haslcp") else "nolcp"),
                "parallel sample sort (%s, n=%d, threads=%s%s): result is not a sorted permutation of the input pointers%s" %
                (e.get("params"), len(e.get("in", [])), e.get("threads"), ", with LCP" if e.get("haslcp") else "", " / LCP array is not exact" if e.get("haslcp") else ""))
    validate_traces(ctx, SD, "Trace_StrSort", "Trace_StrSort.cfg", per, classify, shards=NCPU, max_rejects=8, timeout=3000)
    ctx.assumptions += ["strings are NUL-free (bytes 1..255)", "the shim executes atomics, mutexes and condition variables sequentially consistently; weak-memory effects are covered only by the TSan real-thread build",
                        "step life-cycle events are recorded in the shim build only (one thread runs at a time, each hook directly follows the operation it reports)",
                        "freed memory is poisoned and not reused inside one execution (plain build) / ASan build: a step touched after its deletion is visible"]
