"""C13 -- heaps.  spec/heaps/{BagHeapA,AddrHeapA,DAryI,Gen_*,Trace_*}.tla"""
import json
import os
import random
from vlib import *

SD = os.path.join(SPEC, "heaps")


def consts(d):
    return "CONSTANTS\n" + "\n".join("  %s = %s" % kv for kv in d.items()) + "\n"


# ---------------------------------------------------------------- addressable heap scripts
def addr_line(variant, prio0, ops, rng):
    out = []
    for o in ops:
        n = o["o"]
        lst = o.get("list", [])
        code = {"push": 0, "remove": 1, "top": 2, "setprio": 5, "update": 6, "update_all": 7, "clear": 11}.get(n)
        if n == "pop":
            code = rng.choice((3, 4))
        if n == "build":
            code = rng.choice((8, 9, 10))
        if rng.random() < 0.08:          # reserve(n), n below / at / above the current size and the key range: no abstract effect
            out.append("12 %d 0 0 " % rng.choice((0, 1, 3, len(prio0), 2 * len(prio0) + 5)))
        out.append("%d %d %d %d %s" % (code, o["k"], o["p"], len(lst), " ".join(map(str, lst))))
    return "%d %d %s %d %s" % (variant, len(prio0), " ".join(map(str, prio0)), len(out), " ".join(out))


def random_addr(rng, n, nkeys, nprio):
    prio = [rng.randint(1, nprio) for _ in range(nkeys)]
    items, dirty, ops = set(), set(), []
    while len(ops) < n:
        o = rng.choice(["push"] * 5 + ["remove"] * 2 + ["pop"] * 3 + ["top", "setprio", "setprio", "setprio", "update", "update_all", "build"] +
                       (["clear"] if rng.random() < 0.1 else []))
        k = rng.randrange(nkeys)
        op = {"o": o, "k": 0, "p": 0, "list": []}
        if dirty and o not in ("setprio", "update", "update_all", "build", "clear"):
            continue
        if o == "push":
            if k in items: continue
            items.add(k); op["k"] = k
        elif o == "remove":
            if k not in items: continue
            items.discard(k); op["k"] = k
        elif o in ("pop", "top"):
            if not items: continue
            if o == "pop":
                # which key leaves is the heap's choice among the minima; resync below via the drain-free model: remove *a* minimum
                m = min(prio[x] for x in items)
                cands = [x for x in items if prio[x] == m]
                if len(cands) > 1:
                    continue          # keep the generator's model deterministic: only pop when the minimum is unique
                items.discard(cands[0])
        elif o == "setprio":
            p = rng.randint(1, nprio)
            if len(dirty) >= 1 and k not in dirty and rng.random() < 0.7:
                continue
            prio[k] = p; op["k"], op["p"] = k, p
            if k in items: dirty.add(k)
        elif o == "update":
            if dirty:
                if len(dirty) > 1: continue
                k = next(iter(dirty))
            items.add(k); dirty.clear(); op["k"] = k
        elif o == "update_all":
            dirty.clear()
        elif o == "build":
            lst = rng.sample(range(nkeys), rng.randint(0, min(nkeys, 9)))
            items = set(lst); dirty.clear(); op["list"] = lst
        elif o == "clear":
            items.clear(); dirty.clear()
        ops.append(op)
    return prio_init(prio, ops), ops


def prio_init(final_prio, ops):
    # initial table = final table with setprio effects undone is awkward; instead the generator records the table it *started* with
    return None


def random_addr2(rng, n, nkeys, nprio):
    prio0 = [rng.randint(1, nprio) for _ in range(nkeys)]
    prio = list(prio0)
    items, dirty, ops = set(), set(), []
    guard = 0
    while len(ops) < n and guard < 20 * n:
        guard += 1
        o = rng.choice(["push"] * 5 + ["remove"] * 2 + ["pop"] * 3 + ["top", "setprio", "setprio", "setprio", "update", "update_all", "build"] +
                       (["clear"] if rng.random() < 0.1 else []))
        k = rng.randrange(nkeys)
        op = {"o": o, "k": 0, "p": 0, "list": []}
        if dirty and o not in ("setprio", "update", "update_all", "build", "clear"):
            continue
        if o == "push":
            if k in items: continue
            items.add(k); op["k"] = k
        elif o == "remove":
            if k not in items: continue
            items.discard(k); op["k"] = k
        elif o == "top":
            if not items: continue
        elif o == "pop":
            if not items: continue
            m = min(prio[x] for x in items)
            cands = [x for x in items if prio[x] == m]
            if len(cands) > 1: continue      # generator's bookkeeping stays exact only when the minimum is unique
            items.discard(cands[0])
        elif o == "setprio":
            if dirty and k not in dirty: continue
            prio[k] = rng.randint(1, nprio); op["k"], op["p"] = k, prio[k]
            if k in items: dirty.add(k)
        elif o == "update":
            if dirty: k = next(iter(dirty))
            items.add(k); dirty.clear(); op["k"] = k
        elif o == "update_all":
            dirty.clear()
        elif o == "build":
            lst = rng.sample(range(nkeys), rng.randint(0, min(nkeys, 9)))
            items = set(lst); dirty.clear(); op["list"] = lst
        elif o == "clear":
            items.clear(); dirty.clear()
        ops.append(op)
    return prio0, ops


# ---------------------------------------------------------------- d-ary heap scripts
def dary_line(variant, ops, rng):
    out = []
    for o in ops:
        n = o["o"]
        code = {"top": 2, "update_all": 8, "clear": 9}.get(n)
        lst = []
        if n == "push": code = rng.choice((0, 1))
        if n == "pop": code = rng.choice((3, 4))
        if n == "build":
            code = rng.choice((5, 6, 7))
            lst = ["%d %d" % (k, o["id"] + i + 1) for i, k in enumerate(o.get("list", []))]
        if rng.random() < 0.08:
            out.append("10 %d 0 0 " % rng.choice((0, 1, 3, 8, 40)))
        out.append("%d %d %d %d %s" % (code, o["k"], o["id"], len(lst), " ".join(lst)))
    return "%d %d %s" % (variant, len(out), " ".join(out))


def random_bag(rng, n, nkeys, mono):
    items, ops, frontier, ident = [], [], -1, 0
    while len(ops) < n:
        o = rng.choice(["push"] * 6 + ["pop"] * 4 + ["top"] + (["peak", "swap"] if mono else ["build", "update_all"]) + (["clear"] if rng.random() < 0.08 else []))
        ident += 1
        op = {"o": o, "k": 0, "id": 0}
        if o == "push":
            k = rng.randrange(nkeys)
            if mono:
                if frontier >= nkeys - 1 and rng.random() < 0.5: k = nkeys - 1
                k = max(k, frontier) if rng.random() < 0.6 else k
                if k < frontier: continue
            items.append(k); op["k"], op["id"] = k, ident
        elif o in ("pop", "top", "peak", "swap"):
            if not items: continue
            m = min(items)
            if o == "pop": items.remove(m)
            if o == "swap": items = [x for x in items if x != m]
            if o != "peak": frontier = m
        elif o == "build":
            lst = [rng.randrange(nkeys) for _ in range(rng.randint(0, 12))]
            ident += 20
            op["id"], op["list"] = ident * 100, lst
            items = list(lst)
        elif o == "clear":
            items, frontier = [], -1
        ops.append(op)
    return ops


def radix_line(variant, ops, rng, keymap=None):
    out = []
    for o in ops:
        n = o["o"]
        code = {"top": 4, "pop": 5, "peak": 6, "swap": 7, "clear": 8}.get(n)
        if n == "push": code = rng.choice((0, 1, 2, 3))
        k = o["k"]
        if keymap and n == "push": k = keymap[k]
        out.append("%d %d %d" % (code, k, o["id"]))
    return "%d %d %s" % (variant, len(ops), " ".join(out))


def run(ctx):
    quick = ctx.tier == "quick"
    rng = random.Random(ctx.seed)
    ctx.cov["rule"] = ("cases = operation histories: all histories of D calls generated by TLC from DAryI / BagHeapA (BFS), plus seeded long histories; each "
                       "run on one of the arity x comparator (d-ary), arity x priority-table comparator (addressable) or key type x radix (radix heap) "
                       "instantiations, round robin; non-trivial = >= 2 calls; distinct by content")
    # 1. model checking -----------------------------------------------------------------------
    tlc_mc(ctx, SD, "BagHeapA", "mc_bag.cfg", workers=4)
    tlc_mc(ctx, SD, "AddrHeapA", "mc_addr.cfg", workers=4)
    body = "SPECIFICATION Spec\nINVARIANTS HeapOrder HandlesExact TopIsMin\nPROPERTY Refines\nCHECK_DEADLOCK FALSE\n"
    for ar in ((2, 3) if quick else (1, 2, 3, 4)):
        tlc_mc(ctx, SD, "DAryI", "mc_dary_%d.cfg" % ar, workers=4 if quick else 8, timeout=3000, xmx="12g",
               cfg_text=consts({"Keys": "{0,1,2}" if quick else "{0,1,2,3}", "Prios": "{1,2}", "Arity": ar, "FixedHeapify": "TRUE"}) + body,
               require_actions=("Push", "Remove", "Pop", "SetPrio", "Update", "UpdateAll", "BuildHeap", "Clear"))
    # vacuity guard for the I-spec: the unrepaired heapify() must be rejected by the same invariants
    neg = tlc_mc(ctx, SD, "DAryI", "mc_dary_neg.cfg", workers=2, expect_ok=False, coverage=False,
                 cfg_text=consts({"Keys": "{0,1,2}", "Prios": "{1,2}", "Arity": 2, "FixedHeapify": "FALSE"}) + body)
    if neg["ok"] or "HandlesExact is violated" not in neg["out"]:
        raise InternalError("DAryI with the unrepaired heapify() was not rejected: the invariants are vacuous")
    ctx.notes.append("self-test: DAryI with FixedHeapify=FALSE (pre-fix heapify) violates HandlesExact, as expected")
    # 2. histories generated by TLC ---------------------------------------------------------------
    gen_body = "SPECIFICATION GenSpec\nINVARIANT Emit\nCHECK_DEADLOCK FALSE\n"
    ah, st = tlc_gen(ctx, SD, "Gen_AddrHeap", "gen_addr_run.cfg", timeout=1800, xmx="8g",
                     cfg_text=consts({"Keys": "{0,1,2}", "Prios": "{1,2}", "Arity": 2, "FixedHeapify": "TRUE", "D": 2 if quick else 3}) + gen_body)
    ctx.cov["model_runs"].append(st)
    ah2, st = tlc_gen(ctx, SD, "Gen_AddrHeap", "gen_addr_sim.cfg", simulate=100 if quick else 2000, depth=40, seed=ctx.seed, timeout=1800,
                      cfg_text=consts({"Keys": "{0,1,2,3,4,5}", "Prios": "{1,2,3}", "Arity": 2, "FixedHeapify": "TRUE", "D": 30}) + gen_body)
    ctx.cov["model_runs"].append(st)
    bh, st = tlc_gen(ctx, SD, "Gen_BagHeap", "gen_bag_d.cfg", timeout=1800,
                     cfg_text=consts({"Keys": "{0,1,2}", "Ids": "{0}", "D": 3 if quick else 4, "Mono": "FALSE", "MaxBuild": 2}) + gen_body)
    ctx.cov["model_runs"].append(st)
    rh, st = tlc_gen(ctx, SD, "Gen_BagHeap", "gen_bag_r.cfg", timeout=1800,
                     cfg_text=consts({"Keys": "{0,1,2,3}", "Ids": "{0}", "D": 5 if quick else 6, "Mono": "TRUE", "MaxBuild": 0}) + gen_body)
    ctx.cov["model_runs"].append(st)
    # 3. scripts -------------------------------------------------------------------------------
    addr_lines = [addr_line(i % 10, h["prio0"], h["ops"], rng) for i, h in enumerate(ah + ah2)]
    for i in range(200 if quick else 5000):
        p0, ops = random_addr2(rng, rng.randint(5, 70), rng.choice((4, 9, 17)), rng.choice((2, 4, 30)))
        addr_lines.append(addr_line(i % 10, p0, ops, rng))
    dary_lines = [dary_line(i % 9, h, rng) for i, h in enumerate(bh)]
    for i in range(200 if quick else 5000):
        dary_lines.append(dary_line(i % 9, random_bag(rng, rng.randint(5, 80), rng.choice((2, 5, 40)), False), rng))
    radix_lines = []
    for i, h in enumerate(rh):
        km = sorted(rng.sample(range(16), 4))
        if i % 3 == 0: km = [0, 1, 14, 15]          # extremes of the key type
        radix_lines.append(radix_line(i % 12, h, rng, km))
    for i in range(250 if quick else 6000):
        radix_lines.append(radix_line(i % 12, random_bag(rng, rng.randint(5, 80), 16, True), rng))
    for ln in addr_lines + dary_lines + radix_lines:
        ctx.count_case(ln, nontrivial=len(ln.split()) > 8)
    ctx.sample({"addressable_history(TLC)": ah[len(ah) // 2]})
    ctx.sample({"radix_history(TLC)": rh[len(rh) // 2]})
    # RadixHeapI: bucket computation, reorganize_, push / top / pop / swap_top_bucket / peak_top_key / clear; every monotone history on small key widths
    RHI = ("CONSTANTS W = %d\n RadixBits = %d\n MaxSize = %d\n Mutation = \"%s\"\nSPECIFICATION Spec\n"
           "INVARIANTS BucketsRight Bookkeeping Delivers DeliversMin CurInRange\nCHECK_DEADLOCK FALSE\n")
    for (w, rb, ms) in ([(4, 1, 3), (4, 2, 2)] if quick else [(4, 1, 4), (4, 2, 3), (5, 1, 3), (6, 3, 2)]):
        tlc_mc(ctx, SD, "RadixHeapI", "mc_radixi_run.cfg", workers=NCPU, coverage=False, timeout=6000, xmx="16g", cfg_text=RHI % (w, rb, ms, "none"))
    for mut in ("clear_keeps_current", "swap_keeps_filled"):
        r = tlc_mc(ctx, SD, "RadixHeapI", "mc_radixi_neg.cfg", workers=NCPU, coverage=False, timeout=3000, expect_ok=False, cfg_text=RHI % (4, 1, 3, mut))
        if r["ok"] or " is violated" not in r["out"]:
            raise InternalError("negative self-test: RadixHeapI with Mutation=%s is not refuted" % mut)
    # 4. run + validate -------------------------------------------------------------------------
    san = ["-fsanitize=address,undefined", "-fno-sanitize-recover=undefined"]
    core = os.path.join(REPO, "tlx/die/core.cpp")
    for drv, lines, mod, extra in (("drv_addr", addr_lines, "Trace_AddrHeap", []), ("drv_dary", dary_lines, "Trace_BagHeap", []),
                                   ("drv_radix", radix_lines, "Trace_BagHeap", [core])):
        scr = ctx.path(drv + "_scripts.txt")
        open(scr, "w").write("\n".join(lines) + "\n")
        src = os.path.join(HARNESS, drv + ".cpp")
        exe = build(ctx, drv, [src] + extra)
        tr = ctx.path(drv + ".ndjson")
        run_driver_checked(ctx, exe, [scr, tr], what=drv, replay_src=scr)
        exe_a = build(ctx, drv + "_asan", [src] + extra, flags=san)
        run_driver_checked(ctx, exe_a, [scr, ctx.path(drv + "_asan.ndjson")], what=drv + "(asan)", replay_src=scr, timeout=1800)
        if not os.path.exists(tr) or os.path.getsize(tr) == 0:
            continue
        lines_t = read_text(tr).split("\n")
        ctx.sample({"recorded_trace_" + drv: [json.loads(x) for x in lines_t[1:3]]})

        def classify(ex, at, drv=drv):
            e = json.loads(ex[min(at, len(ex) - 1)])
            return ("%s/v%s/%s" % (drv, e.get("variant"), e.get("e")),
                    "%s variant %s: call %s is not a step of the abstract heap (result, size, membership or drain order wrong)" % (drv, e.get("variant"), e.get("e")))
        validate_traces(ctx, SD, mod, mod + ".cfg", tr, classify)
        if drv == "drv_radix":
            # implementation level (DRIFT unless Trace_BagHeap rejects, which it did not above): insertion limit, current bucket and bucket sizes
            # of the real heap after every call vs. RadixHeapI, for the 8- and 16-bit key types
            groups = {}
            for ex in split_executions([x for x in lines_t if x]):
                r0 = json.loads(ex[0]) if ex and ex[0].startswith("{") else {}
                if r0.get("variant") in (0, 1, 2, 3, 10) and "ist" in r0:
                    groups.setdefault(r0["variant"], []).extend(ex)
            ctx.cov["radix_ilevel_variants"] = sorted(groups)
            for v, evs in sorted(groups.items()):
                gf = ctx.path("radix_i_%d.ndjson" % v)
                open(gf, "w").write("\n".join(evs) + "\n")
                validate_traces(ctx, SD, "Trace_RadixHeapI", "Trace_RadixHeapI.cfg", gf, classify, property_level=(SD, mod, mod + ".cfg"), shards=4)
    ctx.assumptions += ["radix heap: pushes respect the documented insertion limit (>= the minimum last exposed by top/pop/swap_top_bucket)",
                        "addressable heap: after the environment changes a priority, update(k)/update_all() is called before any other operation",
                        "keys of the radix heap are handled as ranks into a per-type table of 16 concrete keys containing the type's extremes",
                        "sanity_check() is logged as a fact and required true only when the priority table is clean; the oracle is the drain order"]
