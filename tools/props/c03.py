"""C03 -- sequential string sorting.  spec/strsort/{StrSortA,MC_StrSortA,Trace_StrSort}.tla"""
import itertools
import json
import os
import random
from vlib import *

SD = os.path.join(SPEC, "strsort")
ALPHA = (1, 2, 255)
# (algo, set) combinations that exist; algo 0 = sort_strings front ends (sets 0, 1, 4)
COMBOS = [(0, 0), (0, 1), (0, 4)] + [(a, s) for a in range(1, 8) for s in (0, 1, 2, 3)]
MEMS = (0, 1, 4096, 1000000, 1000000000)


def sline(variant, memory, strs):
    return "%d %d %d %s" % (variant, memory, len(strs), " ".join("%d %s" % (len(s), " ".join(map(str, s))) for s in strs))


def shaped(rng, n):
    shape = rng.choice(("random", "dups", "prefix", "equal", "highbyte", "empty", "long"))
    out = []
    if shape == "long":
        # common prefixes and exact duplicates longer than 255 / 511 bytes: LCP values and depths that do not fit narrow integer types (round-4 seeded
        # change: an 8-bit LCP field in the multikey quicksort step of the parallel sorter)
        L = rng.choice((250, 255, 256, 257, 300, 520, 1000)) if n <= 120 else rng.choice((256, 300))
        lb = [rng.choice((97, 98))] * 3 + [rng.choice((97, 98, 99)) for _ in range(L - 3)]
        tails = [[], [], [1], [97], [97, 98], [255], [98, 1]]
        for _ in range(n):
            r = rng.random()
            if r < 0.6: out.append(lb + rng.choice(tails))                   # exact duplicates among them
            elif r < 0.8: out.append(lb[: L - rng.choice((0, 1, 2, 7, 8, 9, 255, 256)) if L > 256 else L - rng.choice((0, 1, 2, 7, 8, 9))])
            else: out.append(lb[: rng.randint(0, L)] + [rng.choice((1, 255))])
        return out
    base = [rng.choice((97, 98, 99, 1, 255, 128)) for _ in range(rng.randint(0, 12))]
    for _ in range(n):
        if shape == "random": s = [rng.randint(1, 255) for _ in range(rng.randint(0, 6))]
        elif shape == "dups": s = rng.choice(([97], [97, 98], [], [255], [97, 98, 99]))
        elif shape == "prefix": s = base[: rng.randint(0, len(base))] + ([rng.choice((1, 97, 255))] if rng.random() < 0.4 else [])
        elif shape == "equal": s = list(base)
        elif shape == "highbyte": s = [rng.choice((127, 128, 129, 254, 255, 1)) for _ in range(rng.randint(0, 4))]
        else: s = [] if rng.random() < 0.5 else [rng.choice((1, 2))]
        out.append(s)
    return out


def run(ctx):
    quick = ctx.tier == "quick"
    rng = random.Random(ctx.seed)
    ctx.cov["rule"] = ("cases = (string collection, entry point / algorithm, string-set representation, LCP output or not, memory limit): every sequence of <= 2 (quick) / 3 "
                       "(thorough) strings over bytes {1, 2, 255} up to length 2, shaped collections (duplicates, shared prefixes, all equal, high bytes, empty strings) of sizes "
                       "across the 32 insertion-sort threshold, and large collections across the 65536 threshold (thorough: all four sizes x several variants), incl. one with >= 65536 strings sharing a 9-byte prefix (the only way "
                       "into the recursion and the memory-limit fall-back of the 16-bit radix sorters); algorithms x "
                       "representations x LCP x memory limits {0, 1, 4096, 1e6, 1e9} rotate; non-trivial = at least 2 strings; distinct by content")
    tlc_mc(ctx, SD, "MC_StrSortA", "mc_ssa_run.cfg", workers=8, coverage=False, timeout=3000,
           cfg_text="CONSTANTS Bytes = {1, 2, 255}\n MaxLen = %d\nSPECIFICATION Spec\nINVARIANT Laws\nCHECK_DEADLOCK FALSE\n" % (2 if quick else 3))
    # RadixI: radixsort_CE2 with its shadow array, flip / copy_back bookkeeping, bucket-border LCPs and the memory-limit fall-back, on every small input,
    # every number of affordable radix levels, with and without LCP; the seeded change C03b (fall-back without copy_back) must be refuted
    RXI = "CONSTANTS Chars = {1, 2}\n MaxLen = %d\n MaxN = %d\n InsThreshold = %d\n Mutation = \"%s\"\nSPECIFICATION Spec\nINVARIANTS SortedPermutation LcpExact\nCHECK_DEADLOCK FALSE\n"
    for (ml, mn, th) in ([(2, 4, 2)] if quick else [(2, 4, 2), (3, 4, 3), (2, 5, 2), (3, 4, 2)]):
        tlc_mc(ctx, SD, "RadixI", "mc_radixi_run.cfg", workers=NCPU, coverage=False, timeout=6000, xmx="16g", cfg_text=RXI % (ml, mn, th, "none"))
    r = tlc_mc(ctx, SD, "RadixI", "mc_radixi_neg.cfg", workers=NCPU, coverage=False, timeout=3000, expect_ok=False, cfg_text=RXI % (2, 4, 2, "fallback_without_copy_back"))
    if r["ok"] or " is violated" not in r["out"]:
        raise InternalError("negative self-test: RadixI with the memory fall-back that skips copy_back() is not refuted")
    small = [list(c) for n in range(0, 3) for c in itertools.product(ALPHA, repeat=n)]
    lines = []
    k = 0

    def add(strs, reps=1):
        nonlocal k
        for _ in range(reps):
            a, s = COMBOS[k % len(COMBOS)]
            if s == 3 and sum(map(len, strs)) > 150:
                s = 2          # the suffix set of a long text is quadratic in size: keep it to short texts
            lcp = (k // len(COMBOS)) % 2
            mem = MEMS[(k // 7) % len(MEMS)]
            k += 1
            lines.append(sline(a * 16 + s * 2 + lcp, mem, strs))
    for n in range(0, 3 if quick else 4):
        prod = list(itertools.product(small, repeat=n))
        if n == 3:
            prod = rng.sample(prod, 1500)
        for t in prod:
            add(list(t), 2 if quick else 4)
    for n in (3, 5, 8, 31, 32, 33, 40, 100, 300):
        for _ in range(12 if quick else 120):
            add(shaped(rng, n), 3)
    # every (algorithm, representation, lcp) combination at least on a medium collection with a small memory limit as well
    for (a, s) in COMBOS:
        for lcp in (0, 1):
            for mem in (0, 1, 4096):
                coll = shaped(rng, rng.choice((33, 64, 200)))
                if s == 3:
                    coll = [c[:3] for c in coll[:40]]
                lines.append(sline(a * 16 + s * 2 + lcp, mem, coll))
    # memory-limit sweep: the radix sorters fall back to another sorter as soon as the limit does not cover one more radix level; which level that is
    # (and whether the current bucket lives in the caller's array or in the shadow array at that moment) depends on limit, n and the string representation.
    # Collections with deep shared prefixes and buckets >= 32 strings at every depth, limits from 1 KB to 30 KB (thorough: 60 KB, finer).
    nsweep = 0
    for ci in range(3 if quick else 16):
        n = (300, 120, 500)[ci % 3]
        if ci % 2 == 0:
            coll = [[rng.choice((97, 98)) for _ in range(10)] + [rng.randint(1, 255) for _ in range(rng.randint(0, 2))] for _ in range(n)]
        else:
            coll = [[119, 119, 119, 46] + [rng.choice((97, 98, 99)) for _ in range(rng.randint(0, 5))] for _ in range(n)]
        for (a_, s_) in ((0, 0), (0, 1), (4, 0), (5, 0), (5, 1), (6, 0), (7, 0), (3, 0), (4, 2)):
            for mem in (range(1000, 30001, 1000) if quick else range(1000, 60001, 250)):
                lines.append(sline(a_ * 16 + s_ * 2 + (nsweep % 2), mem, coll))
                nsweep += 1
    big = []
    for n in ((65536, 70000) if quick else (65535, 65536, 65537, 70000)):
        for rep in range(1 if quick else 3):
            strs = [[rng.choice((97, 98, 99, 255))] + [rng.choice((97, 98, 1))] * rng.randint(0, 2) + [rng.randint(1, 255) for _ in range(rng.randint(0, 2))] for _ in range(n)]
            # (7 = radixsort_CI3 only runs its own 16-bit loop from 65536 strings on: tools/coverage.py showed it was never reached before)
            for (a, s, lcp, mem) in (((0, 0, 1, 0), (5, 1, 1, 4096), (7, 0, 1, 0)) if quick else ((0, 0, 1, 0), (5, 1, 1, 4096), (0, 1, 0, 1), (5, 2, 1, 1000000), (5, 0, 0, 1), (7, 0, 1, 0), (7, 1, 0, 4000000), (7, 0, 0, 2000000))):
                big.append(sline(a * 16 + s * 2 + lcp, mem, strs))
    # deep 16-bit recursion: the 16-bit radix sorters (CE3, CI3) recurse, or fall back to multikey quicksort under a memory limit, only for a bucket of
    # >= 65536 strings that share two more bytes; none of the collections above has one (round-4 seeded change: CI3 recursing with base 0).  >= 65536 strings
    # share a 9-byte prefix (five 16-bit levels), a few strings sort before and behind the big bucket at every level.
    S16 = 524400        # about sizeof(RadixStep_CE3 / _CI3): 65536 bucket counters
    for rep in range(1 if quick else 3):
        pre = [rng.choice((98, 99, 200)) for _ in range(9)]
        n = 65536 + rng.randint(0, 300)
        strs = [pre + [rng.choice((97, 98, 99, 255)) for _ in range(rng.randint(0, 3))] for _ in range(n)]
        for d in range(0, 9):
            for c in (1, 255, pre[d] - 1, pre[d] + 1):
                strs.append(pre[:d] + [c] + [rng.choice((97, 98))] * rng.randint(0, 2))
            strs.append(pre[:d])
        rng.shuffle(strs)
        n = len(strs)
        ce3_use, ci3_use = 10 * n + 32, 2 * n + 32
        variants = [(7, 0, 1, 0), (5, 0, 1, 0), (7, 1, 0, 0), (5, 0, 1, ce3_use + int(3.5 * S16)), (7, 0, 1, ci3_use + int(3.5 * S16))]
        if not quick:
            variants += [(5, 1, 0, 0), (7, 2, 1, 0), (5, 0, 0, ce3_use + int(4.5 * S16)), (7, 0, 0, ci3_use + int(4.5 * S16)), (5, 2, 1, ce3_use + int(5.5 * S16)),
                         (0, 0, 1, 0), (0, 1, 1, ci3_use + int(3.5 * S16))]
        for (a, s_, lcp, mem) in variants:
            big.append(sline(a * 16 + s_ * 2 + lcp, mem, strs))
    for ln in lines + big:
        ctx.count_case(ln, nontrivial=int(ln.split()[2]) >= 2)
    ctx.cov["large_cases"] = len(big)
    ctx.cov["memory_sweep_cases"] = nsweep
    scr = ctx.path("ss_scripts.txt")
    open(scr, "w").write("\n".join(lines + big) + "\n")
    src = os.path.join(HARNESS, "drv_strsort.cpp")
    exe = build(ctx, "drv_strsort", [src], opt="-O2")
    tr = ctx.path("ss.ndjson")
    run_driver_checked(ctx, exe, [scr, tr], what="drv_strsort", replay_src=scr, timeout=3000)
    # ASan/UBSan monitor on the small and medium collections; memory safety is not part of C03's statement (DESIGN section 5): reports are notes only
    exe_a = build(ctx, "drv_strsort_asan", [src], flags=["-fsanitize=address,undefined", "-fsanitize-recover=address,undefined"])
    sscr = ctx.path("ss_scripts_small.txt")
    open(sscr, "w").write("\n".join(lines) + "\n")
    rc, so, se = run_driver(exe_a, [sscr, ctx.path("ss_asan.ndjson")], timeout=3000, env={"ASAN_OPTIONS": "halt_on_error=0:detect_leaks=0", "UBSAN_OPTIONS": "halt_on_error=0"})
    nrep = se.count("ERROR: AddressSanitizer") + se.count("runtime error:")
    ctx.cov["sanitizer_reports_out_of_scope"] = nrep
    if nrep:
        ctx.notes.append("out-of-scope observation: %d sanitizer reports in the string sorters (known: radix sort LCP loops read bkt_size[256]); not part of C03" % nrep)
    if rc not in (0, 1) and "AddressSanitizer" not in se:
        ctx.violation("crash/drv_strsort(asan)", "drv_strsort(asan) exited with status %d: %s" % (rc, se.strip()[-300:].replace("\n", " | ")), replay_src=sscr)
    if not (os.path.exists(tr) and os.path.getsize(tr)):
        return
    tl = [x for x in read_text(tr).split("\n") if x and '"e":"reset"' not in x]
    ctx.cov["sort_calls_validated"] = len(tl)
    ctx.sample({"recorded_call": json.loads(tl[len(lines) // 2])})
    smallev = [x for x in tl if len(x) < 20000]
    bigev = [x for x in tl if len(x) >= 20000]
    per = ctx.path("ss_chunks.ndjson")
    with open(per, "w") as f:
        for i in range(0, len(smallev), 40):
            f.write('{"e":"reset"}\n' + "\n".join(smallev[i:i + 40]) + "\n")
        for x in bigev:
            f.write('{"e":"reset"}\n' + x + "\n")

    def classify(ex, at):
        e = json.loads(ex[min(at, len(ex) - 1)])
        v = e.get("variant", 0)
        names = ["sort_strings", "insertion_sort", "multikey_quicksort", "radixsort_CE0", "radixsort_CE2", "radixsort_CE3", "radixsort_CI2", "radixsort_CI3"]
        sets = ["uchar**", "std::string*", "unique_ptr<std::string>*", "suffixes", "char* vectors"]
        return ("strsort/%s/%s/%s" % (names[v // 16], sets[(v % 16) // 2], "lcp" if v % 2 else "nolcp"),
                "%s on %s (n=%d, memory=%s%s): result is not a sorted permutation of the original objects%s" %
                (names[v // 16], sets[(v % 16) // 2], len(e.get("in", [])), e.get("memory"), ", with LCP" if v % 2 else "", " / LCP values are not exact" if v % 2 else ""))
    validate_traces(ctx, SD, "Trace_StrSort", "Trace_StrSort.cfg", per, classify, shards=NCPU, max_rejects=8, timeout=3000)
    ctx.assumptions += ["strings are NUL-free (bytes 1..255)", "std::string collections are compared by content (objects carry no identity beyond it); pointer-based sets by identity",
                        "ASan/UBSan reports inside the sorters are recorded as out-of-scope observations (memory safety is not part of C03's statement)"]
