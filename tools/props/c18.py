"""C18 -- StringView.  spec/stringview/{SVA,Trace_SV}.tla"""
import itertools
import json
import os
import random
from vlib import *

SD = os.path.join(SPEC, "stringview")
ALPHA = (0, 1, 2, 128, 255)


def run(ctx):
    quick = ctx.tier == "quick"
    rng = random.Random(ctx.seed)
    ctx.cov["rule"] = ("cases = (haystack, needle) byte strings over {0x00, 0x01, 0x02, 0x80, 0xFF}: every haystack up to length 3 (quick) / 4 (thorough) x every "
                       "needle up to length 2, plus seeded longer pairs; each case evaluates every query for every position / count in {0..5, npos} "
                       "(49 argument pairs for the two-argument queries); a second event per case covers the const char* / (pointer, length) / char / std::string "
                       "overloads (const char* arguments denote the bytes before the first NUL), all four iterator pairs, front / back / length, swap, clear, "
                       "conversions, and every query between ALIASING views (h against h.substr(pos, n) on the same storage, 49 (pos, n) pairs); "
                       "non-trivial = haystack non-empty; distinct by content")
    tlc_mc(ctx, SD, "MC_SVA", "mc_sva.cfg", workers=8, coverage=False, timeout=3000,
           cfg_text="CONSTANTS Bytes = {0, 1, 255}\n MaxH = %d\n MaxN = 2\nSPECIFICATION Spec\nINVARIANT Laws\nCHECK_DEADLOCK FALSE\n" % (3 if quick else 4))
    hs = [list(c) for n in range(0, 4 if quick else 5) for c in itertools.product(ALPHA, repeat=n)]
    ns = [list(c) for n in range(0, 3) for c in itertools.product(ALPHA, repeat=n)]
    pairs = [(h, n) for h in hs for n in ns]
    for i in range(100 if quick else 20000):
        pairs.append(([rng.choice(ALPHA) for _ in range(rng.randint(3, 5))], [rng.choice(ALPHA) for _ in range(rng.randint(1, 3))]))
    lines = ["%d %s %d %s" % (len(h), " ".join(map(str, h)), len(n), " ".join(map(str, n))) for h, n in pairs]
    for ln in lines:
        ctx.count_case(ln, nontrivial=not ln.startswith("0 "))
    ctx.cov["query_evaluations"] = len(lines) * (9 + 11 * 7 + 3 * 49 + 16 * 7 + 24 + 5 * 49 + 20)
    scr = ctx.path("sv_scripts.txt")
    open(scr, "w").write("\n".join(lines) + "\n")
    src = os.path.join(HARNESS, "drv_sv.cpp")
    exe = build(ctx, "drv_sv", [src], std="c++20")
    tr = ctx.path("sv.ndjson")
    run_driver_checked(ctx, exe, [scr, tr], what="drv_sv", replay_src=scr)
    exe_a = build(ctx, "drv_sv_asan", [src], std="c++20", flags=["-fsanitize=address,undefined", "-fno-sanitize-recover=undefined"])
    run_driver_checked(ctx, exe_a, [scr, ctx.path("sv_asan.ndjson")], what="drv_sv(asan)", replay_src=scr, timeout=3000)
    if not (os.path.exists(tr) and os.path.getsize(tr)):
        return
    tl = [x for x in read_text(tr).split("\n") if x]
    tlx_ev = [x for x in tl if '"e":"sv"' in x or '"e":"svx"' in x]
    std_ev = [x for x in tl if '"e":"sv_std"' in x or '"e":"svx_std"' in x]
    if not any('"e":"svx"' in x for x in tlx_ev):
        raise InternalError("driver recorded no svx events")
    ctx.sample({"recorded_event(excerpt)": {k: v for k, v in json.loads(tlx_ev[len(tlx_ev) // 2]).items() if k in ("h", "n")}})
    ctx.sample({"tlx_results_for_it": {k: v for k, v in json.loads(tlx_ev[len(tlx_ev) // 2])["t"].items() if k in ("compare", "lt", "find", "rfind", "substr", "rel_z", "find_z", "rev")}})
    # (1) the definitions themselves against std::string_view: a rejection here is a mistake in SVA -> internal error, never a violation
    fstd = ctx.path("sv_std.ndjson")
    with open(fstd, "w") as f:
        f.write('{"e":"reset"}\n' + "\n".join(std_ev[:: (4 if quick else 1)]) + "\n")

    class Probe:      # collect rejections without registering violations
        pass
    saved = (list(ctx.violations), dict(ctx.known_hits))
    validate_traces(ctx, SD, "Trace_SV", "Trace_SV.cfg", fstd, lambda ex, at: ("internal/sva-vs-std", "SVA disagrees with std::string_view"), shards=NCPU, max_rejects=2)
    if len(ctx.violations) > len(saved[0]):
        bad = ctx.violations[len(saved[0])]
        ctx.violations[:] = saved[0]
        raise InternalError("SVA.tla disagrees with std::string_view itself: %s" % bad[1][:300])
    # (2) the verdict: tlx::StringView against SVA, in chunks of 20 events
    per = ctx.path("sv_tlx.ndjson")
    with open(per, "w") as f:
        for i in range(0, len(tlx_ev), 20):
            f.write('{"e":"reset"}\n' + "\n".join(tlx_ev[i:i + 20]) + "\n")

    def classify(ex, at):
        e = json.loads(ex[min(at, len(ex) - 1)])
        # name the first query that differs from std::string_view's own answer for a readable key
        return ("stringview/h%d/n%d" % (len(e.get("h", [])), len(e.get("n", []))),
                "tlx::StringView answers a query on h=%s n=%s differently from the [string.view] definition" % (e.get("h"), e.get("n")))
    validate_traces(ctx, SD, "Trace_SV", "Trace_SV.cfg", per, classify, shards=NCPU, max_rejects=10)
    ctx.assumptions += ["behaviour undefined for std::string_view (operator[] / front / back out of range, remove_prefix(n > size)) is not exercised",
                        "SVA.tla is cross-checked against std::string_view (libstdc++) on the same inputs; a disagreement there is an internal error of the check"]
