"""C17 -- LRU caches and SplayTree.  spec/lru_splay/*.tla"""
import itertools
import json
import os
import random
from vlib import *

SD = os.path.join(SPEC, "lru_splay")
LRU_CODE = {"put": 0, "touch": 1, "touch_if_exists": 2, "erase": 3, "erase_if_exists": 4, "get": 5, "get_touch": 6, "pop": 7, "clear": 8}
SPLAY_CODE = {"insert": 0, "erase": 1, "exists": 2, "find": 3, "clear": 4}


def lru_script(ops, flavour, nkeys):
    """flavour 0 set<int>, 1 map<int, int>, 2 set<K>, 3 map<K, K> with K a type whose move operations empty their source"""
    return "%d %d %d %s" % (flavour, nkeys, len(ops), " ".join("%d %d %d" % (LRU_CODE[o["o"]], o["k"], o["v"] if flavour % 2 else 0) for o in ops))


def random_lru_ops(rng, n, nkeys):
    size = set()
    ops = []
    while len(ops) < n:
        o = rng.choice(["put"] * 5 + ["touch", "touch", "touch_if_exists", "erase", "erase_if_exists", "get", "get_touch", "get_touch", "pop", "pop"] + (["clear"] if rng.random() < 0.1 else []))
        k = rng.randint(0, nkeys + 1) if o != "put" else rng.randint(1, nkeys)
        if o == "pop":
            # legality needs the model's notion of emptiness only
            if not size:
                continue
            ops.append({"o": o, "k": 0, "v": 0})
            size = None            # unknown which key left: recompute lazily below
            # track conservatively by replaying a tiny recency list
            continue_flag = True
        else:
            ops.append({"o": o, "k": k, "v": rng.randint(1, 9)})
        # recompute presence set by replay (cheap)
        order = []
        for p in ops:
            if p["o"] == "put":
                if p["k"] in order:
                    order.remove(p["k"])
                order.insert(0, p["k"])
            elif p["o"] in ("touch", "touch_if_exists", "get_touch") and p["k"] in order:
                order.remove(p["k"]); order.insert(0, p["k"])
            elif p["o"] in ("erase", "erase_if_exists") and p["k"] in order:
                order.remove(p["k"])
            elif p["o"] == "pop" and order:
                order.pop()
            elif p["o"] == "clear":
                order = []
        size = set(order)
    return ops


def run(ctx):
    quick = ctx.tier == "quick"
    rng = random.Random(ctx.seed)
    ctx.cov["rule"] = ("LRU: tours covering every transition of LruA's state graph (TLC, 3 keys x 2 values) + seeded histories over 6-12 keys, on the set "
                       "and map flavours; SplayTree: every operation history of length D over keys {1,2,3} (insert/erase/exists/find per key + clear: "
                       "all operations are always enabled, so the history set is the full product) + seeded histories over 12 keys, on set/multiset x "
                       "less/greater x Tracked/int keys; non-trivial = at least 2 operations; distinct by content")
    tlc_mc(ctx, SD, "LruA", "mc_lru.cfg", require_actions=("Put", "Touch", "Erase", "Get", "GetTouch", "Pop", "Clear"))
    tlc_mc(ctx, SD, "SplayA", "mc_splay.cfg", require_actions=("Insert", "Erase", "Find", "Clear", "New"))
    # LRU transition cover
    gen = ("CONSTANTS Keys = {1,2,3}\n Vals = {1,2}\nSPECIFICATION GenSpec\nVIEW View\nACTION_CONSTRAINT Edge\nCHECK_DEADLOCK FALSE\n")
    edges, st = tlc_gen(ctx, SD, "Gen_Lru", "gen_lru.cfg", workers=1, cfg_text=gen)
    tours, ne, nn = edge_tours(edges, maxlen=50)
    st.update({"edges": ne, "graph_states": nn, "tours": len(tours)})
    ctx.cov["model_runs"].append(st)
    lru_lines = []
    for t in tours:
        lru_lines.append(lru_script(t, 1, 3))
        lru_lines.append(lru_script(t, 0, 3))
        lru_lines.append(lru_script(t, 3, 3))          # key / value type with source-emptying moves (round-5 seeded change: pop() using a moved-from key)
        lru_lines.append(lru_script(t, 2, 3))
    for i in range(100 if quick else 3000):
        nk = rng.choice((6, 12))
        lru_lines.append(lru_script(random_lru_ops(rng, rng.randint(5, 60), nk), i % 4, nk))
    # SplayI: the top-down splay, splay_insert, splay_erase as the code has them; every history over a bounded key set
    SPI = "CONSTANTS Keys = {%s}\n MaxMult = %d\n Dup = %s\n Mutation = \"%s\"\nSPECIFICATION Spec\nINVARIANTS Contents SizeRight Results\nCHECK_DEADLOCK FALSE\n"
    for (ks, mm, dup) in ([("1, 2, 3", 3, "TRUE"), ("1, 2, 3, 4, 5", 1, "FALSE")] if quick else [("1, 2, 3", 4, "TRUE"), ("1, 2, 3, 4", 3, "TRUE"), ("1, 2, 3, 4, 5, 6, 7", 1, "FALSE")]):
        tlc_mc(ctx, SD, "SplayI", "mc_splayi_run.cfg", workers=8, coverage=False, timeout=3000, xmx="8g", cfg_text=SPI % (ks, mm, dup, "none"))
    r = tlc_mc(ctx, SD, "SplayI", "mc_splayi_neg.cfg", workers=8, coverage=False, timeout=3000, expect_ok=False, cfg_text=SPI % ("1, 2, 3", 3, "TRUE", "erase_keeps_right"))
    if r["ok"] or "Invariant Contents is violated" not in r["out"]:
        raise InternalError("negative self-test: SplayI with the original splay_erase (x->right = t->right) does not violate Contents")
    # Splay histories
    alpha = [(o, k) for o in ("insert", "erase", "exists", "find") for k in (1, 2, 3)] + [("clear", 0)]
    D = 4 if quick else 5
    sp_lines = []
    hist = list(itertools.product(alpha, repeat=D))
    if quick:
        hist = rng.sample(hist, len(hist) // 2)      # a seeded random half of the 13^4 histories in the quick tier, all in thorough
    for n, h in enumerate(hist):
        body = " ".join("%d %d" % (SPLAY_CODE[o], k) for o, k in h)
        sp_lines.append("%d %d %s" % (n % 4, D, body))
    if not quick:
        for n, h in enumerate(hist):
            body = " ".join("%d %d" % (SPLAY_CODE[o], k) for o, k in h)
            sp_lines.append("%d %d %s" % ((n + 1) % 2, D, body))     # the other Tracked flavour
    for i in range(150 if quick else 4000):
        nk = rng.choice((4, 12))
        n = rng.randint(5, 80)
        ops = []
        for _ in range(n):
            o = rng.choice(["insert"] * 4 + ["erase"] * 3 + ["exists", "find"] + (["clear"] if rng.random() < 0.15 else []))
            ops.append("%d %d" % (SPLAY_CODE[o], rng.randint(0, nk)))
        sp_lines.append("%d %d %s" % (i % 4, n, " ".join(ops)))
    for ln in lru_lines + sp_lines:
        ctx.count_case(ln, nontrivial=int(ln.split()[2 if ln in lru_lines[:0] else 1]) >= 2)
    ctx.sample({"lru_tour(ops from TLC)": tours[len(tours) // 2][:10]})
    ctx.sample({"splay_history_script": sp_lines[len(sp_lines) // 3]})
    san = ["-fsanitize=address,undefined", "-fno-sanitize-recover=undefined"]
    for drv, lines, mod in (("drv_lru", lru_lines, "Trace_Lru"), ("drv_splay", sp_lines, "Trace_Splay")):
        scr = ctx.path(drv + "_scripts.txt")
        open(scr, "w").write("\n".join(lines) + "\n")
        src = os.path.join(HARNESS, drv + ".cpp")
        exe = build(ctx, drv, [src])
        tr = ctx.path(drv + ".ndjson")
        run_driver_checked(ctx, exe, [scr, tr], what=drv, replay_src=scr)
        exe_a = build(ctx, drv + "_asan", [src], flags=san)
        run_driver_checked(ctx, exe_a, [scr, ctx.path(drv + "_asan.ndjson")], what=drv + "(asan)", replay_src=scr, timeout=1800)
        if not os.path.exists(tr) or os.path.getsize(tr) == 0:
            continue
        lines_t = read_text(tr).split("\n")
        ctx.sample({"recorded_trace_" + drv: [json.loads(x) for x in lines_t[1:4]]})

        def classify(ex, at, drv=drv):
            e = json.loads(ex[min(at, len(ex) - 1)])
            return ("%s/%s/%s" % (drv, e.get("variant", e.get("flavour")), e.get("e")),
                    "%s: call %s returned / left a state the abstract container does not allow" % (drv, e.get("e")))
        if drv == "drv_splay":
            # implementation level first: the node structure after every call vs. SplayI (set and multiset separately: Dup is a constant of the model);
            # what it rejects but Trace_Splay accepts is DRIFT
            groups = {}
            for ex in split_executions([x for x in lines_t if x]):
                groups.setdefault('"dup":true' in ex[0], []).extend(ex)
            for dup, evs in sorted(groups.items()):
                gf = ctx.path("splay_%s.ndjson" % ("multiset" if dup else "set"))
                open(gf, "w").write("\n".join(evs) + "\n")
                validate_traces(ctx, SD, "Trace_SplayI", "Trace_SplayI.cfg", gf, classify, property_level=(SD, mod, mod + ".cfg"))
            continue
        validate_traces(ctx, SD, mod, mod + ".cfg", tr, classify)
    ctx.assumptions += ["pop() is only offered on a non-empty cache (documented precondition)",
                        "LRU recency order is observed by draining a copy with pop()",
                        "SplayTree::find on an absent key may return any stored key; check() is only consulted for the set flavour "
                        "(it compares strictly and rejects valid multiset trees)"]
