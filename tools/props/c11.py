"""C11 -- Semaphore and both thread barriers.  spec/semaphore/*.tla, spec/barrier/*.tla"""
import json
import os
import random
from collections import defaultdict
from vlib import *

SS = os.path.join(SPEC, "semaphore")
SB = os.path.join(SPEC, "barrier")
VS = os.path.join(HARNESS, "vsched", "vsched.cpp")
SHIM = ["-include", "vsched/vsched.hpp"]
OPC = {"signal": 0, "signaln": 1, "wait": 2, "try": 3}


def sem_line(initial, progs, strat, seed, order, waiters):
    ps = []
    for p in progs:
        cs = []
        for c in p:
            if c["op"] == "signal": cs.append("0 0 0")
            elif c["op"] == "signaln": cs.append("1 %d 0" % c["n"])
            elif c["op"] == "wait": cs.append("2 %d %d" % (c["d"], c["s"]))
            else: cs.append("3 %d %d" % (c["d"], c["s"]))
        ps.append("%d %s" % (len(p), " ".join(cs)))
    return "%d %d  %s  %d %d  %d %s  %d %s" % (initial, len(progs), "  ".join(ps), strat, seed, len(order), " ".join(map(str, order)),
                                              len(waiters), " ".join(map(str, waiters)))


def rand_call(rng):
    r = rng.random()
    if r < 0.3: return {"op": "signal", "n": 1, "d": 0, "s": 0}
    if r < 0.45: return {"op": "signaln", "n": rng.randint(1, 3), "d": 0, "s": 0}
    if r < 0.85: return {"op": "wait", "n": 0, "d": rng.randint(1, 3), "s": rng.choice((0, 0, 1, 2))}
    return {"op": "try", "n": 0, "d": rng.randint(1, 2), "s": rng.choice((0, 1))}


def sem_cfg(threads, maxcalls, signal_all, spec):
    return ("CONSTANTS Threads = %s\n Calls <- CallSet\n MaxCalls <- %s\n Initial = 0\n SignalAll = %s\n%s" %
            (threads, maxcalls, "TRUE" if signal_all else "FALSE", spec))


def run(ctx):
    quick = ctx.tier == "quick"
    rng = random.Random(ctx.seed)
    ctx.cov["rule"] = ("cases = (thread programs, schedule) pairs executed on the real Semaphore / barriers under the scheduler shim: complete behaviours of "
                       "SemI / BarrierI enumerated (BFS) or sampled (-simulate) by TLC and forced step by step (GUIDED), plus PCT / random schedules of "
                       "seeded programs; non-trivial = every case (each has >= 2 threads or >= 2 operations); distinct by content")
    inv = "INVARIANTS Conservation WaitSawEnough NoStrandedWaiter MutexOK\nCHECK_DEADLOCK FALSE\n"
    # ---- Semaphore: model checking
    tlc_mc(ctx, SS, "MC_Sem", "mc_sem_a.cfg", workers=8, cfg_text=sem_cfg("{1,2}", "MaxCalls_2", True, "SPECIFICATION Spec\n" + inv),
           require_actions=("Lock", "CvWait", "NotifyAll", "Unlock"), timeout=1800)
    tlc_mc(ctx, SS, "MC_Sem", "mc_sem_b.cfg", workers=8, cfg_text=sem_cfg("{1,2,3}", "MaxCalls_1x2" if quick else "MaxCalls_2", True, "SPECIFICATION Spec\n" + inv),
           timeout=3000, xmx="16g")
    neg = tlc_mc(ctx, SS, "MC_Sem", "mc_sem_neg.cfg", workers=4, expect_ok=False, coverage=False,
                 cfg_text=sem_cfg("{1,2,3}", "MaxCalls_1", False, "SPECIFICATION Spec\n" + inv))
    if neg["ok"] or "NoStrandedWaiter is violated" not in neg["out"]:
        raise InternalError("SemI with the original notify_one signal() was not rejected: NoStrandedWaiter is vacuous")
    ctx.notes.append("self-test: SemI with SignalAll=FALSE (pre-fix signal()) violates NoStrandedWaiter, as expected")
    # ---- Semaphore: behaviours
    gen_tail = "SPECIFICATION GenSpec\nINVARIANT Emit\nCHECK_DEADLOCK FALSE\n"
    if quick:
        sh, st = tlc_gen(ctx, SS, "MCG_Sem", "gen_sem.cfg", simulate=1500, depth=60, seed=ctx.seed, cfg_text=sem_cfg("{1,2,3}", "MaxCalls_1x2", True, gen_tail))
    else:
        sh, st = tlc_gen(ctx, SS, "MCG_Sem", "gen_sem.cfg", cfg_text=sem_cfg("{1,2,3}", "MaxCalls_1", True, gen_tail), timeout=3000, xmx="12g")
        ctx.cov["model_runs"].append(st)
        sh2, st = tlc_gen(ctx, SS, "MCG_Sem", "gen_sem2.cfg", simulate=20000, depth=80, seed=ctx.seed, cfg_text=sem_cfg("{1,2,3}", "MaxCalls_2", True, gen_tail), timeout=3000)
        sh += sh2
    ctx.cov["model_runs"].append(st)
    slines = [sem_line(0, h["prog"], 4, 1, h["order"], h["waiters"]) for h in sh]
    for i in range(200 if quick else 4000):
        n = rng.choice((2, 3, 4))
        progs = [[rand_call(rng) for _ in range(rng.randint(1, 3))] for _ in range(n)]
        slines.append(sem_line(rng.choice((0, 0, 1, 2)), progs, rng.choice((0, 1, 1)), rng.randrange(1 << 30), [], []))
    # ---- barriers: model checking + behaviours
    binv = "SPECIFICATION Spec\nINVARIANTS NoEarlyLeave ActionOnce ActionBeforeRelease ActionByLast NoOvertake\nPROPERTY Reusable\nCHECK_DEADLOCK FALSE\n"
    for kind in ("mutex", "spin"):
        for n, g in (((2, 3), (3, 2)) if quick else ((1, 3), (2, 3), (3, 3), (4, 3))):
            tlc_mc(ctx, SB, "BarrierI", "mc_bar_%s_%d_%d.cfg" % (kind, n, g), workers=4, timeout=3000, xmx="12g",
                   cfg_text="CONSTANTS Threads = {%s}\n G = %d\n Kind = \"%s\"\n" % (",".join(map(str, range(1, n + 1))), g, kind) + binv)
    blines = []
    bgen = "SPECIFICATION GenSpec\nINVARIANT Emit\nCHECK_DEADLOCK FALSE\n"
    nb = 0
    for kind in ("mutex", "spin"):
        for n, g, sim in (((2, 2, 0), (3, 2, 600)) if quick else ((1, 2, 0), (2, 2, 0), (2, 3, 0), (3, 1, 0), (3, 3, 8000), (4, 3, 8000))):
            cfgt = "CONSTANTS Threads = {%s}\n G = %d\n Kind = \"%s\"\n" % (",".join(map(str, range(1, n + 1))), g, kind) + bgen
            bh, st = tlc_gen(ctx, SB, "Gen_Bar", "gen_bar_%s_%d_%d.cfg" % (kind, n, g), cfg_text=cfgt, simulate=sim or None, depth=200, seed=ctx.seed, timeout=3000, xmx="12g")
            ctx.cov["model_runs"].append(st)
            nb += len(bh)
            for i, h in enumerate(bh):
                blines.append("%d %d %d %d 4 1 %d %s" % (0 if kind == "mutex" else 1, i % 2, h["n"], h["g"], len(h["order"]), " ".join(map(str, h["order"]))))
    for i in range(200 if quick else 4000):
        blines.append("%d %d %d %d %d %d 0" % (i % 2, (i // 2) % 2, rng.choice((1, 2, 3, 4)), rng.choice((1, 2, 3, 4)), rng.choice((0, 1, 1, 3)), rng.randrange(1 << 30)))
    for ln in slines + blines:
        ctx.count_case(ln)
    ctx.sample({"semaphore_behaviour_from_TLC": sh[len(sh) // 2]})
    # ---- run
    san = ["-fsanitize=address,undefined", "-fno-sanitize-recover=undefined"]
    div_tot = 0
    for drv, lines in (("drv_sem", slines), ("drv_barrier", blines)):
        scr = ctx.path(drv + "_scripts.txt")
        open(scr, "w").write("\n".join(lines) + "\n")
        src = os.path.join(HARNESS, drv + ".cpp")
        exe = build(ctx, drv, [src, VS], flags=SHIM)
        tr = ctx.path(drv + ".ndjson")
        run_driver_checked(ctx, exe, [scr, tr], what=drv, replay_src=scr, timeout=3000)
        if not quick:
            exe_a = build(ctx, drv + "_asan", [src, VS], flags=SHIM + san)
            run_driver_checked(ctx, exe_a, [scr, ctx.path(drv + "_asan.ndjson")], what=drv + "(asan)", replay_src=scr, timeout=6000, env={"ASAN_OPTIONS": "detect_leaks=0"})
        if not (os.path.exists(tr) and os.path.getsize(tr)):
            continue
        tl = [x for x in read_text(tr).split("\n") if x]
        div_tot += sum(1 for x in tl if '"diverged":true' in x)
        ctx.sample({"recorded_trace_" + drv: [json.loads(x) for x in tl[:8]]})

        def classify(ex, at, drv=drv):
            e = json.loads(ex[min(at, len(ex) - 1)])
            r = json.loads(ex[0])
            if drv == "drv_sem":
                return ("sem/%s" % e.get("e"), "Semaphore: event %s is not a step of SemI (token conservation, wait condition, stranded waiter or return value)" % e.get("e"))
            return ("barrier/%s/%s" % (r.get("kind"), e.get("e")), "%s barrier: event %s is not a step of BarrierI (early release, action count/author, or no termination)" % (r.get("kind"), e.get("e")))
        if drv == "drv_sem":
            validate_traces(ctx, SS, "Trace_Sem", "Trace_Sem.cfg", tr, classify, property_level=(SS, "Trace_SemA", "Trace_SemA.cfg"))
        else:
            groups = defaultdict(list)
            for ex in split_executions(tl):
                r = json.loads(ex[0])
                groups[(r.get("kind"), r.get("n"), r.get("g"))].append(ex)
            for key, exs in sorted(groups.items(), key=lambda kv: str(kv[0])):
                if key[0] == "crashed":
                    ctx.violation("crash/barrier-execution", "a barrier execution crashed or was killed: %s" % exs[0][0][:200])
                    continue
                f = ctx.path("bar_%s_%s_%s.ndjson" % key)
                open(f, "w").write("\n".join("\n".join(ex) for ex in exs) + "\n")
                validate_traces(ctx, SB, "Trace_Bar", "Trace_Bar.cfg", f, classify, shards=min(4, max(1, len(exs) // 300)))   # I-level decides "by the last arriver"; see Trace_BarA for the rest
    ctx.cov["guided_schedules"] = len(sh) + nb
    ctx.cov["guided_schedules_diverged"] = div_tot
    if div_tot:
        ctx.notes.append("DRIFT: %d guided executions did not follow the TLC behaviour exactly (verdict unaffected)" % div_tot)
    ctx.assumptions += ["the scheduler shim executes the redirected primitives sequentially consistently; spurious wake-ups are not injected in this check",
                        "a spinning thread (same atomic re-read unchanged) is parked until the atomic is written",
                        "executions in which waits can never be satisfied end in a reported rest state; that is legal iff no blocked waiter is covered"]
