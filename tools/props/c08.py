"""C08 -- multisequence partition / selection.  spec/mseq/{MSeqA,MC_MSeqA,MSeqPartitionI,Trace_MSeq}.tla"""
import itertools
import json
import os
import random
from vlib import *

SD = os.path.join(SPEC, "mseq")


def consts(d):
    return "CONSTANTS\n" + "\n".join("  %s = %s" % kv for kv in d.items()) + "\n"


def sorted_seqs(keys, maxlen):
    out = []
    for n in range(1, maxlen + 1):
        out += [list(c) for c in itertools.combinations_with_replacement(keys, n)]
    return out


def tup_line(mode, t, rank=None):
    s = "%d %d %s" % (mode, len(t), " ".join("%d %s" % (len(x), " ".join(map(str, x))) for x in t))
    return s if rank is None else s + " %d" % rank


def run(ctx):
    quick = ctx.tier == "quick"
    rng = random.Random(ctx.seed)
    ctx.cov["rule"] = ("cases = tuples of non-empty sorted sequences: the complete product over 3 keys up to the stated (m, length) bounds with *every* rank "
                       "0..N (partition) / 0..N-1 (selection), plus seeded large tuples (very unequal lengths, lengths 2^k-1, 2^k, 2^k+1, <= 3 distinct "
                       "keys) at seeded ranks; each under less, greater and a weak order on (key, payload); non-trivial = N >= 2; distinct by content")
    # 1. the definition and the transcription, checked by TLC ----------------------------------------
    tlc_mc(ctx, SD, "MC_MSeqA", "mc_a_run.cfg", workers=8, coverage=False, timeout=3000, xmx="12g",
           cfg_text=consts({"MaxM": 2 if quick else 3, "MaxLen": 3, "Keys": "{1,2,3}"}) +
           "SPECIFICATION Spec\nINVARIANTS Consistent ClausesCharacterise SelectionDefsAgree\nCHECK_DEADLOCK FALSE\n")
    pi = "SPECIFICATION Spec\nINVARIANT Refines\nCHECK_DEADLOCK FALSE\n"
    for mm, ml in (((2, 5), (3, 3)) if quick else ((1, 8), (2, 7), (3, 4), (4, 2))):
        tlc_mc(ctx, SD, "MSeqPartitionI", "mc_pi_%d_%d.cfg" % (mm, ml), workers=8, coverage=False, timeout=6000, xmx="16g",
               cfg_text=consts({"MaxM": mm, "MaxLen": ml, "Keys": "{1,2,3}", "Fixed": "TRUE"}) + pi)
    neg = tlc_mc(ctx, SD, "MSeqPartitionI", "mc_pi_neg.cfg", workers=4, coverage=False, expect_ok=False,
                 cfg_text=consts({"MaxM": 2, "MaxLen": 4, "Keys": "{1,2,3}", "Fixed": "FALSE"}) + pi)
    if neg["ok"] or "Refines is violated" not in neg["out"]:
        raise InternalError("the transcription of the original (value-only) refinement test was not rejected: Refines is vacuous")
    ctx.notes.append("self-test: MSeqPartitionI with Fixed=FALSE (pre-fix refinement test) violates Refines (smallest counterexample <<1>>, <<1,1,1,1>>, rank 2), as expected")
    # 2. inputs -----------------------------------------------------------------------------------
    lines = []
    K = (1, 2, 3)
    S4, S3, S2, S6 = sorted_seqs(K, 4), sorted_seqs(K, 3), sorted_seqs(K, 2), sorted_seqs((1, 2), 7)
    for t in itertools.product(S4, repeat=1):
        lines.append(tup_line(0, t))
    for t in itertools.product(S4, repeat=2):
        lines.append(tup_line(0, t))
    prod3 = list(itertools.product(S3, repeat=3))
    if quick:
        prod3 = rng.sample(prod3, len(prod3) // 3)
    for t in prod3:
        lines.append(tup_line(0, t))
    if not quick:
        for t in itertools.product(S2, repeat=4):
            lines.append(tup_line(0, t))
        for t in itertools.product(S6, repeat=2):
            lines.append(tup_line(0, t))
    nlarge = 60 if quick else 600
    for i in range(nlarge):
        m = rng.choice((1, 2, 3, 5, 8))
        t = []
        for _ in range(m):
            k = rng.randint(0, 6 if quick else 8)
            ln = max(1, (1 << k) + rng.choice((-1, 0, 1)))
            if rng.random() < 0.3:
                ln = rng.randint(1, 3)
            nk = rng.choice((1, 2, 3))
            t.append(sorted(rng.randint(1, nk) for _ in range(ln)))
        n = sum(len(x) for x in t)
        for r in {0, n, rng.randint(0, n), rng.randint(0, n), n // 2, max(0, n - 1)}:
            lines.append(tup_line(1, t, r))
    # more than 16 sequences (std::sort switches from insertion sort to an unstable algorithm there: the sort of the (sample, sequence) pairs must really compare
    # the pairs -- round-7 seeded change, the counterpart of C06c inside multisequence_partition): many short runs with few distinct keys, every rank
    for i in range(12 if quick else 120):
        m = rng.choice((17, 18, 20, 24, 33))
        nk = rng.choice((1, 1, 2, 3))
        if i % 2 == 0:        # singletons (and a few pairs) of very few distinct keys: no refinement round repairs a wrong initial order of the samples
            t = [[rng.randint(1, nk)] * rng.choice((1, 1, 1, 2)) for _ in range(m)]
        else:
            t = [sorted(rng.randint(1, nk) for _ in range(rng.choice((1, 1, 2, 3, 5)))) for _ in range(m)]
        lines.append(tup_line(0, t))
    for m in (17, 18, 20, 33):          # the plain cases: m equal singletons, alternating keys, one longer run among singletons
        lines.append(tup_line(0, [[1] for _ in range(m)]))
        lines.append(tup_line(0, [[1 + (j % 2)] for j in range(m)]))
        lines.append(tup_line(0, [[1, 1] if j == m // 2 else [1] for j in range(m)]))
    for ln in lines:
        ctx.count_case(ln, nontrivial=len(ln.split()) > 4)
    ctx.cov["exhaustive"] = False
    scr = ctx.path("mseq_scripts.txt")
    open(scr, "w").write("\n".join(lines) + "\n")
    src = os.path.join(HARNESS, "drv_mseq.cpp")
    exe = build(ctx, "drv_mseq", [src])
    tr = ctx.path("mseq.ndjson")
    run_driver_checked(ctx, exe, [scr, tr], what="drv_mseq", replay_src=scr)
    exe_a = build(ctx, "drv_mseq_asan", [src], flags=["-fsanitize=address,undefined", "-fno-sanitize-recover=undefined"])
    run_driver_checked(ctx, exe_a, [scr, ctx.path("mseq_asan.ndjson")], what="drv_mseq(asan)", replay_src=scr, timeout=3000)
    if not (os.path.exists(tr) and os.path.getsize(tr)):
        return
    tl = [x for x in read_text(tr).split("\n") if x]
    ctx.sample({"recorded_event": json.loads(tl[len(tl) // 2])})
    # every event is judged on its own
    per = ctx.path("mseq_per_event.ndjson")
    with open(per, "w") as f:
        for x in tl:
            if '"e":"reset"' not in x:
                f.write('{"e":"reset"}\n' + x + "\n")

    def classify(ex, at):
        e = json.loads(ex[-1])
        return ("mseq/cmp%s/%s" % (e.get("cmp"), e.get("e")), "multisequence_partition / _selection returned a split or (value, offset) that differs from the stable merge rank definition for seqs=%s" % json.dumps(e.get("seqs"))[:120])
    validate_traces(ctx, SD, "Trace_MSeq", "Trace_MSeq.cfg", per, classify, shards=NCPU)
    ctx.assumptions += ["sequences are non-empty and sorted by the comparator (documented precondition)",
                        "large inputs are judged by the three clauses (sum, order, tie rule), which TLC shows equivalent to the rank definition on the bounded domain"]
