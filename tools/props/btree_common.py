"""Shared by C01 and C02: history generation (TLC transition cover, TLC random walks, long seeded histories) and the B+ tree driver."""
import json
import os
import random
from vlib import *

SD = os.path.join(SPEC, "btree")
BT = os.path.join(HARNESS, "btree")
FLAVOURS = ["set", "multiset", "map", "multimap"]
NCFG = 10
COVER_CFG = ("CONSTANTS Keys = {1, 2}\n MaxMult = 2\n MaxLen = 4\n WalkLen = 0\n Presets <- PresetsSmall\nSPECIFICATION CoverSpec\nVIEW View\nACTION_CONSTRAINT Edge\nCHECK_DEADLOCK FALSE\n")
WALK_CFG = ("CONSTANTS Keys = {1, 2, 3, 4, 5, 6, 7, 8}\n MaxMult = %d\n MaxLen = %d\n WalkLen = %d\n Presets <- PresetsBig\nSPECIFICATION WalkSpec\nCONSTRAINT Walk\nCHECK_DEADLOCK FALSE\n")


def jl(x):
    """trace lines of a crashing execution may be cut off"""
    try:
        v = json.loads(x)
        return v if isinstance(v, dict) else {}
    except ValueError:
        return {}


def tok(op):
    op = list(op)
    if op[0] == "X":
        op = op[:3]
    return " ".join(str(x) for x in op)


def long_history(rng, n, nkeys, maxmult):
    """fill / drain cycles over nkeys keys with bulk loads at exact capacity multiples, copies, swaps and comparisons in between"""
    out, size = [], 0
    mode = "fill"
    for i in range(n):
        r = rng.random()
        k = rng.randint(1, nkeys)
        if r < 0.03:
            out.append(rng.choice(("Y", "S", "M", "A 1", "A 2", "A 3", "M")))
            continue
        if r < 0.05:
            m = rng.choice((4, 5, 8, 9, 12, 16, 17, 20, 25, 32, 33, 64))
            ks = [rng.randint(1, nkeys) for _ in range(m)] if rng.random() < 0.5 else list(range(1, m + 1))
            out.append("B %d %d %s" % (rng.choice((1, 1, 2)), len(ks), " ".join(map(str, ks))))
            continue
        if r < 0.06:
            out.append("C %d" % rng.choice((1, 2)))
            continue
        c = 1 if rng.random() < 0.85 else 2
        if mode == "fill":
            size += 1
            out.append(rng.choice(("I %d %d" % (c, k), "I %d %d" % (c, k), "H %d %d %d" % (c, rng.randint(0, 40), k), "U %d %d" % (c, k),
                                   "R %d 3 %d %d %d" % (c, k, rng.randint(1, nkeys), k))))
            if size > nkeys * maxmult * 0.8 or rng.random() < 0.02:
                mode = "drain"
        else:
            size = max(0, size - 1)
            out.append(rng.choice(("O %d %d" % (c, k), "O %d %d" % (c, k), "X %d %d" % (c, rng.randint(0, 60)), "X %d %d" % (c, rng.randint(0, 60)), "E %d %d" % (c, k))))
            if size <= 0 or rng.random() < 0.03:
                mode = "fill"
    return " ".join(out)


def histories(ctx, rng, quick):
    """returns (lines, probe header)"""
    lines = []
    edges, st = tlc_gen(ctx, SD, "Gen_Ordered", "gen_cover_run.cfg", workers=1, cfg_text=COVER_CFG)
    tours, ne, nn = edge_tours(edges, maxlen=40)
    st.update({"edges": ne, "graph_states": nn, "tours": len(tours)})
    ctx.cov["model_runs"].append(st)
    for t in tours:
        lines.append(" ".join(tok(o) for o in t))
    nw = 0
    for (mm, ml, wl, num) in ([(3, 22, 60, 40), (2, 14, 40, 40)] if quick else [(3, 22, 60, 300), (2, 14, 40, 200), (3, 24, 120, 100)]):
        walks, st = tlc_gen(ctx, SD, "Gen_Ordered", "gen_walk_run.cfg", workers=4, cfg_text=WALK_CFG % (mm, ml, wl), simulate=num, depth=wl + 5, seed=ctx.seed + nw, limit=num)
        ctx.cov["model_runs"].append(st)
        seen = set()
        for w in walks:
            s = " ".join(tok(o) for o in w)
            if s not in seen:
                seen.add(s)
                lines.append(s)
                nw += 1
    ctx.cov["tlc_tours"] = len(tours)
    ctx.cov["tlc_walks"] = nw
    nl = 0
    for (n, nk, mm, cnt) in ([(300, 20, 2, 6), (800, 14, 4, 3), (150, 40, 1, 6)] if quick else [(500, 20, 2, 12), (1500, 14, 4, 3), (3000, 20, 3, 1), (300, 40, 1, 12)]):
        for _ in range(cnt):
            lines.append(long_history(rng, n, nk, mm))
            nl += 1
    # bulk loads across the level boundaries of every capacity pair (asymmetric pairs need a few hundred keys for three levels), then a few calls
    for nb in ([25, 26, 64, 100, 176, 181, 200, 300, 420] if quick else list(range(20, 900, 11))):
        ks = [rng.randint(1, max(2, nb // 2)) for _ in range(nb)] if nb % 2 else list(range(1, nb + 1))
        lines.append("B 1 %d %s Y O 1 %d I 2 %d X 1 %d M E 1 %d S B 2 %d %s" % (nb, " ".join(map(str, ks)), max(1, nb // 4), nb + 3, nb // 3, max(1, nb // 5), min(nb, 40), " ".join(map(str, ks[:40]))))
        nl += 1
    ctx.cov["seeded_long_histories"] = nl
    return lines, "P " + " ".join(map(str, range(0, 11)))


def build_driver(ctx, asan=False):
    srcs = [os.path.join(BT, "drv_btree.cpp")] + [os.path.join(BT, "drv_btree_f%d.cpp" % f) for f in range(4)] + [os.path.join(REPO, "tlx/die/core.cpp")]
    if asan:
        return build(ctx, "drv_btree_asan", srcs, flags=["-fsanitize=address,undefined", "-fno-sanitize-recover=undefined"])
    return build(ctx, "drv_btree", srcs)


def split_groups(trace_text, want_shapes):
    """C01: op events grouped by (flavour, descending), identical executions (same flavour, different node sizes) validated once.
       C02: everything, in order."""
    groups, seen, cur, buf = {}, set(), None, []

    def flush():
        if cur is None or not buf:
            return
        body = "\n".join(buf[1:])
        key = (cur, hash(body))
        if key in seen:
            return
        seen.add(key)
        groups.setdefault(cur, []).extend(buf)
    for ln in trace_text.split("\n"):
        if not ln:
            continue
        if ln.startswith('{"e":"reset"'):
            flush()
            e = jl(ln)
            cur, buf = (e.get("flavour", 0), e.get("desc", False)), [ln]
        elif ln.startswith('{"e":"op"') or not ln.startswith('{"e":"'):
            buf.append(ln)
        elif cur is not None and not (ln.startswith('{"e":"shape"') or ln.startswith('{"e":"alloc"') or ln.startswith('{"e":"free"') or ln.startswith('{"e":"end"')):
            buf.append(ln)      # crash markers etc.
    flush()
    return groups
