"""C02 -- B+ tree invariants and exact allocation.  spec/btree/{Trace_BTreeShape,Gen_Ordered,OrderedA}.tla"""
import json
import os
import random
from vlib import *
from props.btree_common import *


BT_CFG = ("CONSTANTS LeafMax = %d\n InnerMax = %d\n Keys = {%s}\n MaxMult = %d\n Dup = %s\n Mutation = \"%s\"\nSPECIFICATION Spec\nINVARIANT TreeInv\nINVARIANT Results\nVIEW View\n%sCHECK_DEADLOCK FALSE\n")
# branches of the transcribed case analysis that the bounded model must reach (vacuity guard)
NEED_TAGS = ["split_leaf", "split_inner", "split_inner_left_smaller", "split_inner_special", "split_key_is_new_key", "insert_into_new_leaf", "insert_into_old_leaf",
             "insert_into_new_inner", "insert_into_old_inner", "new_root", "root_collapse", "last_leaf_freed", "lastkey_to_parent", "lastkey_upwards", "lastkey_to_grandparent",
             "lastkey_further_upwards", "fixmerge_current_child", "fixmerge_next_child", "leaf:case1_merge_left", "leaf:case1_merge_right", "leaf:case2_shift_left",
             "leaf:case2_merge_left", "leaf:case3_shift_right", "leaf:case3_merge_right", "leaf:case4_shift_left", "leaf:case4_shift_right", "leaf:case5_shift_left",
             "leaf:case5_shift_right", "inner:case1_merge_left", "inner:case1_merge_right", "inner:case5_shift_left", "inner:case5_shift_right"]


def keyset(n):
    return ", ".join(str(i) for i in range(1, n + 1))


def model_check_btree(ctx, quick):
    """BTreeI: the transcribed insert / erase algorithm, all histories over a bounded key set; clauses of C02 as invariants"""
    runs = [(4, 4, 4, 3, "TRUE"), (4, 5, 4, 3, "TRUE"), (5, 4, 4, 3, "TRUE"), (4, 4, 10, 1, "FALSE")] if quick else \
           [(4, 4, 4, 4, "TRUE"), (4, 5, 4, 4, "TRUE"), (5, 4, 4, 4, "TRUE"), (5, 5, 4, 4, "TRUE"), (6, 4, 4, 4, "TRUE"), (4, 4, 13, 1, "FALSE"), (5, 4, 12, 1, "FALSE"), (4, 4, 5, 3, "TRUE")]
    import concurrent.futures as cf
    jobs = []
    for (ls, is_, nk, mm, dup) in runs:
        jobs.append(dict(cfg="mc_btree_run_%d_%d_%d.cfg" % (ls, is_, nk), cfg_text=BT_CFG % (ls, is_, keyset(nk), mm, dup, "none", "")))
    # bulk_load: every size up to NB for the capacity pairs the driver uses (deterministic construction: one state per size), and
    # histories that continue from a bulk-loaded tree
    NB = 200 if quick else 700
    pairs = ((4, 5), (7, 4), (4, 16), (9, 6)) if quick else ((4, 4), (4, 5), (5, 4), (6, 7), (7, 4), (8, 8), (16, 4), (4, 16), (5, 5), (9, 6))
    bulk_only = BT_CFG.replace("SPECIFICATION Spec", "SPECIFICATION BulkOnlySpec").replace("INVARIANT Results\nVIEW View\n", "")
    for (ls, is_) in pairs:
        jobs.append(dict(cfg="mc_btree_bulk_%d_%d.cfg" % (ls, is_), cfg_text=bulk_only % (ls, is_, keyset(NB), 1, "FALSE", "none", "")))
    jobs.append(dict(cfg="mc_btree_bulk2.cfg", cfg_text=BT_CFG.replace("SPECIFICATION Spec", "SPECIFICATION BulkSpec") % (4, 4, keyset(9 if quick else 11), 1, "FALSE", "none", "")))
    with cf.ThreadPoolExecutor(max_workers=4) as pool:
        futs = [pool.submit(tlc_mc, ctx, SD, "BTreeI", j["cfg"], workers=4, coverage=False, timeout=6000, xmx="12g", deque=False, cfg_text=j["cfg_text"]) for j in jobs]
        for f in futs:
            f.result()
    r = tlc_mc(ctx, SD, "BTreeI", "mc_btree_bulkneg.cfg", workers=8, coverage=False, timeout=3000, xmx="16g", deque=True, expect_ok=False,
               cfg_text=bulk_only % (7, 4, keyset(NB), 1, "FALSE", "bulk_leaf_capacity", ""))
    if r["ok"] or "Invariant TreeInv is violated" not in r["out"]:
        raise InternalError("negative self-test: BTreeI bulk_load with the leaf capacity on inner levels does not violate TreeInv")
    # which branches were reached (4/4 slots, 4 keys x multiplicity 4: three levels)
    notes, st = tlc_gen(ctx, SD, "BTreeI", "mc_btree_note.cfg", workers=4, timeout=3000, cfg_text=BT_CFG % (4, 4, keyset(4), 4, "TRUE", "none", "CONSTRAINT Note\n"))
    tags, heights = {}, {}
    for n in notes:
        for tg in n.get("how", []):
            tags[tg] = tags.get(tg, 0) + 1
        heights[n.get("height")] = heights.get(n.get("height"), 0) + 1
    ctx.cov["btreei_branch_states"] = dict(sorted(tags.items()))
    ctx.cov["btreei_root_level_states"] = {str(k): v for k, v in sorted(heights.items())}
    missing = [tg for tg in NEED_TAGS if tg not in tags]
    if missing:
        raise InternalError("vacuity guard: BTreeI never takes the branches %s in the bounded model" % missing)
    # negative self-tests: seeded mistakes of the transcription must violate the invariants
    for mut in ("no_lastkey_to_grandparent", "no_prev_fix", "no_free_on_merge"):
        r = tlc_mc(ctx, SD, "BTreeI", "mc_btree_neg.cfg", workers=NCPU, coverage=False, timeout=3000, xmx="16g", deque=True, expect_ok=False,
                   cfg_text=BT_CFG % (4, 4, keyset(4), 4, "TRUE", mut, ""))
        if r["ok"] or "Invariant TreeInv is violated" not in r["out"]:
            raise InternalError("negative self-test: BTreeI with Mutation=%s does not violate TreeInv" % mut)
    ctx.cov["negative_self_tests"] = 4


def ie_history(rng, n, nkeys):
    """insert / erase_one / erase(key) / clear / range-insert histories for the implementation-level comparison"""
    out, mode = [], "fill"
    for _ in range(n):
        k = rng.randint(1, nkeys)
        r = rng.random()
        if r < 0.01:
            out.append("C 1")
        elif mode == "fill":
            out.append(rng.choice(("I 1 %d" % k, "I 1 %d" % k, "I 1 %d" % k, "H 1 %d %d" % (rng.randint(0, 9), k), "R 1 3 %d %d %d" % (k, rng.randint(1, nkeys), k))))
            if rng.random() < 0.04:
                mode = "drain"
        else:
            out.append(rng.choice(("O 1 %d" % k, "O 1 %d" % k, "E 1 %d" % k)))
            if rng.random() < 0.05:
                mode = "fill"
    return " ".join(out)


def run(ctx):
    import time
    t0 = time.time()
    def lap(what):
        log("C02 %-38s %6.1fs" % (what, time.time() - t0))
    quick = ctx.tier == "quick"
    rng = random.Random(ctx.seed)
    model_check_btree(ctx, quick)
    lap("BTreeI model checks")
    ctx.cov["rule"] = ("cases = (history, flavour, configuration) as for C01 (TLC transition cover, TLC fill / drain walks, seeded long histories; 4 flavours x 10 configurations with leaf "
                       "and inner capacities 4..16 chosen independently, int and tracked heap-owning elements); after every mutating call on every configuration the driver reads the "
                       "tree through the btree_friend seam and logs leaf depths, fill of every node, separator / max-below / min-right triples, both leaf-chain walks, stats vs. counted "
                       "structure, the library's own verify() verdict, live allocator blocks and live element instances inside node storage; node allocations and releases are events "
                       "of their own; non-trivial = history with at least 2 calls")
    tlc_mc(ctx, SD, "NodesA", "mc_nodes.cfg", workers=4, coverage=False, timeout=600,
           cfg_text="CONSTANT MaxId = %d\nSPECIFICATION NSpec\nINVARIANTS ReturnedAtMostOnce NoDangling\nCHECK_DEADLOCK FALSE\n" % (5 if quick else 7))
    lines, header = histories(ctx, rng, quick)
    for ln in lines:
        ctx.count_case(ln, nontrivial=len(ln.split()) >= 5)
    exe = build_driver(ctx)
    tr = ctx.path("bts.ndjson")
    # the transition-cover tours keep the trees tiny (<= 4 entries per container): in the quick tier they run on 4 of the 10 configurations per flavour,
    # everything else (walks, long histories, bulk loads) on all 10
    nt = ctx.cov.get("tlc_tours", 0) if quick else 0
    tr_a, tr_b = ctx.path("bts_a.ndjson"), ctx.path("bts_b.ndjson")
    if nt:
        run_driver_sharded(ctx, exe, lines[:nt], tr_a, what="drv_btree(tours)", extra_args=["1", "0123", "0358"], header="P")
    run_driver_sharded(ctx, exe, lines[nt:], tr_b, what="drv_btree", extra_args=["1", "0123", "0123456789"], header="P")
    with open(tr, "w") as f:
        for part in ([tr_a] if nt else []) + [tr_b]:
            if os.path.exists(part):
                f.write(read_text(part))
    lap("driver runs with shape facts")
    exe_a = build_driver(ctx, asan=True)
    sub = rng.sample(lines, max(1, len(lines) // (4 if quick else 1)))
    run_driver_sharded(ctx, exe_a, sub, "/dev/null", what="drv_btree(asan)", extra_args=["1", "0123", "0123456789"], header="P",
                       env={"ASAN_OPTIONS": "detect_leaks=1"})
    lap("ASan monitor run")
    if not (os.path.exists(tr) and os.path.getsize(tr)):
        return
    txt = read_text(tr)
    shapes = [x for x in txt.split("\n") if x.startswith('{"e":"shape"')]
    ctx.cov["shape_events"] = len(shapes)
    depth = {}
    branch = {"max_depth": 0, "root_leaf": 0, "root_inner": 0}
    for x in shapes[:: max(1, len(shapes) // 20000)]:
        e = jl(x)
        d = max(e["depths"]) if e.get("depths") else -1
        depth[d] = depth.get(d, 0) + 1
    ctx.cov["tree_depth_histogram_sampled"] = {str(k): v for k, v in sorted(depth.items())}
    mid = [x for x in shapes if len(x) < 1200 and '"depths":[1' in x]
    if mid:
        ctx.sample({"recorded_shape": jl(mid[len(mid) // 2])})

    def classify(ex, at):
        e = jl(ex[min(at, len(ex) - 1)])
        cfg = jl(ex[0]) if ex and ex[0].startswith('{"e":"reset"') else {}
        fl = FLAVOURS[cfg.get("flavour", 0)]
        where = "btree_%s (leaf %s / inner %s slots, %s elements)" % (fl, cfg.get("ls"), cfg.get("is"), "tracked" if cfg.get("tracked") else "int")
        k = e.get("e")
        if k == "shape":
            why = []
            if not e.get("verify"): why.append("verify() fails: %s" % e.get("why", ""))
            if e.get("stats") != e.get("counted"): why.append("stats %s != structure %s" % (e.get("stats"), e.get("counted")))
            if e.get("alloc_err") or e.get("ledger_err"): why.append("allocator / element ledger errors")
            return ("btree/shape/%s" % fl, "%s after %s: the tree violates its invariants (%s)" % (where, e.get("after"), "; ".join(why) or "balance / fill / separators / leaf chain / ownership"))
        if k in ("alloc", "free"):
            return ("btree/alloc/%s" % fl, "%s: node %s event that the allocator state machine does not allow (double free / foreign pointer / reuse)" % (where, k))
        if k == "end":
            return ("btree/leak/%s" % fl, "%s: after destruction of both containers %s node blocks and %s element instances are still live (errors: alloc %s, elements %s)" %
                    (where, e.get("alloc_live"), e.get("elems_live"), e.get("alloc_err"), e.get("ledger_err")))
        return ("btree/crash/%s" % fl, "%s: execution ended abnormally: %s" % (where, str(e)[:120]))
    validate_traces(ctx, SD, "Trace_BTreeShape", "Trace_BTreeShape.cfg", tr, classify, shards=NCPU, max_rejects=8, timeout=3000)
    lap("Trace_BTreeShape validation")
    if not ctx.violations and (not depth or max(depth) < 2):
        raise InternalError("vacuity guard: no recorded tree reached three levels")
    # implementation level: the node structure after every insert / erase, compared with what BTreeI computes (set and multiset, ascending configurations)
    ie = [ie_history(rng, rng.choice((40, 120, 300)), rng.choice((6, 12, 30))) for _ in range(60 if quick else 1500)]
    # one shortest history per (call kind, set of branches taken) of the transcribed case analysis, found by TLC (breadth-first over BTreeI, 4/4 slots)
    bh, st = tlc_gen(ctx, SD, "Gen_BTreeI", "gen_btreei_run.cfg", workers=8, timeout=3000, xmx="16g",
                     cfg_text=BT_CFG.replace("SPECIFICATION Spec", "SPECIFICATION GenSpec").replace("INVARIANT TreeInv\nINVARIANT Results\nVIEW View", "VIEW GView") % (4, 4, keyset(4), 4, "TRUE", "none", "CONSTRAINT Emit\n"))
    ctx.cov["model_runs"].append(st)
    # bulk loads of many sizes (level boundaries differ per capacity pair), followed by a few calls
    for nb in ([0, 1, 4, 5, 16, 17, 25, 26, 64, 65, 100, 176, 181, 200, 256, 300, 420] if quick else list(range(0, 130)) + list(range(130, 900, 7))):
        ie.append("B 1 %d %s O 1 %d I 1 %d X 1 %d E 1 %d" % (nb, " ".join(str(i) for i in range(1, nb + 1)), max(1, nb // 2), nb + 5, nb // 3, max(1, nb - 1)))
    seen_h = set()
    for b in bh:
        ln = " ".join(" ".join(str(x) for x in o) for o in b.get("h", []))
        if ln and ln not in seen_h:
            seen_h.add(ln)
            ie.append(ln)
    ctx.cov["tlc_branch_histories"] = len(seen_h)
    ctx.cov["tlc_branch_kinds"] = len({(b.get("op"), tuple(sorted(b.get("how", [])))) for b in bh})
    tri = ctx.path("bti.ndjson")
    run_driver_sharded(ctx, exe, ie, tri, what="drv_btree(ie)", extra_args=["1", "01", "023589"], header="P")
    groups, cur = {}, None
    for ln in read_text(tri).split("\n"):
        if not ln:
            continue
        if ln.startswith('{"e":"reset"'):
            e = jl(ln)
            cur = (e.get("ls"), e.get("is"), e.get("multi"))
        if cur is not None:
            groups.setdefault(cur, []).append(ln)
    lap("branch histories + I-level driver run")
    ctx.cov["ilevel_groups"] = len(groups)
    jobs = []
    for (ls, is_, multi), evs in sorted(groups.items(), key=str):
        gf = ctx.path("bti_%s_%s_%s.ndjson" % (ls, is_, "multi" if multi else "unique"))
        open(gf, "w").write("\n".join(evs) + "\n")

        def classify_i(ex, at, ls=ls, is_=is_, multi=multi):
            e = jl(ex[min(at, len(ex) - 1)])
            return ("btree/ilevel/%s" % ("multiset" if multi else "set"),
                    "btree_%s (leaf %s / inner %s slots): after %s the node structure differs from the one BTreeI computes for the same history (event %s)" %
                    ("multiset" if multi else "set", ls, is_, e.get("after", e.get("op")), e.get("e")))
        jobs.append((gf, classify_i))
    import concurrent.futures as cf
    with cf.ThreadPoolExecutor(max_workers=len(jobs) or 1) as pool:
        futs = [pool.submit(validate_traces, ctx, SD, "Trace_BTreeI", "Trace_BTreeI.cfg", gf, cl, 4, 2, 3000, "reset", None, (SD, "Trace_BTreeShape", "Trace_BTreeShape.cfg")) for gf, cl in jobs]
        for f in futs:
            f.result()
    ctx.assumptions += ["node storage is observed through the Allocator template argument (a counting allocator that poisons released blocks) and the TLX_BTREE_FRIENDS seam",
                        "element life-cycle: every slot of a live node holds exactly one live element instance (nodes construct all slots); AddressSanitizer build is the monitor for accesses to released storage"]
    lap("Trace_BTreeI validation")
