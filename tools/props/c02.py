"""C02 -- B+ tree invariants and exact allocation.  spec/btree/{Trace_BTreeShape,Gen_Ordered,OrderedA}.tla"""
import json
import os
import random
from vlib import *
from props.btree_common import *


def run(ctx):
    quick = ctx.tier == "quick"
    rng = random.Random(ctx.seed)
    ctx.cov["rule"] = ("cases = (history, flavour, configuration) as for C01 (TLC transition cover, TLC fill / drain walks, seeded long histories; 4 flavours x 10 configurations with leaf "
                       "and inner capacities 4..16 chosen independently, int and tracked heap-owning elements); after every mutating call on every configuration the driver reads the "
                       "tree through the btree_friend seam and logs leaf depths, fill of every node, separator / max-below / min-right triples, both leaf-chain walks, stats vs. counted "
                       "structure, the library's own verify() verdict, live allocator blocks and live element instances inside node storage; node allocations and releases are events "
                       "of their own; non-trivial = history with at least 2 calls")
    tlc_mc(ctx, SD, "NodesA", "mc_nodes.cfg", workers=4, coverage=False, timeout=600,
           cfg_text="CONSTANT MaxId = %d\nSPECIFICATION NSpec\nINVARIANTS ReturnedAtMostOnce NoDangling\nCHECK_DEADLOCK FALSE\n" % (5 if quick else 7))
    lines, header = histories(ctx, rng, quick)
    for ln in lines:
        ctx.count_case(ln, nontrivial=len(ln.split()) >= 5)
    exe = build_driver(ctx)
    tr = ctx.path("bts.ndjson")
    run_driver_sharded(ctx, exe, lines, tr, what="drv_btree", extra_args=["1", "0123", "0123456789"], header="P")
    exe_a = build_driver(ctx, asan=True)
    sub = rng.sample(lines, max(1, len(lines) // (4 if quick else 1)))
    run_driver_sharded(ctx, exe_a, sub, ctx.path("bts_asan.ndjson"), what="drv_btree(asan)", extra_args=["1", "0123", "0123456789"], header="P",
                       env={"ASAN_OPTIONS": "detect_leaks=1"})
    if not (os.path.exists(tr) and os.path.getsize(tr)):
        return
    txt = read_text(tr)
    shapes = [x for x in txt.split("\n") if x.startswith('{"e":"shape"')]
    ctx.cov["shape_events"] = len(shapes)
    depth = {}
    branch = {"max_depth": 0, "root_leaf": 0, "root_inner": 0}
    for x in shapes[:: max(1, len(shapes) // 20000)]:
        e = jl(x)
        d = max(e["depths"]) if e.get("depths") else -1
        depth[d] = depth.get(d, 0) + 1
    ctx.cov["tree_depth_histogram_sampled"] = {str(k): v for k, v in sorted(depth.items())}
    mid = [x for x in shapes if len(x) < 1200 and '"depths":[1' in x]
    if mid:
        ctx.sample({"recorded_shape": jl(mid[len(mid) // 2])})

    def classify(ex, at):
        e = jl(ex[min(at, len(ex) - 1)])
        cfg = jl(ex[0]) if ex and ex[0].startswith('{"e":"reset"') else {}
        fl = FLAVOURS[cfg.get("flavour", 0)]
        where = "btree_%s (leaf %s / inner %s slots, %s elements)" % (fl, cfg.get("ls"), cfg.get("is"), "tracked" if cfg.get("tracked") else "int")
        k = e.get("e")
        if k == "shape":
            why = []
            if not e.get("verify"): why.append("verify() fails: %s" % e.get("why", ""))
            if e.get("stats") != e.get("counted"): why.append("stats %s != structure %s" % (e.get("stats"), e.get("counted")))
            if e.get("alloc_err") or e.get("ledger_err"): why.append("allocator / element ledger errors")
            return ("btree/shape/%s" % fl, "%s after %s: the tree violates its invariants (%s)" % (where, e.get("after"), "; ".join(why) or "balance / fill / separators / leaf chain / ownership"))
        if k in ("alloc", "free"):
            return ("btree/alloc/%s" % fl, "%s: node %s event that the allocator state machine does not allow (double free / foreign pointer / reuse)" % (where, k))
        if k == "end":
            return ("btree/leak/%s" % fl, "%s: after destruction of both containers %s node blocks and %s element instances are still live (errors: alloc %s, elements %s)" %
                    (where, e.get("alloc_live"), e.get("elems_live"), e.get("alloc_err"), e.get("ledger_err")))
        return ("btree/crash/%s" % fl, "%s: execution ended abnormally: %s" % (where, str(e)[:120]))
    validate_traces(ctx, SD, "Trace_BTreeShape", "Trace_BTreeShape.cfg", tr, classify, shards=NCPU, max_rejects=8, timeout=3000)
    if not ctx.violations and (not depth or max(depth) < 2):
        raise InternalError("vacuity guard: no recorded tree reached three levels")
    ctx.assumptions += ["node storage is observed through the Allocator template argument (a counting allocator that poisons released blocks) and the TLX_BTREE_FRIENDS seam",
                        "element life-cycle: every slot of a live node holds exactly one live element instance (nodes construct all slots); AddressSanitizer build is the monitor for accesses to released storage"]
