"""C12 -- CountingPtr.  spec/countingptr/{CPtrA,Gen_CPtr,Trace_CPtr,CPtrConc,Gen_CPtrConc,Trace_CPtrConc}.tla"""
import json
import os
import random
from vlib import *

SD = os.path.join(SPEC, "countingptr")
# several C++ forms per abstract operation: 9 = make_counting, 10 = assignment of nullptr, 11 = CountingPtr(b.get()) (raw pointer to a managed object), 12 = *a = *b
CODE = {"new": (0, 9), "reset_handle": (1, 10), "unify": (2,), "copy_assign": (3, 11), "move_assign": (4,), "copy_construct": (5,), "move_construct": (6,), "swap": (7, 8),
        "assign_object": (12,)}
VS = os.path.join(HARNESS, "vsched", "vsched.cpp")
SHIM = ["-include", "vsched/vsched.hpp"]


def consts(d):
    return "CONSTANTS\n" + "\n".join("  %s = %s" % kv for kv in d.items()) + "\n"


def seq_line(ops, rng, deleter):
    return "%d %d %s" % (deleter, len(ops), " ".join("%d %d %d" % (rng.choice(CODE[o["o"]]), o["a"], o["b"]) for o in ops))


def random_seq_ops(rng, n):
    """legality model: only the static-type rule and the object-id bound matter"""
    ptr = {h: 0 for h in range(1, 6)}
    ops = []
    while len(ops) < n:
        o = rng.choice(["new"] * 3 + ["reset_handle", "unify", "copy_assign", "copy_assign", "move_assign", "move_assign", "copy_construct", "move_construct", "swap", "assign_object"])
        a, b = rng.randint(1, 5), rng.randint(1, 5)
        conv = (b >= 4) or (a <= 3)
        live = set(ptr.values()) - {0}
        if o in ("new", "unify") and len(live) >= 5:
            continue
        if o == "new":
            fid = min(i for i in range(1, 7) if i not in live); ptr[a] = fid; b = 0
        elif o == "reset_handle":
            ptr[a] = 0; b = 0
        elif o == "unify":
            b = 0
            if ptr[a] and list(ptr.values()).count(ptr[a]) > 1:
                ptr[a] = min(i for i in range(1, 7) if i not in live)
        elif o == "copy_assign":
            if not conv: continue
            ptr[a] = ptr[b]
        elif o == "move_assign":
            if not conv: continue
            if ptr[a] != ptr[b]: ptr[a], ptr[b] = ptr[b], 0
        elif o == "copy_construct":
            if not conv or a == b: continue
            ptr[a] = ptr[b]
        elif o == "move_construct":
            if not conv or a == b: continue
            ptr[a], ptr[b] = ptr[b], 0
        elif o == "assign_object":
            if not conv or not ptr[a] or not ptr[b]: continue
        elif o == "swap":
            if (a <= 3) != (b <= 3): continue
            ptr[a], ptr[b] = ptr[b], ptr[a]
        ops.append({"o": o, "a": a, "b": b})
    return ops


def conc_line(progs, strat, seed, order):
    code = {"copy": "0", "drop": "1", "unify_drop": "2"}
    return "%d  %s  %d %d  %d %s" % (len(progs), "  ".join("%d %s" % (len(p), " ".join(code[x] for x in p)) for p in progs),
                                     strat, seed, len(order), " ".join(map(str, order)))


def random_prog(rng, maxlen):
    p, h = [], 1
    while True:
        if h == 0:
            return p
        if len(p) + h >= maxlen or rng.random() < 0.5:
            p.append("drop"); h -= 1
        else:
            p.append("copy"); h += 1


def run(ctx):
    quick = ctx.tier == "quick"
    rng = random.Random(ctx.seed)
    ctx.cov["rule"] = ("sequential: tours covering every transition of CPtrA's state graph (5 handle variables incl. Derived->Base conversions) + seeded "
                       "histories, each under the default and a custom deleter; concurrent: every interleaving of the counter operations of CPtrConc for "
                       "2-3 threads x programs of <= 3 operations (enumerated by TLC and forced onto the code through the scheduler shim), plus PCT / "
                       "random schedules of longer programs; non-trivial = >= 2 operations; distinct by content")
    # ---- sequential half
    tlc_mc(ctx, SD, "CPtrA", "mc_cptr.cfg", workers=4, require_actions=("New", "CopyAssign", "MoveAssign", "CopyConstruct", "MoveConstruct", "Reset", "Swap", "Unify", "AssignObject"))
    gen = (consts({"BaseH": "{1, 2}" if quick else "{1, 2, 3}", "DerivedH": "{4}" if quick else "{4, 5}", "MaxObj": 3}) +
           "SPECIFICATION GenSpec\nVIEW View\nACTION_CONSTRAINT Edge\nCHECK_DEADLOCK FALSE\n")
    edges, st = tlc_gen(ctx, SD, "Gen_CPtr", "gen_cptr.cfg", workers=1, cfg_text=gen, timeout=1800, xmx="8g")
    tours, ne, nn = edge_tours(edges, maxlen=60)
    st.update({"edges": ne, "graph_states": nn, "tours": len(tours)})
    ctx.cov["model_runs"].append(st)
    lines = []
    for i, t in enumerate(tours):
        lines.append(seq_line(t, rng, i % 2))
    for i in range(200 if quick else 5000):
        lines.append(seq_line(random_seq_ops(rng, rng.randint(5, 60)), rng, i % 2))
    for ln in lines:
        ctx.count_case(ln, nontrivial=int(ln.split()[1]) >= 2)
    ctx.sample({"sequential_tour(ops from TLC)": tours[len(tours) // 2][:10]})
    scr = ctx.path("seq_scripts.txt")
    open(scr, "w").write("\n".join(lines) + "\n")
    src = os.path.join(HARNESS, "drv_cptr.cpp")
    exe = build(ctx, "drv_cptr", [src])
    tr = ctx.path("seq.ndjson")
    run_driver_checked(ctx, exe, [scr, tr], what="drv_cptr", replay_src=scr)
    exe_a = build(ctx, "drv_cptr_asan", [src], flags=["-fsanitize=address,undefined", "-fno-sanitize-recover=undefined"])
    run_driver_checked(ctx, exe_a, [scr, ctx.path("seq_asan.ndjson")], what="drv_cptr(asan)", replay_src=scr, timeout=1800)

    def classify(ex, at):
        e = json.loads(ex[min(at, len(ex) - 1)])
        return ("seq/%s" % e.get("e"), "CountingPtr: after %s the handles' targets, use counts or the set of live objects differ from the specification" % e.get("e"))
    if os.path.exists(tr) and os.path.getsize(tr):
        validate_traces(ctx, SD, "Trace_CPtr", "Trace_CPtr.cfg", tr, classify)
    # ---- concurrent half
    body = "INVARIANTS CountMatches AliveWhileHeld DeletedOnce NoTouchAfterDelete DestroyedAtEnd\nPROPERTY EventuallyDone\nCHECK_DEADLOCK FALSE\n"
    tlc_mc(ctx, SD, "CPtrConc", "mc_conc_a.cfg", workers=4, cfg_text=consts({"Threads": "{0,1,2}", "MaxLen": 3 if quick else 5}) + "SPECIFICATION Spec\n" + body,
           require_actions=("Inc", "Dec", "Delete"), timeout=1800)
    if not quick:
        tlc_mc(ctx, SD, "CPtrConc", "mc_conc_b.cfg", workers=8, cfg_text=consts({"Threads": "{0,1,2,3}", "MaxLen": 3}) + "SPECIFICATION Spec\n" + body, timeout=1800)
    gh, st = tlc_gen(ctx, SD, "Gen_CPtrConc", "gen_conc_run.cfg", timeout=1800,
                     cfg_text=consts({"Threads": "{0,1,2}", "MaxLen": 3}) + "SPECIFICATION GenSpec\nINVARIANT Emit\nCHECK_DEADLOCK FALSE\n")
    ctx.cov["model_runs"].append(st)
    gh2, st = tlc_gen(ctx, SD, "Gen_CPtrConc", "gen_conc_run2.cfg", timeout=1800,
                      cfg_text=consts({"Threads": "{0,1}", "MaxLen": 5}) + "SPECIFICATION GenSpec\nINVARIANT Emit\nCHECK_DEADLOCK FALSE\n")
    ctx.cov["model_runs"].append(st)
    clines = [conc_line(h["prog"], 4, 1, h["order"]) for h in gh + gh2]
    for i in range(150 if quick else 3000):
        n = rng.choice((2, 3, 4))
        progs = [random_prog(rng, 7) for _ in range(n)]
        if i % 3 == 2:          # a third of the seeded scenarios release some handles through unify() (clone if shared, then let go)
            progs = [["unify_drop" if (x == "drop" and rng.random() < 0.5) else x for x in p] for p in progs]
        clines.append(conc_line(progs, rng.choice((0, 1, 1, 3)), rng.randrange(1 << 30), []))
    # the last handles go away at the same time, some of them through unify(): one thread sees "shared", the other one drops, the first one drops to zero
    for i in range(80 if quick else 1500):
        n = rng.choice((2, 2, 3))
        progs = [[rng.choice(("unify_drop", "unify_drop", "drop"))] if rng.random() < 0.7 else ["copy", "unify_drop", rng.choice(("drop", "unify_drop"))] for _ in range(n)]
        clines.append(conc_line(progs, rng.choice((0, 1, 1, 1)), rng.randrange(1 << 30), []))
    for ln in clines:
        ctx.count_case(ln, nontrivial=True)
    ctx.sample({"interleaving_from_TLC": gh[len(gh) // 2]})
    cscr = ctx.path("conc_scripts.txt")
    open(cscr, "w").write("\n".join(clines) + "\n")
    csrc = os.path.join(HARNESS, "drv_cptr_conc.cpp")
    cexe = build(ctx, "drv_cptr_conc", [csrc, VS], flags=SHIM)
    ctr = ctx.path("conc.ndjson")
    run_driver_checked(ctx, cexe, [cscr, ctr], what="drv_cptr_conc", replay_src=cscr, timeout=1800)
    cexe_a = build(ctx, "drv_cptr_conc_asan", [csrc, VS], flags=SHIM + ["-fsanitize=address,undefined", "-fno-sanitize-recover=undefined"])
    run_driver_checked(ctx, cexe_a, [cscr, ctx.path("conc_asan.ndjson")], what="drv_cptr_conc(asan)", replay_src=cscr, timeout=3000,
                       env={"ASAN_OPTIONS": "detect_leaks=0"})
    if os.path.exists(ctr) and os.path.getsize(ctr):
        tl = read_text(ctr).split("\n")
        div = sum(1 for x in tl if '"diverged":true' in x)
        ctx.cov["guided_schedules"] = len(gh) + len(gh2)
        ctx.cov["guided_schedules_diverged"] = div
        if div:
            ctx.notes.append("DRIFT: %d guided executions could not follow the TLC interleaving exactly (verdict unaffected)" % div)
        ctx.sample({"recorded_concurrent_trace": [json.loads(x) for x in tl[:6]]})

        def classify2(ex, at):
            e = json.loads(ex[min(at, len(ex) - 1)])
            return ("conc/%s" % e.get("e"), "concurrent CountingPtr: operation %s on the reference counter is not a step of CPtrConc (count, deletion or termination wrong)" % e.get("e"))
        validate_traces(ctx, SD, "Trace_CPtrConc", "Trace_CPtrConc.cfg", ctr, classify2)
    ctx.assumptions += ["the scheduler shim executes atomics sequentially consistently (weak-memory reorderings are out of reach)",
                        "threads only copy from / release their own private handles (the usage the property describes)",
                        "object ids are recycled (smallest id not alive) identically in CPtrA and in the driver"]
