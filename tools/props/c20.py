"""C20 -- integer math helpers and Aggregate.  spec/mathbits/{BitsA,MC_Bits,Trace_Bits}.tla"""
import itertools
import json
import os
import random
from vlib import *

SD = os.path.join(SPEC, "mathbits")


def wline(W, v):
    n = 1 if W <= 16 else W // 16
    return "W %d %s" % (W, " ".join(str((v >> (16 * i)) & 0xFFFF) for i in range(n)))


def structured(W, rng, maxbits, nrandom):
    vals = {0, (1 << W) - 1}
    pos = range(W)
    for k in range(1, maxbits + 1):
        for c in itertools.combinations(pos, k):
            vals.add(sum(1 << i for i in c))
    for lo in range(W):
        for hi in range(lo, W):
            if (hi - lo) % 3 == 0 or hi == W - 1 or lo == 0:
                vals.add(((1 << (hi - lo + 1)) - 1) << lo)
    for i in range(W):
        for d in (-1, 1):
            vals.add(((1 << i) + d) % (1 << W))
    vals |= {((1 << W) - 1) ^ v for v in list(vals)}
    for _ in range(nrandom):
        vals.add(rng.getrandbits(W))
    return sorted(vals)


def run(ctx):
    quick = ctx.tier == "quick"
    rng = random.Random(ctx.seed)
    ctx.cov["rule"] = ("cases = words: every 8-bit value, every 16-bit value (thorough; quick: 4000 seeded + structured ones), structured 32- and 64-bit values (all "
                       "patterns of <= 2 (quick) / 3 (thorough) set bits, runs of ones, neighbours of powers of two, complements, extremes, seeded random); each word "
                       "is given to every implementation (intrinsic-backed, *_template, signed overload) of every helper, to div_ceil / round_up with 7 small "
                       "divisors and abs_diff with 6 partners; plus all pairs of small signed integers and Aggregate pairs; non-trivial = word # 0")
    tlc_mc(ctx, SD, "MC_Bits", "mc_bits_run.cfg", workers=8, coverage=False, timeout=3000,
           cfg_text="CONSTANT Quick = %s\nSPECIFICATION Spec\nINVARIANT Laws\nCHECK_DEADLOCK FALSE\n" % ("TRUE" if quick else "FALSE"))
    lines = []
    for v in range(256):
        lines.append(wline(8, v))
    if quick:
        v16 = set(structured(16, rng, 2, 0)) | {rng.getrandbits(16) for _ in range(4000)}
    else:
        v16 = range(65536)
    for v in sorted(v16):
        lines.append(wline(16, v))
    for W in (32, 64):
        for v in structured(W, rng, 2 if quick else 3, 300 if quick else 5000):
            lines.append(wline(W, v))
    for a in range(-6, 7):
        for b in range(-6, 7):
            lines.append("S %d %d" % (a, b))
    # popcount over a byte buffer: every length 0..19 (all residues of the 8- / 4- / 1-byte loops), high and low bytes in every position class
    for n in range(0, 20):
        for pat in ((0xFF,), (0x80,), (0x11,), (0x7F, 0x80), (0x01, 0xFE, 0x80)):
            lines.append("B %d %s" % (n, " ".join(str(pat[i % len(pat)]) for i in range(n))))
    for i in range(100 if quick else 3000):
        n = rng.randint(0, 40)
        lines.append("B %d %s" % (n, " ".join(str(rng.choice((0, 1, 0x7F, 0x80, 0xFF, rng.randrange(256)))) for _ in range(n))))
    # Aggregate<T> for T in long long / int / double / float / unsigned; values of both signs (all-negative, all-zero and mixed lists included)
    small = [list(c) for n in range(0, 3) for c in itertools.product((0, 1, 5), repeat=n)]
    smalln = [list(c) for n in range(0, 3) for c in itertools.product((-7, -1, 0, 3), repeat=n)]
    for ty in "qidfu":
        for xs in (small if ty == "u" else smalln):
            for ys in (small if ty in "uq" else smalln):
                lines.append("A %s %d %s %d %s" % (ty, len(xs), " ".join(map(str, xs)), len(ys), " ".join(map(str, ys))))
    for i in range(300 if quick else 6000):
        ty = "qidfu"[i % 5]
        lo, hi = rng.choice([(0, 20), (-20, 20), (-20, -1), (-20, 0)]) if ty != "u" else (0, 20)
        xs = [rng.randint(lo, hi) for _ in range(rng.randint(0, 6))]
        ys = [rng.randint(lo, hi) for _ in range(rng.randint(0, 6))]
        lines.append("A %s %d %s %d %s" % (ty, len(xs), " ".join(map(str, xs)), len(ys), " ".join(map(str, ys))))
    for ln in lines:
        ctx.count_case(ln, nontrivial=not ln.endswith(" 0"))
    ctx.cov["exhaustive_widths"] = [8] if quick else [8, 16]
    scr = ctx.path("math_scripts.txt")
    open(scr, "w").write("\n".join(lines) + "\n")
    src = os.path.join(HARNESS, "drv_math.cpp")
    exe = build(ctx, "drv_math", [src])
    tr = ctx.path("math.ndjson")
    run_driver_checked(ctx, exe, [scr, tr], what="drv_math", replay_src=scr)
    exe_u = build(ctx, "drv_math_ubsan", [src], flags=["-fsanitize=undefined", "-fno-sanitize=alignment", "-fno-sanitize-recover=undefined"])
    # (popcount(const void*, size) reads 8- / 4-byte words at whatever alignment the caller's buffer has: an out-of-scope observation like the unaligned loads of
    # siphash_plain, not part of C20, which is about values; the alignment check is therefore off in the monitor build)
    run_driver_checked(ctx, exe_u, [scr, ctx.path("math_ubsan.ndjson")], what="drv_math(ubsan)", replay_src=scr, timeout=3000)
    if not (os.path.exists(tr) and os.path.getsize(tr)):
        return
    tl = [x for x in read_text(tr).split("\n") if x and '"e":"reset"' not in x]
    ctx.sample({"recorded_word_event": json.loads(tl[300])})
    files = []
    KINDS = ("word", "arith", "small", "agg", "popbuf")
    unknown = [x[:80] for x in tl if not any(('"e":"%s"' % k) in x for k in KINDS)]
    if unknown:
        raise InternalError("recorded events of a kind that no validation file takes: %s" % unknown[:2])
    for kind in KINDS:       # one file per event kind: every class of helper gets its own rejection budget
        evs = [x for x in tl if ('"e":"%s"' % kind) in x]
        per = ctx.path("math_%s.ndjson" % kind)
        with open(per, "w") as f:
            for i in range(0, len(evs), 50):
                f.write('{"e":"reset"}\n' + "\n".join(evs[i:i + 50]) + "\n")
        files.append(per)

    def classify(ex, at):
        e = json.loads(ex[min(at, len(ex) - 1)])
        if e.get("e") in ("word", "arith"):
            return ("math/%s/w%s" % (e.get("e"), e.get("w")), "an integer helper returned a value different from its definition for the %s-bit word with limbs %s" % (e.get("w"), e.get("v")))
        if e.get("e") == "agg":
            return ("math/aggregate", "Aggregate combination of %s and %s disagrees with the exact count / min / max / sum / variance" % (e.get("xs"), e.get("ys")))
        if e.get("e") == "popbuf":
            return ("math/popcount-buffer", "popcount(data, size) of the bytes %s is not the number of one bits (results for buffer alignments 0..7: %s)" % (e.get("bytes"), e.get("res")))
        return ("math/%s" % e.get("e"), "helper on small integers a=%s b=%s disagrees with its definition" % (e.get("a"), e.get("b")))
    for per in files:
        validate_traces(ctx, SD, "Trace_Bits", "Trace_Bits.cfg", per, classify, shards=NCPU if "word" in per or "arith" in per else 4, max_rejects=6)
    ctx.assumptions += ["results that are not representable in the result type are not constrained (round_up_to_power_of_two above the top bit, round_up(n, k) overflow)",
                        "round_up/round_down_to_power_of_two(0) and signed overloads on negative values are not constrained",
                        "32/64-bit domains are covered by structured and seeded values only; Aggregate mean/variance are compared through exact integer identities "
                        "(sum = n*mean, n(n-1)var = n*sum(x^2) - sum(x)^2) after rounding to the nearest integer"]
