"""C10 -- ThreadPool.  spec/threadpool/{ThreadPoolI,MC_TP,Gen_TP,MCG_TP,Trace_TP,Trace_TPA}.tla"""
import json
import os
import random
from collections import defaultdict
from vlib import *

SD = os.path.join(SPEC, "threadpool")
VS = os.path.join(HARNESS, "vsched", "vsched.cpp")
SHIM = ["-include", "vsched/vsched.hpp"]
OPS = {"enq": 0, "lue": 1, "lut": 2, "term": 3}

# scenario name -> (P, client programs name, children name, terminators) ; python mirrors of the TLA+ definitions in MC_TP.tla
CHILD = {"NoKids": {1: [], 2: [], 3: []}, "Chain": {1: [2], 2: [], 3: []}, "Fanout": {1: [2, 3], 2: [], 3: []}, "Deep": {1: [2], 2: [3], 3: []}}
PROGS = {
    "S_Single": [[("enq", 1), ("enq", 2), ("lue",), ("enq", 3), ("lue",)]],
    "S_TwoWaiters": [[("enq", 1), ("lue",)], [("enq", 3), ("lue",)]],
    "S_PureWaiters": [[("enq", 1)], [("lue",)], [("lue",)]],
    "S_OneClient": [[("enq", 1), ("lue",)]],
    "S_JobTerm": [[("enq", 1), ("lut",)], [("lut",)]],
    "S_ClientTerm": [[("enq", 1), ("lut",)], [("term",)]],
    "S_TermOnly": [[("lut",)], [("lut",)], [("term",)]],
}
SCEN = [(1, "S_Single", "NoKids", []), (2, "S_Single", "NoKids", []), (2, "S_TwoWaiters", "Chain", []), (1, "S_TwoWaiters", "Chain", []),
        (2, "S_PureWaiters", "Fanout", []), (2, "S_PureWaiters", "Deep", []), (3, "S_OneClient", "Fanout", []),
        (2, "S_JobTerm", "Chain", [2]), (2, "S_ClientTerm", "Chain", []), (2, "S_TermOnly", "NoKids", [])]


def cfg(p, progs, children, term, fin_all, spec):
    return ("CONSTANTS P = %d\n ClientProgs <- %s\n Jobs <- J3\n Children <- %s\n Terminators = {%s}\n FinNotifyAll = %s\n%s" %
            (p, progs, children, ",".join(map(str, term)), "TRUE" if fin_all else "FALSE", spec))


def line(p, children, term, progs, strat, seed, order, waiters):
    nj = len(children)
    ch = "  ".join("%d %s" % (len(children[j]), " ".join(map(str, children[j]))) for j in range(1, nj + 1))
    pr = "  ".join("%d %s" % (len(c), " ".join("%d %d" % (OPS[x[0]], x[1] if len(x) > 1 else 0) for x in c)) for c in progs)
    return "%d %d  %s  %d %s  %d  %s  %d %d  %d %s  %d %s" % (p, nj, ch, len(term), " ".join(map(str, term)), len(progs), pr, strat, seed,
                                                          len(order), " ".join(map(str, order)), len(waiters), " ".join(map(str, waiters)))


def random_scenario(rng):
    """random job forest + clients; loop_until_empty and terminate() are not mixed (see DESIGN C10)"""
    nj = rng.randint(1, 6)
    parent = {j: (rng.choice([0] + list(range(1, j))) if j > 1 else 0) for j in range(1, nj + 1)}
    children = {j: [c for c in range(1, nj + 1) if parent[c] == j] for j in range(1, nj + 1)}
    roots = [j for j in range(1, nj + 1) if parent[j] == 0]
    p = rng.choice((1, 2, 3, 4))
    nc = rng.choice((1, 2, 3))
    progs = [[] for _ in range(nc)]
    with_term = rng.random() < 0.3
    for r in roots:
        progs[rng.randrange(nc)].append(("enq", r))
    term = []
    if with_term:
        if rng.random() < 0.5:
            term = [rng.randint(1, nj)]
        else:
            progs[rng.randrange(nc)].append(("term",))
        for c in progs:
            if rng.random() < 0.7 or not c:
                if ("term",) not in c:
                    c.append(("lut",))
        # guarantee termination really happens: a job terminator must be reachable -> always is (every job is enqueued)
    else:
        for c in progs:
            pos = [i for i in range(len(c) + 1)]
            for _ in range(rng.choice((1, 1, 2))):
                c.insert(rng.choice(pos), ("lue",))
    progs = [c for c in progs if c] or [[("lue",)]]
    return p, children, term, progs


def run(ctx):
    quick = ctx.tier == "quick"
    rng = random.Random(ctx.seed)
    ctx.cov["rule"] = ("cases = (scenario, schedule): scenario = pool size, job graph (jobs enqueueing jobs / terminating the pool), client programs "
                       "(enqueue, loop_until_empty, loop_until_terminate, terminate); schedule = a complete behaviour of ThreadPoolI sampled by TLC and "
                       "forced onto the real pool (GUIDED) or a PCT / random schedule of the shim; distinct by content; every case is non-trivial (>= 3 threads)")
    inv = "SPECIFICATION Spec\nINVARIANTS NoJobTwice PropertyChecks CountersOK MutexOK\nPROPERTY Terminates\n"
    scen = SCEN if not quick else [SCEN[1], SCEN[2], SCEN[4], SCEN[7], SCEN[8]]
    for p, pr, ch, tm in scen:
        tlc_mc(ctx, SD, "MC_TP", "mc_%s_%s_%d.cfg" % (pr, ch, p), workers=8, cfg_text=cfg(p, pr, ch, tm, True, inv), timeout=3000, xmx="12g")
    neg = tlc_mc(ctx, SD, "MC_TP", "mc_neg.cfg", workers=4, expect_ok=False, coverage=False, cfg_text=cfg(2, "S_TwoWaiters", "Chain", [], False, inv))
    if neg["ok"] or "Deadlock reached" not in neg["out"]:
        raise InternalError("ThreadPoolI with the original notify_one on cv_finished_ was not rejected (expected a deadlock: lost wake-up)")
    ctx.notes.append("self-test: ThreadPoolI with FinNotifyAll=FALSE (pre-fix) deadlocks with two waiters, as expected")
    # behaviours
    gen_tail = "SPECIFICATION GenSpec\nINVARIANT Emit\nCHECK_DEADLOCK FALSE\n"
    lines = []
    nguided = 0
    for p, pr, ch, tm in scen:
        hs, st = tlc_gen(ctx, SD, "MCG_TP", "gen_%s_%s_%d.cfg" % (pr, ch, p), simulate=150 if quick else 2500, depth=300, seed=ctx.seed,
                         cfg_text=cfg(p, pr, ch, tm, True, gen_tail), timeout=3000)
        ctx.cov["model_runs"].append(st)
        nguided += len(hs)
        for h in hs:
            lines.append(line(p, CHILD[ch], tm, PROGS[pr], 4, 1, h["order"], h["waiters"]))
        for i in range(30 if quick else 400):
            lines.append(line(p, CHILD[ch], tm, PROGS[pr], rng.choice((0, 1, 1, 3)), rng.randrange(1 << 30), [], []))
        if hs:
            ctx.sample({"behaviour_from_TLC(%s,%s,P=%d)" % (pr, ch, p): {"order": hs[0]["order"][:40], "waiters": hs[0]["waiters"]}}, limit=2)
    for i in range(150 if quick else 3000):
        p, children, term, progs = random_scenario(rng)
        for k in range(2):
            lines.append(line(p, children, term, progs, rng.choice((0, 1, 1)), rng.randrange(1 << 30), [], []))
    # destruction races: tiny scenarios in which the pool is destroyed while workers are still on their way into (or back into) their wait; a lost wake-up of
    # cv_jobs_ in ~ThreadPool() needs the destructor's store and notification to fall between one worker's test of its predicate and its wait
    # (round-5 seeded change: ~2 % of the random / PCT schedules of such a scenario show it, 0.3 % of the general ones)
    for i in range(600 if quick else 6000):
        kind = i % 4
        progs = [[[("enq", 1)]], [[("enq", 1), ("lue",)]], [[("lue",)]], [[("enq", 1), ("enq", 2)]]][kind]
        lines.append(line(rng.choice((1, 2, 3, 4)), {1: [], 2: []} if kind == 3 else {1: []}, [], progs, 1 if kind in (0, 3) else 0, rng.randrange(1 << 30), [], []))
    for ln in lines:
        ctx.count_case(ln)
    scr = ctx.path("tp_scripts.txt")
    open(scr, "w").write("\n".join(lines) + "\n")
    src = os.path.join(HARNESS, "drv_tp.cpp")
    tpc = os.path.join(REPO, "tlx/thread_pool.cpp")
    exe = build(ctx, "drv_tp", [src, tpc, VS], flags=SHIM)
    tr = ctx.path("tp.ndjson")
    run_driver_checked(ctx, exe, [scr, tr], what="drv_tp", replay_src=scr, timeout=3000)
    if not quick:
        exe_a = build(ctx, "drv_tp_asan", [src, tpc, VS], flags=SHIM + ["-fsanitize=address,undefined", "-fno-sanitize-recover=undefined"])
        run_driver_checked(ctx, exe_a, [scr, ctx.path("tp_asan.ndjson")], what="drv_tp(asan)", replay_src=scr, timeout=6000, env={"ASAN_OPTIONS": "detect_leaks=0"})
    if os.path.exists(tr) and os.path.getsize(tr):
        tl = [x for x in read_text(tr).split("\n") if x]
        div = sum(1 for x in tl if '"diverged":true' in x)
        ctx.cov["guided_schedules"] = nguided
        ctx.cov["guided_schedules_diverged"] = div
        if div:
            ctx.notes.append("DRIFT: %d guided executions did not follow the TLC behaviour exactly (verdict unaffected)" % div)
        ctx.sample({"recorded_trace": [json.loads(x) for x in tl[:10]]})
        groups = defaultdict(list)
        for ex in split_executions(tl):
            r = json.loads(ex[0])
            key = json.dumps([r.get("p"), r.get("children"), r.get("terminators"), r.get("progs"), r.get("crashed", False)])
            groups[key].append(ex)

        def classify(ex, at):
            e = json.loads(ex[min(at, len(ex) - 1)])
            return ("threadpool/%s" % e.get("e"), "ThreadPool: event %s contradicts the specification (job run twice / loop_until_empty returned early / done() wrong / lost wake-up or deadlock)" % e.get("e"))
        n = 0
        fixed_keys = set(json.dumps([p, [CHILD[ch][j] for j in (1, 2, 3)], tm, [[list(x) for x in c] for c in PROGS[pr]], False]) for p, pr, ch, tm in scen)
        rest = []
        for key, exs in sorted(groups.items()):
            if json.loads(key)[4]:
                ctx.violation("crash/threadpool-execution", "a ThreadPool execution crashed or was killed: %s" % exs[0][0][:200])
                continue
            if key not in fixed_keys and quick:
                rest += exs          # seeded scenarios: judged by the property-level spec only in the quick tier
                continue
            n += 1
            f = ctx.path("tp_group_%d.ndjson" % n)
            open(f, "w").write("\n".join("\n".join(ex) for ex in exs) + "\n")
            validate_traces(ctx, SD, "Trace_TP", "Trace_TP.cfg", f, classify, shards=min(4, max(1, len(exs) // 200)),
                            property_level=(SD, "Trace_TPA", "Trace_TPA.cfg"))
        if rest:
            f = ctx.path("tp_rest.ndjson")
            open(f, "w").write("\n".join("\n".join(ex) for ex in rest) + "\n")
            validate_traces(ctx, SD, "Trace_TPA", "Trace_TPA.cfg", f, classify)
        ctx.cov["scenarios_validated"] = n
    ctx.assumptions += ["the scheduler shim executes the redirected primitives sequentially consistently; atomic loads are executed together with the thread's next counted operation",
                        "loop_until_empty is not combined with terminate(): a pool terminated with jobs still queued never becomes empty (documented predicate)",
                        "loop_until_terminate is only used in scenarios in which somebody terminates the pool",
                        "jobs do not throw"]
