"""C19 -- string codecs and helpers.  spec/strings/{StrA,MC_StrA,Trace_Str}.tla"""
import glob
import itertools
import json
import os
import random
from vlib import *

SD = os.path.join(SPEC, "strings")
A_S = (44, 32, 97, 66, 0, 200)        # ',', ' ', 'a', 'B', NUL, high byte
A_T = (44, 32, 97, 98)                # ',', ' ', 'a', 'b'
A_V = (44, 34, 92, 32, 97, 10)        # ',', '"', '\\', ' ', 'a', '\n'


def bl(s):
    return "%d %s" % (len(s), " ".join(map(str, s)))


def run(ctx):
    quick = ctx.tier == "quick"
    rng = random.Random(ctx.seed)
    ctx.cov["rule"] = ("cases: (i) pairs (s, t) of byte strings: every s up to length 3 over {',', ' ', 'a', 'B', NUL, 0xC8} x every t up to length 2 over {',', ' ', 'a', 'b'} "
                       "plus seeded longer strings (lengths 4..9 for the codecs: all residues mod 3, all line-break widths 0/4/8/76); each pair is given to every helper "
                       "and overload; (ii) vectors of up to 3 strings (length <= 2) over {',', '\"', '\\\\', ' ', 'a', newline} with glue ',' and ',;' for join/split and "
                       "join_quoted/split_quoted, plus single fields of length 3-4 over {',', '\"', '\\', 'a'} and seeded fields up to length 6 that include tab / CR / LF and the letters n, r, t; non-trivial = some string non-empty; distinct by content")
    tlc_mc(ctx, SD, "MC_StrA", "mc_stra_run.cfg", workers=8, coverage=False, timeout=3000,
           cfg_text="CONSTANTS Bytes = {44, 65, 97}\n MaxLen = %d\nSPECIFICATION Spec\nINVARIANT Laws\nCHECK_DEADLOCK FALSE\n" % (3 if quick else 4))
    lines = []
    ss = [list(c) for n in range(0, 4) for c in itertools.product(A_S, repeat=n)]
    ts = [list(c) for n in range(0, 3) for c in itertools.product(A_T, repeat=n)]
    for s in ss:
        for t in ts:
            lines.append("P %s %s" % (bl(s), bl(t)))
    for i in range(200 if quick else 20000):
        s = [rng.choice(A_S + (65, 122, 255, 1)) for _ in range(rng.randint(4, 9))]
        t = [rng.choice(A_T) for _ in range(rng.randint(0, 3))]
        if rng.random() < 0.5 and len(s) > 3:          # make the needle occur (overlapping occurrences included)
            t = s[1:1 + rng.randint(1, 2)]
            t = [c for c in t if c in A_T] or [97]
        lines.append("P %s %s" % (bl(s[:4] if len(t) > 0 and rng.random() < 0.5 else s), bl(t)))
    # every byte value 0..255 (tools/coverage.py: with the small alphabets parse_hexdump never saw most hex digits), and random byte strings
    for b in range(0, 256, 3):
        lines.append("P %s %s" % (bl([b, (b + 1) % 256, (b + 2) % 256]), bl([97])))
    for i in range(100 if quick else 5000):
        lines.append("P %s %s" % (bl([rng.randrange(256) for _ in range(rng.randint(0, 14))]), bl([rng.choice(A_T)])))
    fields = [list(c) for n in range(0, 3) for c in itertools.product(A_V, repeat=n)]
    vecs = [[]] + [[f] for f in fields] + [list(v) for v in itertools.product(fields[:: (3 if quick else 1)], repeat=2)]
    if not quick:
        small = [list(c) for n in range(0, 2) for c in itertools.product(A_V, repeat=n)]
        vecs += [list(v) for v in itertools.product(small, repeat=3)]
    else:
        vecs += [[rng.choice(fields) for _ in range(3)] for _ in range(300)]
    # longer fields for join_quoted / split_quoted: a quote or escape character in the middle of a field, before / after a separator,
    # and the characters with their own escape sequences (tab, CR, LF) next to the letters n, r, t (round-4 seeded change: a field that
    # needs quoting only because of a separator behind an embedded quote character was written unquoted)
    A_Q = (44, 34, 92, 97)
    f3 = [list(c) for n in (3, 4) for c in itertools.product(A_Q, repeat=n)]
    A_E = (44, 34, 92, 32, 97, 10, 9, 13, 110, 114, 116)
    fr = [[rng.choice(A_E) for _ in range(rng.randint(1, 6))] for _ in range(150 if quick else 4000)]
    vecs += [[f] for f in (rng.sample(f3, 120) if quick else f3)] + [[f] for f in fr]
    vecs += [[rng.choice(f3 + fr), rng.choice(fields + fr)] for _ in range(150 if quick else 4000)]
    vecs += [[rng.choice(fields), rng.choice(f3 + fr), rng.choice(fields)] for _ in range(100 if quick else 3000)]
    for v in vecs:
        for glue in ([44], [44, 59]):
            lines.append("V %d %s %s" % (len(v), " ".join(bl(f) for f in v), bl(glue)))
    for ln in lines:
        ctx.count_case(ln, nontrivial=len(ln.split()) > 4)
    scr = ctx.path("str_scripts.txt")
    open(scr, "w").write("\n".join(lines) + "\n")
    src = os.path.join(HARNESS, "drv_str.cpp")
    cpps = sorted(glob.glob(os.path.join(REPO, "tlx/string/*.cpp"))) + [os.path.join(REPO, "tlx/die/core.cpp")]
    exe = build(ctx, "drv_str", [src] + cpps)
    tr = ctx.path("str.ndjson")
    run_driver_checked(ctx, exe, [scr, tr], what="drv_str", replay_src=scr)
    exe_a = build(ctx, "drv_str_asan", [src] + cpps, flags=["-fsanitize=address,undefined", "-fno-sanitize-recover=undefined"])
    run_driver_checked(ctx, exe_a, [scr, ctx.path("str_asan.ndjson")], what="drv_str(asan)", replay_src=scr, timeout=3000)
    if not (os.path.exists(tr) and os.path.getsize(tr)):
        return
    tl = [x for x in read_text(tr).split("\n") if x and '"e":"reset"' not in x]
    ctx.sample({"recorded_vec_event": json.loads([x for x in tl if '"e":"vec"' in x][40])})
    pe = json.loads([x for x in tl if '"e":"str"' in x][100])
    ctx.sample({"recorded_str_event(excerpt)": {k: pe[k] for k in ("s", "t", "trim", "replace_all", "split_s", "compare_icase", "lev")}})
    files = []
    for kind in ("str", "vec"):
        evs = [x for x in tl if ('"e":"%s"' % kind) in x]
        per = ctx.path("str_%s.ndjson" % kind)
        with open(per, "w") as f:
            for i in range(0, len(evs), 25):
                f.write('{"e":"reset"}\n' + "\n".join(evs[i:i + 25]) + "\n")
        files.append(per)

    def classify(ex, at):
        e = json.loads(ex[min(at, len(ex) - 1)])
        if e.get("e") == "vec":
            return ("strings/vec", "join / split / join_quoted / split_quoted on parts=%s glue=%s disagree with their definition or do not round-trip" % (e.get("parts"), e.get("glue")))
        return ("strings/str", "a string helper returned something different from its definition for s=%s t=%s" % (e.get("s"), e.get("t")))
    for per in files:
        validate_traces(ctx, SD, "Trace_Str", "Trace_Str.cfg", per, classify, shards=NCPU, max_rejects=6)
    ctx.assumptions += ["replace_* only with a non-empty needle; split with an empty string separator follows the documented special case (one part per character)",
                        "case conversion / case-insensitive comparison are ASCII-only as documented; bytes >= 0x80 only take part in equality-insensitive helpers where "
                        "their order does not matter (compare_icase is exercised with bytes < 0x80 and 0xC8 only through equal prefixes)",
                        "the base64 / hex definitions in StrA.tla are a second encoder written from the RFC; TLC also checks their inverse laws on the bounded domain"]
