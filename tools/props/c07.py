"""C07 -- parallel multiway merge.  spec/mwmerge/{MergeA,Trace_Merge}.tla (shared with C05)"""
import itertools
import json
import os
import random
from vlib import *

SD = os.path.join(SPEC, "mwmerge")
VS = os.path.join(HARNESS, "vsched", "vsched.cpp")
SHIM = ["-include", "vsched/vsched.hpp"]


def sorted_seqs(keys, maxlen):
    out = [[]]
    for n in range(1, maxlen + 1):
        out += [list(c) for c in itertools.combinations_with_replacement(keys, n)]
    return out


def line(t, L, seed):
    return "%d %s %d %d" % (len(t), " ".join("%d %s" % (len(x), " ".join(map(str, x))) for x in t), L, seed)


def run(ctx):
    quick = ctx.tier == "quick"
    rng = random.Random(ctx.seed)
    ctx.cov["rule"] = ("cases = (tuple of sorted sequences incl. empty ones, length L, configuration): configuration = stable x {exact, sampling} x threads "
                       "in 1..32 (also more threads than elements) x oversampling {1,2,10} x 4 merge algorithms x entry point (base, front end forced parallel / "
                       "sequential, the *_sentinels front ends forced parallel / sequential) x shim schedule, 16 per tuple chosen by the seed; tuples: complete products over 2 keys (length <= 3, k <= 3, every L) and "
                       "seeded larger ones; non-trivial = total size >= 2; distinct by content")
    tlc_mc(ctx, SD, "MergeA", "mc_merge_run.cfg", workers=8, timeout=3000,
           cfg_text="CONSTANTS MaxK = 3\n MaxLen = %d\n Keys = {1,2}\nSPECIFICATION Spec\nINVARIANTS OutSorted SmallestTaken AdvanceExact StableOrder\nCHECK_DEADLOCK FALSE\n" % (2 if quick else 3))
    # PMergeI: parallel_multiway_merge_base (filter, clamp, split, per-thread merge length, input advance) on every small input
    PMI = ("CONSTANTS MaxK = %d\n MaxLen = %d\n Keys = {1, 2}\n MaxT = %d\n Variant = \"%s\"\nSPECIFICATION Spec\n"
           "INVARIANTS ChunksWellFormed LengthsSane WritesPartition ValuesRight AdvanceExact\nCHECK_DEADLOCK FALSE\n")
    for (mk, ml, mt) in ([(2, 3, 3)] if quick else [(2, 3, 4), (3, 2, 3), (2, 4, 3)]):
        tlc_mc(ctx, SD, "PMergeI", "mc_pmerge_run.cfg", workers=NCPU, coverage=False, timeout=6000, xmx="12g", cfg_text=PMI % (mk, ml, mt, "fixed"))
    r = tlc_mc(ctx, SD, "PMergeI", "mc_pmerge_neg.cfg", workers=NCPU, coverage=False, timeout=3000, expect_ok=False, cfg_text=PMI % (2, 2, 3, "no_position_check"))
    if r["ok"] or " is violated" not in r["out"]:
        raise InternalError("negative self-test: PMergeI without the position check (original code) is not refuted")
    ctx.cov["negative_self_tests"] = 1
    lines = []
    S = sorted_seqs((1, 2), 3)
    for k in (1, 2, 3):
        prod = list(itertools.product(S, repeat=k))
        if quick and k == 3:
            prod = rng.sample(prod, len(prod) // 4)
        for t in prod:
            tot = sum(map(len, t))
            for L in range(tot + 1):
                lines.append(line(t, L, rng.randrange(1 << 30)))
    for i in range(200 if quick else 4000):
        k = rng.choice((1, 2, 3, 4, 5, 8))
        nk = rng.choice((1, 2, 3, 10))
        t = [sorted(rng.randint(1, nk) for _ in range(0 if rng.random() < 0.2 else rng.randint(1, rng.choice((4, 12, 40))))) for _ in range(k)]
        tot = sum(map(len, t))
        for L in {0, tot, rng.randint(0, tot), max(0, tot - 1)}:
            lines.append(line(t, L, rng.randrange(1 << 30)))
    for _ in range(3):          # no sequence at all (k = 0): the front ends return the target unchanged
        lines.append(line([], 0, rng.randrange(1 << 30)))
    for ln in lines:
        ctx.count_case(ln, nontrivial=len(ln.split()) > 5)
    scr = ctx.path("pm_scripts.txt")
    open(scr, "w").write("\n".join(lines) + "\n")
    src = os.path.join(HARNESS, "drv_pmerge.cpp")
    pcpp = os.path.join(REPO, "tlx/algorithm/parallel_multiway_merge.cpp")
    exe = build(ctx, "drv_pmerge", [src, pcpp, VS], flags=SHIM)
    tr = ctx.path("pm.ndjson")
    run_driver_sharded(ctx, exe, lines, tr, what="drv_pmerge")
    # real threads under ThreadSanitizer: monitor for plain-memory races inside the merge
    exe_t = build(ctx, "drv_pmerge_tsan", [src, pcpp], flags=["-include", "vsched/nosched.hpp", "-DNO_VSCHED", "-fsanitize=thread", "-g"])
    run_driver_sharded(ctx, exe_t, lines[:: (8 if quick else 2)], ctx.path("pm_tsan.ndjson"), what="drv_pmerge(tsan)",
                       env={"TSAN_OPTIONS": "halt_on_error=1 exitcode=66"})
    exe_a = build(ctx, "drv_pmerge_asan", [src, pcpp, VS], flags=SHIM + ["-fsanitize=address,undefined", "-fno-sanitize-recover=undefined"])
    run_driver_sharded(ctx, exe_a, lines[1:: (8 if quick else 2)], ctx.path("pm_asan.ndjson"), what="drv_pmerge(asan)", env={"ASAN_OPTIONS": "detect_leaks=0"})
    if not (os.path.exists(tr) and os.path.getsize(tr)):
        return
    tl = [x for x in read_text(tr).split("\n") if x]
    ctx.cov["merge_calls_validated"] = sum(1 for x in tl if '"e":"merge"' in x)
    ctx.sample({"recorded_call": json.loads([x for x in tl if '"e":"merge"' in x][len(tl) // 3])})

    def classify(ex, at):
        e = json.loads(ex[min(at, len(ex) - 1)])
        if e.get("e") == "crash":
            return ("pmerge/crash", "a parallel multiway merge call crashed or hung (script line: %s)" % e.get("line", "")[:100])
        what = "races/double writes" if (not e.get("writes_ok") or e.get("problems")) else "values / return / input advance"
        return ("pmerge/%s/%s/%s" % ("stable" if e.get("stable") else "unstable", "sampling" if e.get("mwmsa") == 0 else "exact", "sync" if what.startswith("races") else "result"),
                "parallel multiway merge (k=%d, L=%s, threads=%s, %s splitting, %s): wrong %s" %
                (len(e.get("seqs", [])), e.get("len"), e.get("threads"), "sampling" if e.get("mwmsa") == 0 else "exact", "stable" if e.get("stable") else "unstable", what))
    # implementation level first (writer of every position as PMergeI predicts); what it rejects but Trace_Merge accepts is DRIFT
    validate_traces(ctx, SD, "Trace_PMergeI", "Trace_PMergeI.cfg", tr, classify, shards=NCPU, max_rejects=20, property_level=(SD, "Trace_Merge", "Trace_Merge.cfg"))
    ctx.assumptions += ["input sequences are sorted; L <= total size",
                        "schedules: the threads only fork and join, so the shim's random / run-first schedules vary completion order; write-once and the "
                        "happens-before check are evaluated on instrumented element accesses; TSan with real threads monitors un-instrumented accesses",
                        "unstable variants: the element values must equal those of a sequential merge (any legal run); stable variants: the unique stable run"]
