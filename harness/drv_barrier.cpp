// C11 driver (barriers): N threads cross a tlx::ThreadBarrierMutex / ThreadBarrierSpin G times under vsched.
// script line: kind(0 mutex,1 spin) yield(0/1) N G strategy seed nscript tid...
#include <common/ndjson.hpp>
#include <tlx/thread_barrier_mutex.hpp>
#include <tlx/thread_barrier_spin.hpp>
#include <fstream>
#include <sys/wait.h>
using namespace vf;

static std::vector<std::string> g_ev;

static void write_out(const char* path, const vsched::Result& r) {
    FILE* f = std::fopen(path, "a");
    for (auto& e : g_ev) { std::fputs(e.c_str(), f); std::fputc('\n', f); }
    std::string pr = "[";
    for (size_t i = 0; i < r.problems.size(); ++i) pr += std::string(i ? "," : "") + "\"" + r.problems[i] + "\"";
    pr += "]";
    std::fprintf(f, "{\"e\":\"end\",\"problems\":%zu,\"problem_text\":%s,\"deadlock\":%s,\"livelock\":%s,\"diverged\":%s,\"steps\":%ld,\"blocked\":\"%s\"}\n", r.problems.size(),
                 pr.c_str(), r.deadlock ? "true" : "false", r.livelock ? "true" : "false", r.diverged ? "true" : "false", r.steps, r.blocked_summary.c_str());
    std::fclose(f);
}
static std::string ev3(const char* e, int t, int g) { return std::string("{\"e\":\"") + e + "\",\"t\":" + std::to_string(t) + ",\"g\":" + std::to_string(g) + "}"; }

template <class Barrier>
static void body_run(Barrier& bar, bool yield, int N, int G) {
    auto body = [&](int t) {
        for (int g = 1; g <= G; ++g) {
            g_ev.push_back(ev3("enter", t, g));
            auto act = [&, t, g]() { g_ev.push_back(ev3("action", vsched::self(), g)); (void)t; };
            if (yield) bar.wait_yield(act); else bar.wait(act);
            g_ev.push_back(ev3("leave", t, g));
        }
    };
    std::vector<vsched::thread> th;
    for (int t = 1; t <= N; ++t) th.emplace_back(body, t);
    for (auto& x : th) x.join();
}

static void child(const std::string& line, const char* outpath) {
    std::istringstream is(line);
    int kind, yield, N, G; is >> kind >> yield >> N >> G;
    vsched::Config cfg; int strat; is >> strat >> cfg.seed; cfg.strategy = strat;
    size_t ns; is >> ns; cfg.script.resize(ns); for (auto& x : cfg.script) is >> x;
    cfg.guided_kinds = kind == 0 ? ((1u << vsched::K_LOCK) | (1u << vsched::K_UNLOCK) | (1u << vsched::K_CVWAIT) | (1u << vsched::K_NOTIFY_ALL))
                                 : ((1u << vsched::K_LOAD) | (1u << vsched::K_RMW));
    cfg.max_steps = 200000;
    g_ev.push_back(std::string("{\"e\":\"reset\",\"kind\":\"") + (kind ? "spin" : "mutex") + "\",\"yield\":" + std::to_string(yield) + ",\"n\":" + std::to_string(N) +
                   ",\"g\":" + std::to_string(G) + ",\"strategy\":" + std::to_string(strat) + ",\"seed\":" + std::to_string(cfg.seed) + "}");
    int id0 = -1;
    vsched::set_observer([&](int tid, int k, int objid, long long before, long long after) {
        if (objid != id0 && objid != id0 + 1) return;
        std::string t = std::to_string(tid);
        if (kind == 0) {
            const char* n = k == vsched::K_LOCK ? "lock" : k == vsched::K_UNLOCK ? "unlock" : k == vsched::K_CVWAIT ? "cvwait" : k == vsched::K_NOTIFY_ALL ? "notify_all" : nullptr;
            if (n) g_ev.push_back(std::string("{\"e\":\"") + n + "\",\"t\":" + t + "}");
        } else {
            const char* obj = objid == id0 ? "waiting" : "step";
            if (k == vsched::K_LOAD) g_ev.push_back(std::string("{\"e\":\"load\",\"t\":") + t + ",\"obj\":\"" + obj + "\",\"val\":" + std::to_string(after) + "}");
            else if (k == vsched::K_RMW) g_ev.push_back(std::string("{\"e\":\"rmw\",\"t\":") + t + ",\"obj\":\"" + obj + "\",\"before\":" + std::to_string(before) + ",\"after\":" + std::to_string(after) + "}");
        }
    });
    vsched::set_abort_handler([&](vsched::Result& r) { write_out(outpath, r); { vf::cov_flush(); _exit(0); } });
    auto res = vsched::run([&] {
        id0 = vsched::Runtime::new_object_id() + 1;
        if (kind == 0) { tlx::ThreadBarrierMutex bar(N); body_run(bar, yield, N, G); }
        else { tlx::ThreadBarrierSpin bar(N); body_run(bar, yield, N, G); }
    }, cfg);
    write_out(outpath, res);
    { vf::cov_flush(); _exit(0); }
}

int main(int argc, char** argv) {
    if (argc < 3) return 2;
    std::ifstream in(argv[1]);
    { FILE* f = std::fopen(argv[2], "w"); std::fclose(f); }
    std::string line; int bad = 0;
    while (std::getline(in, line)) {
        if (line.empty()) continue;
        pid_t p = fork();
        if (p == 0) { alarm(30); child(line, argv[2]); }
        int st = 0; waitpid(p, &st, 0);
        if (!WIFEXITED(st) || WEXITSTATUS(st) != 0) {
            ++bad;
            FILE* f = std::fopen(argv[2], "a");
            std::fprintf(f, "{\"e\":\"reset\",\"kind\":\"crashed\",\"n\":0,\"g\":0,\"status\":%d}\n", st);
            std::fclose(f);
        }
    }
    return bad ? 1 : 0;
}
