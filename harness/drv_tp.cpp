// C10 driver: tlx::ThreadPool under vsched.  A scenario = job graph + client programs.
// script line: P NJ {nchildren c...}xNJ  nterm t...  NC {ncalls {op arg}*}xNC  strategy seed  nscript tid...  nwaiters idx...
//   client ops: 0 enqueue(job arg)  1 loop_until_empty  2 loop_until_terminate  3 terminate
// Threads: 0 main, 1..P pool workers, P+1..P+NC clients (as in ThreadPoolI).
#include <common/ndjson.hpp>
#include <tlx/thread_pool.hpp>
#include <fstream>
#include <memory>
#include <stdexcept>
#include <sys/wait.h>
using namespace vf;

static std::vector<std::string> g_ev;
static void ev(const std::string& s) { g_ev.push_back(s); }
static std::string E(const char* e, int t) { return std::string("{\"e\":\"") + e + "\",\"t\":" + std::to_string(t); }

static void write_out(const char* path, const vsched::Result& r) {
    FILE* f = std::fopen(path, "a");
    for (auto& e : g_ev) { std::fputs(e.c_str(), f); std::fputc('\n', f); }
    std::string pr = "[";
    for (size_t i = 0; i < r.problems.size(); ++i) pr += std::string(i ? "," : "") + "\"" + r.problems[i] + "\"";
    pr += "]";
    std::fprintf(f, "{\"e\":\"end\",\"problems\":%zu,\"problem_text\":%s,\"deadlock\":%s,\"livelock\":%s,\"diverged\":%s,\"consumed\":%zu,\"steps\":%ld,\"blocked\":\"%s\"}\n", r.problems.size(),
                 pr.c_str(), r.deadlock ? "true" : "false", r.livelock ? "true" : "false", r.diverged ? "true" : "false", r.guided_consumed, r.steps, r.blocked_summary.c_str());
    std::fclose(f);
}

struct Call { int op, arg; };

static void child(const std::string& line, const char* outpath) {
    std::istringstream is(line);
    int P, NJ; is >> P >> NJ;
    std::vector<std::vector<int>> children(NJ + 1);
    for (int j = 1; j <= NJ; ++j) { size_t n; is >> n; children[j].resize(n); for (auto& c : children[j]) is >> c; }
    size_t nt; is >> nt; std::vector<int> term(nt); for (auto& x : term) is >> x;
    int NC; is >> NC;
    std::vector<std::vector<Call>> progs(NC + 1);
    for (int c = 1; c <= NC; ++c) { size_t n; is >> n; progs[c].resize(n); for (auto& x : progs[c]) is >> x.op >> x.arg; }
    vsched::Config cfg; int strat; is >> strat >> cfg.seed; cfg.strategy = strat;
    size_t ns; is >> ns; cfg.script.resize(ns); for (auto& x : cfg.script) is >> x;
    size_t nw; is >> nw; cfg.waiter_script.resize(nw); for (auto& x : cfg.waiter_script) is >> x;
    cfg.guided_kinds = (1u << vsched::K_LOCK) | (1u << vsched::K_UNLOCK) | (1u << vsched::K_CVWAIT) | (1u << vsched::K_NOTIFY_ONE) | (1u << vsched::K_NOTIFY_ALL) | (1u << vsched::K_RMW);
    // reset event describes the scenario (constants of the trace specs)
    {
        std::string s = "{\"e\":\"reset\",\"p\":" + std::to_string(P) + ",\"nj\":" + std::to_string(NJ) + ",\"children\":[";
        for (int j = 1; j <= NJ; ++j) s += std::string(j > 1 ? "," : "") + jarr(children[j]);
        s += "],\"terminators\":" + jarr(term) + ",\"progs\":[";
        static const char* OPN[] = {"enq", "lue", "lut", "term"};
        for (int c = 1; c <= NC; ++c) {
            s += std::string(c > 1 ? "," : "") + "[";
            for (size_t i = 0; i < progs[c].size(); ++i)
                s += std::string(i ? "," : "") + (progs[c][i].op == 0 ? "[\"enq\"," + std::to_string(progs[c][i].arg) + "]" : std::string("[\"") + OPN[progs[c][i].op] + "\"]");
            s += "]";
        }
        s += "],\"strategy\":" + std::to_string(strat) + ",\"seed\":" + std::to_string(cfg.seed) + "}";
        ev(s);
    }
    int id0 = -1; size_t last_notify = 0;
    static const char* OBJ[] = {"mutex", "jobs", "fin", "busy", "idle", "done", "terminate"};
    vsched::set_observer([&](int tid, int k, int objid, long long before, long long after) {
        if (id0 < 0 || objid < id0 || objid > id0 + 6) return;
        const char* obj = OBJ[objid - id0];
        std::string t = std::to_string(tid);
        switch (k) {
        case vsched::K_LOCK: ev("{\"e\":\"lock\",\"t\":" + t + "}"); break;
        case vsched::K_UNLOCK: ev("{\"e\":\"unlock\",\"t\":" + t + "}"); break;
        case vsched::K_CVWAIT: ev("{\"e\":\"cvwait\",\"t\":" + t + ",\"obj\":\"" + obj + "\"}"); break;
        case vsched::K_NOTIFY_ALL: ev("{\"e\":\"notify_all\",\"t\":" + t + ",\"obj\":\"" + obj + "\"}"); break;
        case vsched::K_NOTIFY_ONE: last_notify = g_ev.size(); ev("{\"e\":\"notify_one\",\"t\":" + t + ",\"obj\":\"" + obj + "\",\"woken\":0}"); break;
        case vsched::K_USER: g_ev[last_notify] = "{\"e\":\"notify_one\",\"t\":" + t + ",\"obj\":\"" + obj + "\",\"woken\":" + std::to_string(before) + "}"; break;
        case vsched::K_LOAD: if (objid == id0 + 3) ev("{\"e\":\"load\",\"t\":" + t + ",\"obj\":\"busy\",\"val\":" + std::to_string(after) + "}"); break;
        case vsched::K_RMW: ev("{\"e\":\"rmw\",\"t\":" + t + ",\"obj\":\"" + obj + "\",\"before\":" + std::to_string(before) + ",\"after\":" + std::to_string(after) + "}"); break;
        default: break;
        }
    });
    vsched::set_abort_handler([&](vsched::Result& r) { write_out(outpath, r); { vf::cov_flush(); _exit(0); } });
    auto res = vsched::run([&] {
        id0 = vsched::Runtime::new_object_id() + 1;
        vsched::set_guided_load_filter([&](int objid) { return objid == id0 + 3; });     // busy_
        // raw pointer: jobs may still use the pool while it is being destroyed.  Every other scenario gives the pool a thread initializer.
        tlx::ThreadPool* pool = (cfg.seed & 2) ? new tlx::ThreadPool(P, [](size_t) {}) : new tlx::ThreadPool(P);
        std::function<void(int)> job_body;
        auto enqueue = [&](int j) {
            ev(E("enq_call", vsched::self()) + ",\"j\":" + std::to_string(j) + "}");
            pool->enqueue([&, j] { job_body(j); });
            ev(E("enq_done", vsched::self()) + ",\"j\":" + std::to_string(j) + "}");
        };
        auto terminate = [&] { ev(E("term_call", vsched::self()) + "}"); pool->terminate(); ev(E("term_ret", vsched::self()) + "}"); };
        job_body = [&](int j) {
            ev(E("start", vsched::self()) + ",\"j\":" + std::to_string(j) + "}");
            for (int c : children[j]) enqueue(c);
            for (int x : term) if (x == j) terminate();
            ev(E("finish", vsched::self()) + ",\"j\":" + std::to_string(j) + "}");
            if ((cfg.seed & 1) && j % 2 == 1) throw std::runtime_error("job leaves through an exception");    // the worker must treat it as finished
        };
        auto client = [&](int c) {
            for (const Call& x : progs[c]) {
                int me = vsched::self();
                switch (x.op) {
                case 0: enqueue(x.arg); break;
                case 1: { ev(E("lue_call", me) + "}"); pool->loop_until_empty(); ev(E("lue_ret", me) + "}");
                          size_t d = pool->done(); ev(E("done_read", me) + ",\"val\":" + std::to_string(d) + "}"); break; }
                case 2: ev(E("lut_call", me) + "}"); pool->loop_until_terminate(); ev(E("lut_ret", me) + "}"); break;
                case 3: terminate(); break;
                }
            }
        };
        std::vector<vsched::thread> th;
        for (int c = 1; c <= NC; ++c) th.emplace_back(client, c);
        for (auto& x : th) x.join();
        ev("{\"e\":\"destroy\",\"t\":0}");
        delete pool;
    }, cfg);
    write_out(outpath, res);
    { vf::cov_flush(); _exit(0); }
}

int main(int argc, char** argv) {
    if (argc < 3) return 2;
    std::ifstream in(argv[1]);
    { FILE* f = std::fopen(argv[2], "w"); std::fclose(f); }
    std::string line; int bad = 0;
    while (std::getline(in, line)) {
        if (line.empty()) continue;
        pid_t p = fork();
        if (p == 0) { alarm(30); child(line, argv[2]); }
        int st = 0; waitpid(p, &st, 0);
        if (!WIFEXITED(st) || WEXITSTATUS(st) != 0) {
            ++bad;
            FILE* f = std::fopen(argv[2], "a");
            std::fprintf(f, "{\"e\":\"reset\",\"crashed\":true,\"status\":%d,\"p\":0,\"nj\":0,\"children\":[],\"terminators\":[],\"progs\":[]}\n", st);
            std::fclose(f);
        }
    }
    return bad ? 1 : 0;
}
