// C06 driver: parallel_mergesort / stable_parallel_mergesort under vsched.
// script line: n key...  seed      (each line: a set of configurations chosen from the seed)
#include <common/ndjson.hpp>
#include <tlx/sort/parallel_mergesort.hpp>
#include <atomic>
#include <cstring>
#include <deque>
#include <fstream>
#include <sys/wait.h>
using namespace vf;

static std::atomic<long> g_live{0};   // real std::atomic: the driver is outside namespace tlx
// accesses to the caller's array, tagged with the thread and the number of barrier waits it has completed (shim build only):
// the phase discipline of PMergesortI (read own chunk before the first barrier, write own output range in the merge phase only)
struct Acc { int tid; bool write; long pos; int phase; };
static std::vector<Acc> g_acc;
static const char *g_vbeg = nullptr, *g_vend = nullptr;
static int g_locks[64];
static size_t g_elem = 1;
static inline void note(const void* p, bool w) {
#ifndef NO_VSCHED
    const char* c = static_cast<const char*>(p);
    if (c >= g_vbeg && c < g_vend && g_acc.size() < 4000) { int t = vsched::self(); g_acc.push_back({t, w, (long)((c - g_vbeg) / g_elem) + 1, g_locks[t & 63]}); }
#else
    (void)p; (void)w;
#endif
}
struct PElem {
    long long key = 0; long long id = -1; char* heap;
    PElem() : heap(new char(1)) { ++g_live; }
    PElem(long long k, long long i) : key(k), id(i), heap(new char(1)) { ++g_live; }
    PElem(const PElem& o) : key(o.key), id(o.id), heap(new char(1)) { vsched::access(&o, false); vsched::access(this, true); note(&o, false); note(this, true); ++g_live; }
    PElem& operator=(const PElem& o) { vsched::access(&o, false); vsched::access(this, true); note(&o, false); note(this, true); key = o.key; id = o.id; return *this; }
    ~PElem() { delete heap; --g_live; }
};
VF_DECOY_ORDER(PElem, key)
struct PLess { bool operator()(const PElem& a, const PElem& b) const { vsched::access(&a, false); vsched::access(&b, false); return a.key < b.key; } };

// iter: the kind of random access iterator the range is given as: 0 vector iterators, 1 reverse iterators over a vector (the sorted view is the reversed storage),
// 2 iterators of a std::deque (not contiguous).  The sort must only use iterator arithmetic, never the address of an element as a position.
static void one(Out& out, const std::vector<long long>& keys, bool stable, int mwmsa, int threads, int oversampling, uint64_t seed, int strat, int pct_depth, int iter = 0) {
    std::vector<PElem> v;
    std::deque<PElem> dq;
    v.reserve(keys.size());
    const size_t n = keys.size();
    if (iter == 0) for (size_t i = 0; i < n; ++i) v.emplace_back(keys[i], (long long)i + 1);
    else if (iter == 1) for (size_t i = 0; i < n; ++i) v.emplace_back(keys[n - 1 - i], (long long)(n - i));
    else for (size_t i = 0; i < n; ++i) dq.emplace_back(keys[i], (long long)i + 1);
    tlx::parallel_multiway_merge_oversampling = oversampling;
    vsched::clear_watches(); if (!v.empty()) vsched::watch(v.data(), v.data() + v.size());
    long live_before = g_live;
    g_acc.clear(); std::memset(g_locks, 0, sizeof(g_locks)); g_elem = sizeof(PElem);
    g_vbeg = (v.empty() || iter != 0) ? nullptr : reinterpret_cast<const char*>(v.data()); g_vend = (v.empty() || iter != 0) ? nullptr : reinterpret_cast<const char*>(v.data() + v.size());
#ifndef NO_VSCHED
    vsched::set_observer([](int tid, int kind, int, long long, long long) { if (kind == vsched::K_UNLOCK) ++g_locks[tid & 63]; /* one explicit unlock per completed barrier.wait() */ });
#endif
    vsched::Config cfg; cfg.seed = seed; cfg.strategy = strat; cfg.pct_depth = pct_depth; cfg.pct_steps = 400;
    auto sa = static_cast<tlx::MultiwayMergeSplittingAlgorithm>(mwmsa);
    vsched::Result res = vsched::run([&] {
        if (iter == 1) { if (stable) tlx::stable_parallel_mergesort(v.rbegin(), v.rend(), VF_Stateful<PLess>(1), threads, sa); else tlx::parallel_mergesort(v.rbegin(), v.rend(), VF_Stateful<PLess>(1), threads, sa); }
        else if (iter == 2) { if (stable) tlx::stable_parallel_mergesort(dq.begin(), dq.end(), VF_Stateful<PLess>(1), threads, sa); else tlx::parallel_mergesort(dq.begin(), dq.end(), VF_Stateful<PLess>(1), threads, sa); }
        else if (stable) tlx::stable_parallel_mergesort(v.begin(), v.end(), VF_Stateful<PLess>(1), threads, sa);
        else tlx::parallel_mergesort(v.begin(), v.end(), VF_Stateful<PLess>(1), threads, sa);
    }, cfg);
    long live_after = g_live;
    g_vbeg = g_vend = nullptr;
    std::string acc = "[";
    for (size_t i = 0; i < g_acc.size(); ++i) acc += std::string(i ? "," : "") + "[" + std::to_string(g_acc[i].tid) + "," + (g_acc[i].write ? "1" : "0") + "," + std::to_string(g_acc[i].pos) + "," + std::to_string(g_acc[i].phase) + "]";
    acc += "]";
    std::vector<long long> ids;
    if (iter == 1) for (auto it = v.rbegin(); it != v.rend(); ++it) ids.push_back(it->id);
    else if (iter == 2) for (auto& e : dq) ids.push_back(e.id);
    else for (auto& e : v) ids.push_back(e.id);
    std::string pt = "[";
    for (size_t i = 0; i < res.problems.size() && i < 3; ++i) pt += std::string(i ? "," : "") + "\"" + res.problems[i] + "\"";
    Ev e("sort"); e.arr("keys", keys).arr("out", ids).boolean("stable", stable).num("live_delta", live_after - live_before).num("problems", (long long)res.problems.size())
        .raw("problem_text", pt + "]").boolean("deadlock", res.deadlock).num("mwmsa", mwmsa).num("threads", threads).num("oversampling", oversampling).num("strategy", strat).num("iter", iter);
#ifndef NO_VSCHED
    if (g_acc.size() < 4000 && iter == 0) e.raw("acc", acc);
#endif
    e.emit(out);
}

static Out* g_out = nullptr;
static void child(const std::string& line, const char* outpath) {
    std::istringstream is(line);
    size_t n; is >> n;
    std::vector<long long> keys(n); for (auto& k : keys) is >> k;
    uint64_t seed; is >> seed;
    Out out; out.f = std::fopen(outpath, "a"); install_terminate(out); g_out = &out;
    Ev("reset").emit(out);
    vsched::set_abort_handler([&](vsched::Result& r) {
        Ev e("sort"); e.arr("keys", keys).raw("out", "[]").boolean("stable", false).num("live_delta", 0).num("problems", (long long)r.problems.size() + 1).boolean("deadlock", true);
        e.emit(out); out.flush(); { vf::cov_flush(); _exit(0); }
    });
    static const int TH[] = {1, 2, 3, 4, 5, 7, 8, 16, 20};
    uint64_t x = seed * 2654435761u + 99;
    auto rnd = [&](int m) { x = x * 6364136223846793005ULL + 1442695040888963407ULL; return (int)((x >> 33) % m); };
    static const int OS[] = {1, 2, 10};
    static const int ST[] = {vsched::RANDOM, vsched::PCT, vsched::PCT, vsched::RUNFIRST};
    for (int stable = 0; stable < 2; ++stable) for (int mwmsa = 0; mwmsa < 2; ++mwmsa) for (int rep = 0; rep < 2; ++rep)
        one(out, keys, stable, mwmsa, rep == 0 ? TH[rnd(5)] : TH[rnd(9)], OS[rnd(3)], x, ST[rnd(4)], 2 + rnd(3));
    // more runs than std::sort's insertion-sort threshold (16): the sample of multisequence_partition is sorted by an unstable algorithm beyond that, so ties between
    // the runs' samples are only broken correctly if the code compares (value, run) pairs (round-3 seeded change, caught under one VERIF_SEED and missed under another
    // as long as thread counts above 16 were drawn at random): every input of at least 17 elements gets both splitting strategies with 17+ threads, stable
    for (int iter = 1; iter <= 2; ++iter) one(out, keys, rnd(2), rnd(2), TH[rnd(9)], OS[rnd(3)], x, ST[rnd(4)], 2 + rnd(3), iter);
    if (keys.size() >= 17) {
        static const int TH2[] = {17, 20, 33};
        one(out, keys, true, 1, TH2[rnd(3)], OS[rnd(3)], x, ST[rnd(4)], 2 + rnd(3));
        one(out, keys, true, 0, TH2[rnd(3)], OS[rnd(3)], x, ST[rnd(4)], 2 + rnd(3));
    }
    out.flush();
    { vf::cov_flush(); _exit(0); }
}

int main(int argc, char** argv) {
    if (argc < 3) return 2;
    std::ifstream in(argv[1]);
    { FILE* f = std::fopen(argv[2], "w"); std::fclose(f); }
    std::string line; int bad = 0;
    while (std::getline(in, line)) {
        if (line.empty()) continue;
        pid_t p = fork();
        if (p == 0) { alarm(120); child(line, argv[2]); }
        int st = 0; waitpid(p, &st, 0);
        if (!WIFEXITED(st) || WEXITSTATUS(st) != 0) {
            ++bad;
            FILE* f = std::fopen(argv[2], "a");
            std::fprintf(f, "{\"e\":\"reset\"}\n{\"e\":\"crash\",\"status\":%d,\"line\":\"%s\"}\n", st, line.c_str());
            std::fclose(f);
        }
    }
    return bad ? 1 : 0;
}
