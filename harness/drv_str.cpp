// C19 driver: tlx string codecs and helpers.
// script lines:  P slen s... tlen t...                 pair of byte strings
//                V nparts {len b...}* gluelen g...     vector of strings + glue
#include <common/ndjson.hpp>
#include <tlx/string.hpp>
#include <fstream>
#include <stdexcept>
using namespace vf;

static std::string B(const std::string& s) { std::string o = "["; for (size_t i = 0; i < s.size(); ++i) o += std::string(i ? "," : "") + std::to_string((unsigned char)s[i]); return o + "]"; }
static std::string BV(const std::vector<std::string>& v) { std::string o = "["; for (size_t i = 0; i < v.size(); ++i) o += std::string(i ? "," : "") + B(v[i]); return o + "]"; }
static const char* Bo(bool b) { return b ? "true" : "false"; }
struct L { std::string s = "["; bool f = true; void add(const std::string& x) { s += std::string(f ? "" : ",") + x; f = false; } std::string done() { return s + "]"; } };
template <class F> static std::string tryS(F f) { try { return B(f()); } catch (const std::exception&) { return "[-2]"; } }
template <class F> static std::string tryV(F f) { try { return BV(f()); } catch (const std::exception&) { return "[[-2]]"; } }
static bool nulfree(const std::string& s) { return s.find('\0') == std::string::npos; }

static void pair_event(Out& out, const std::string& s, const std::string& t) {
    using sv = tlx::string_view;
    // every string_view argument is a view into a LARGER buffer: the bytes behind the view's end are not a terminator but more text (the other string, letters,
    // separators), so a helper that reads its view argument as a C string or past its size gives a different answer
    const std::string s_pad = s + t + "a,B \x01a", t_pad = t + s + "b, a\xff,";
    auto NTV = [&](const std::string& x) { return &x == &s ? sv(s_pad.data(), s.size()) : sv(t_pad.data(), t.size()); };
    Ev e("str"); e.raw("s", B(s)).raw("t", B(t));
    { std::string o = "[";
      for (size_t w : {0, 4, 8, 76}) { std::string enc = tlx::base64_encode(s, w);
          o += std::string(o.size() > 1 ? "," : "") + "{\"w\":" + std::to_string(w) + ",\"enc\":" + B(enc) + ",\"dec\":" + tryS([&] { return tlx::base64_decode(enc); }) +
               ",\"dec_def\":" + tryS([&] { return tlx::base64_decode(enc.data(), enc.size(), false); }) + "}"; }
      e.raw("b64", o + "]"); }
    std::string hu = tlx::hexdump(s), hl = tlx::hexdump_lc(s);
    e.raw("hex_u", B(hu)).raw("hex_l", B(hl)).raw("parse_u", tryS([&] { return tlx::parse_hexdump(hu); })).raw("parse_l", tryS([&] { return tlx::parse_hexdump(hl); }));
    { L a, b; a.add(B(tlx::to_lower(NTV(s)))); { std::string c = s; a.add(B(tlx::to_lower(&c))); } b.add(B(tlx::to_upper(NTV(s)))); { std::string c = s; b.add(B(tlx::to_upper(&c))); }
      e.raw("to_lower", a.done()).raw("to_upper", b.done()); }
    auto trio = [&](const char* n1, const char* n2, const char* n3, auto drop, bool has_drop) {
        L a, b, c;
        auto v = [&](sv x) { return B(std::string(x.data(), x.size())); };
        if (has_drop) {
            { std::string x = s; a.add(B(tlx::trim(&x, drop))); } a.add(v(tlx::trim(NTV(s), drop))); { sv x(s); a.add(v(tlx::trim(&x, drop))); }
            { std::string x = s; b.add(B(tlx::trim_left(&x, drop))); } b.add(v(tlx::trim_left(NTV(s), drop))); { sv x(s); b.add(v(tlx::trim_left(&x, drop))); }
            { std::string x = s; c.add(B(tlx::trim_right(&x, drop))); } c.add(v(tlx::trim_right(NTV(s), drop))); { sv x(s); c.add(v(tlx::trim_right(&x, drop))); }
        }
        e.raw(n1, a.done()).raw(n2, b.done()).raw(n3, c.done());
    };
    trio("trim", "trim_left", "trim_right", NTV(t), true);
    { L a, b, c; auto v = [&](sv x) { return B(std::string(x.data(), x.size())); };
      { std::string x = s; a.add(B(tlx::trim(&x))); } a.add(v(tlx::trim(NTV(s)))); { std::string x = s; b.add(B(tlx::trim_left(&x))); } b.add(v(tlx::trim_left(NTV(s))));
      { std::string x = s; c.add(B(tlx::trim_right(&x))); } c.add(v(tlx::trim_right(NTV(s))));
      e.raw("trim_ws", a.done()).raw("trim_left_ws", b.done()).raw("trim_right_ws", c.done()); }
    { L a; a.add(B(tlx::erase_all(NTV(s), NTV(t)))); { std::string x = s; a.add(B(tlx::erase_all(&x, NTV(t)))); } e.raw("erase_all", a.done()); }
    { L a, b, c;
      if (!t.empty()) { a.add(B(tlx::replace_first(NTV(s), NTV(t), sv("XY")))); { std::string x = s; a.add(B(tlx::replace_first(&x, NTV(t), sv("XY")))); }
                        b.add(B(tlx::replace_all(NTV(s), NTV(t), sv("XY")))); { std::string x = s; b.add(B(tlx::replace_all(&x, NTV(t), sv("XY")))); }
                        c.add(B(tlx::replace_all(NTV(s), NTV(t), sv("")))); }
      e.raw("replace_first", a.done()).raw("replace_all", b.done()).raw("replace_all_del", c.done()); }
    { L a, b, c, d; std::string spl = "["; bool cc = false;
      if (t.size() == 1) { char ch = t[0];
          { std::string x = s; a.add(B(tlx::trim(&x, ch))); } a.add(B(std::string(tlx::trim(NTV(s), ch))));
          b.add(B(tlx::erase_all(NTV(s), ch))); { std::string x = s; b.add(B(tlx::erase_all(&x, ch))); }
          c.add(B(tlx::replace_first(NTV(s), ch, 'X'))); { std::string x = s; c.add(B(tlx::replace_first(&x, ch, 'X'))); }
          d.add(B(tlx::replace_all(NTV(s), ch, 'X'))); { std::string x = s; d.add(B(tlx::replace_all(&x, ch, 'X'))); }
          cc = tlx::contains(NTV(s), ch);
          for (long long lim : {-1LL, 0LL, 1LL, 2LL, 3LL}) spl += std::string(spl.size() > 1 ? "," : "") + "{\"limit\":" + std::to_string(lim) + ",\"parts\":" +
              BV(tlx::split(ch, NTV(s), lim < 0 ? std::string::npos : (size_t)lim)) + "}";
          for (long long lim : {-1LL, 2LL}) { std::vector<std::string> vv; for (auto x : tlx::split_view(ch, NTV(s), lim < 0 ? std::string::npos : (size_t)lim)) vv.emplace_back(x.data(), x.size());
              spl += ",{\"limit\":" + std::to_string(lim) + ",\"parts\":" + BV(vv) + "}"; } }
      e.raw("trim_c", a.done()).raw("erase_c", b.done()).raw("replace_first_c", c.done()).raw("replace_all_c", d.done()).boolean("contains_c", cc).raw("split_c", spl + "]"); }
    { L a, b, c, d;
      a.add(Bo(tlx::starts_with(NTV(s), NTV(t)))); b.add(Bo(tlx::ends_with(NTV(s), NTV(t)))); c.add(Bo(tlx::starts_with_icase(NTV(s), NTV(t)))); d.add(Bo(tlx::ends_with_icase(NTV(s), NTV(t))));
      if (nulfree(s) && nulfree(t)) { b.add(Bo(tlx::ends_with(s.c_str(), t.c_str()))); b.add(Bo(tlx::ends_with(s.c_str(), NTV(t)))); b.add(Bo(tlx::ends_with(NTV(s), t.c_str())));
                                      d.add(Bo(tlx::ends_with_icase(s.c_str(), t.c_str()))); d.add(Bo(tlx::ends_with_icase(NTV(s), t.c_str()))); }
      e.raw("starts", a.done()).raw("ends", b.done()).boolean("contains", tlx::contains(NTV(s), NTV(t))).raw("starts_icase", c.done()).raw("ends_icase", d.done()); }
    { L a, b, c;
      a.add(std::to_string(tlx::compare_icase(NTV(s), NTV(t)))); b.add(Bo(tlx::equal_icase(NTV(s), NTV(t)))); c.add(Bo(tlx::less_icase(NTV(s), NTV(t))));
      if (nulfree(s) && nulfree(t)) {
          a.add(std::to_string(tlx::compare_icase(s.c_str(), t.c_str()))); a.add(std::to_string(tlx::compare_icase(s.c_str(), NTV(t)))); a.add(std::to_string(tlx::compare_icase(NTV(s), t.c_str())));
          b.add(Bo(tlx::equal_icase(s.c_str(), t.c_str()))); b.add(Bo(tlx::equal_icase(s.c_str(), NTV(t)))); b.add(Bo(tlx::equal_icase(NTV(s), t.c_str())));
          c.add(Bo(tlx::less_icase(s.c_str(), t.c_str()))); c.add(Bo(tlx::less_icase(s.c_str(), NTV(t)))); c.add(Bo(tlx::less_icase(NTV(s), t.c_str()))); }
      e.raw("compare_icase", a.done()).raw("equal_icase", b.done()).raw("less_icase", c.done()); }
    { L a, b; a.add(std::to_string(tlx::levenshtein(NTV(s), NTV(t)))); b.add(std::to_string(tlx::levenshtein_icase(NTV(s), NTV(t))));
      if (nulfree(s) && nulfree(t)) { a.add(std::to_string(tlx::levenshtein(s.c_str(), t.c_str()))); b.add(std::to_string(tlx::levenshtein_icase(s.c_str(), t.c_str()))); }
      e.raw("lev", a.done()).raw("lev_icase", b.done()); }
    { std::string o = "["; for (size_t len : {(size_t)0, (size_t)1, s.size(), s.size() + 2}) o += std::string(o.size() > 1 ? "," : "") + "{\"len\":" + std::to_string(len) + ",\"r\":" + B(tlx::pad(NTV(s), len, '.')) + "}";
      e.raw("pad", o + "]"); }
    { std::string o = "[", m = "[";
      for (long long lim : {-1LL, 0LL, 1LL, 2LL, 3LL}) { size_t l = lim < 0 ? std::string::npos : (size_t)lim;
          std::vector<std::string> into; tlx::split(&into, NTV(t), NTV(s), l);
          o += std::string(o.size() > 1 ? "," : "") + "{\"limit\":" + std::to_string(lim) + ",\"parts\":" + BV(tlx::split(NTV(t), NTV(s), l)) + "}";
          o += ",{\"limit\":" + std::to_string(lim) + ",\"parts\":" + BV(into) + "}";
          { std::vector<std::string> vv; for (auto x : tlx::split_view(NTV(t), NTV(s), l)) vv.emplace_back(x.data(), x.size());
            o += ",{\"limit\":" + std::to_string(lim) + ",\"parts\":" + BV(vv) + "}"; }
          for (size_t mf : {(size_t)0, (size_t)2, (size_t)4}) m += std::string(m.size() > 1 ? "," : "") + "{\"minf\":" + std::to_string(mf) + ",\"limit\":" + std::to_string(lim) + ",\"parts\":" + BV(tlx::split(NTV(t), NTV(s), mf, l)) + "}"; }
      e.raw("split_s", o + "]").raw("split_min", m + "]"); }
    e.emit(out);
}

static void vec_event(Out& out, const std::vector<std::string>& parts, const std::string& glue) {
    using sv = tlx::string_view;
    Ev e("vec"); e.raw("parts", BV(parts)).raw("glue", B(glue));
    L j; j.add(B(tlx::join(sv(glue), parts)));
    if (glue.size() == 1) j.add(B(tlx::join(glue[0], parts)));
    if (glue.find('\0') == std::string::npos) j.add(B(tlx::join(glue.c_str(), parts)));
    e.raw("join", j.done());
    std::string joined = tlx::join(sv(glue), parts);
    e.raw("split_back", BV(tlx::split(sv(glue), sv(joined))));
    e.raw("quoted_back", tryV([&] { return tlx::split_quoted(tlx::join_quoted(parts, ',', '"', '\\'), ',', '"', '\\'); }));
    // default form: separator ' ', quote '"', escape '\'; map ',' in the parts to ' ' so that the same vectors exercise it
    std::vector<std::string> p2 = parts; for (auto& x : p2) for (auto& c : x) { if (c == ',') c = ' '; else if (c == ' ') c = ','; }
    std::vector<std::string> back; bool ok = true;
    try { back = tlx::split_quoted(tlx::join_quoted(p2)); } catch (const std::exception&) { ok = false; }
    for (auto& x : back) for (auto& c : x) { if (c == ' ') c = ','; else if (c == ',') c = ' '; }
    e.raw("quoted_back_default", ok ? BV(back) : "[[-2]]");
    e.emit(out);
}

int main(int argc, char** argv) {
    if (argc < 3) return 2;
    std::ifstream in(argv[1]);
    Out out; out.open(argv[2]); install_terminate(out);
    Ev("reset").emit(out);
    std::string line;
    auto rd = [](std::istringstream& is) { size_t n; is >> n; std::string s(n, 0); for (auto& c : s) { int x; is >> x; c = (char)x; } return s; };
    while (std::getline(in, line)) {
        if (line.empty()) continue;
        std::istringstream is(line);
        char kind; is >> kind;
        if (kind == 'P') { std::string s = rd(is), t = rd(is); pair_event(out, s, t); }
        else { size_t np; is >> np; std::vector<std::string> parts; for (size_t i = 0; i < np; ++i) parts.push_back(rd(is)); std::string glue = rd(is); vec_event(out, parts, glue); }
    }
    out.flush();
    return 0;
}
