// C04 driver: parallel string sample sort (PS5) under vsched.
// script line: seed n { len b... }xn
// Every line runs in a forked child and is sorted under several configurations:
//   parameter set (default front ends / tiny thresholds / no sequential sample sort / no work sharing) x LCP x threads x schedule
#include <common/ndjson.hpp>
#include <tlx/sort/strings_parallel.hpp>
#include <tlx/sort/strings/parallel_sample_sort.hpp>
#include <fstream>
#include <malloc.h>
#include <map>
#include <sys/wait.h>
using namespace vf;
using namespace tlx::sort_strings_detail;

#if !defined(__SANITIZE_ADDRESS__) && !defined(__SANITIZE_THREAD__) && !defined(NO_POISON)
// freed blocks are poisoned and never reused inside one (short-lived) child: a step object touched after
// `delete this` shows poisoned pointers / a dead vsched magic instead of silently working
void operator delete(void* p) noexcept { if (p) std::memset(p, 0xDD, malloc_usable_size(p)); }
void operator delete(void* p, size_t) noexcept { if (p) std::memset(p, 0xDD, malloc_usable_size(p)); }
void operator delete[](void* p) noexcept { if (p) std::memset(p, 0xDD, malloc_usable_size(p)); }
void operator delete[](void* p, size_t) noexcept { if (p) std::memset(p, 0xDD, malloc_usable_size(p)); }
#endif

struct PTiny1 : public PS5ParametersDefault { static const size_t smallsort_threshold = 4; static const size_t inssort_threshold = 2; static const unsigned TreeBits = 2;
    using Classify = SSClassifyTreeCalcUnrollInterleave<key_type, TreeBits>; };
struct PTiny2 : public PS5ParametersDefault { static const size_t smallsort_threshold = 64; static const size_t inssort_threshold = 8; static const unsigned TreeBits = 3;
    using Classify = SSClassifyTreeCalcUnrollInterleave<key_type, TreeBits>; };
struct PTiny3 : public PS5ParametersDefault { static const size_t smallsort_threshold = 1024; static const size_t inssort_threshold = 32; static const unsigned TreeBits = 4;
    using Classify = SSClassifyTreeCalcUnrollInterleave<key_type, TreeBits>; };
struct PTiny4 : public PS5ParametersDefault { static const size_t smallsort_threshold = 128; static const size_t inssort_threshold = 4; static const unsigned TreeBits = 2;
    using Classify = SSClassifyTreeCalcUnrollInterleave<key_type, TreeBits>; };      // few large buckets, deep multikey quicksort inside the sequential sample sort
struct PBig1 : public PS5ParametersDefault { static const size_t smallsort_threshold = 4096; static const size_t inssort_threshold = 32; static const unsigned TreeBits = 3;
    using Classify = SSClassifyTreeCalcUnrollInterleave<key_type, TreeBits>; };      // one job of exactly 4096 strings: nested sequential sample sort levels above multikey quicksort
struct PNoSeqSS : public PTiny2 { static const bool enable_sequential_sample_sort = false; };
struct PNoShare : public PTiny1 { static const bool enable_work_sharing = false; };
struct PTree10 : public PS5ParametersDefault { static const size_t smallsort_threshold = 256; static const size_t inssort_threshold = 16; };
struct PUnroll : public PS5ParametersDefault { static const size_t smallsort_threshold = 32; static const size_t inssort_threshold = 4;
    using Classify = SSClassifyTreeUnrollInterleave<key_type, 3>; };
struct PEqual : public PS5ParametersDefault { static const size_t smallsort_threshold = 48; static const size_t inssort_threshold = 4;
    using Classify = SSClassifyEqualUnroll<key_type, 3>; };      // the third classifier of sample_sort_tools.hpp (equality test at every inner node)

#if defined(TLX_VERIF_HOOKS)
// step life-cycle events from the TLX_VERIF_PS5 hooks, in execution order (under the shim one thread runs at a time and the
// hook sits right behind the visible operation it reports, so no other thread's operation can come in between)
struct HookEv { int tid; const char* ev; const void* step; const void* other; size_t n; };
static std::vector<HookEv> g_hook;
void tlx_verif_ps5_event(const char* ev, const void* step, const void* other, size_t n) { g_hook.push_back({vsched::self(), ev, step, other, n}); }
#endif

static const char* PNAME[] = {"default-frontend", "tiny1", "tiny2", "tiny3", "no-seq-samplesort", "no-work-sharing", "treebits10", "unroll-classifier", "tiny4", "seqss4096", "equal-classifier"};

static std::string BB(const std::vector<std::string>& v) {
    std::string o = "[";
    for (size_t i = 0; i < v.size(); ++i) { o += std::string(i ? "," : "") + "["; for (size_t j = 0; j < v[i].size(); ++j) o += std::string(j ? "," : "") + std::to_string((unsigned char)v[i][j]); o += "]"; }
    return o + "]";
}

static void one(Out& out, const std::vector<std::string>& strs, int pset, bool lcp, int threads, uint64_t seed, int strat) {
    size_t n = strs.size();
    std::vector<std::vector<unsigned char>> store(n);
    std::vector<unsigned char*> ptrs(n); std::map<const void*, long long> id;
    for (size_t i = 0; i < n; ++i) { store[i].assign(strs[i].begin(), strs[i].end()); store[i].push_back(0); ptrs[i] = store[i].data(); id[ptrs[i]] = (long long)i + 1; }
    std::vector<std::uint32_t> lcps(n + 1, 0xABCDEF);
    vsched::set_hardware_concurrency(threads);
    vsched::Config cfg; cfg.seed = seed; cfg.strategy = strat; cfg.pct_depth = 3; cfg.pct_steps = 2000; cfg.max_steps = 20000000;
    cfg.post_points = (seed >> 7) & 1;
    const int fe = pset == 0 ? (int)((seed >> 3) % 10) : -1;
    std::vector<std::string> sv = strs;                  // std::string front ends (8, 9): objects are identified by content
    vsched::Result res = vsched::run([&] {
        UCharStringSet ss(ptrs.data(), ptrs.data() + n);
        if (pset == 0) {
            // the library front ends: all ten argument forms of sort_strings_parallel / sort_strings_parallel_lcp in rotation
            std::uint32_t* L = lcps.data();
            switch (fe) {
            case 0: if (lcp) tlx::sort_strings_parallel_lcp(ptrs.data(), n, L); else tlx::sort_strings_parallel(ptrs.data(), n); break;
            case 1: { char** p = reinterpret_cast<char**>(ptrs.data()); if (lcp) tlx::sort_strings_parallel_lcp(p, n, L); else tlx::sort_strings_parallel(p, n); break; }
            case 2: { const unsigned char** p = const_cast<const unsigned char**>(ptrs.data()); if (lcp) tlx::sort_strings_parallel_lcp(p, n, L); else tlx::sort_strings_parallel(p, n); break; }
            case 3: { const char** p = const_cast<const char**>(reinterpret_cast<char**>(ptrs.data())); if (lcp) tlx::sort_strings_parallel_lcp(p, n, L); else tlx::sort_strings_parallel(p, n); break; }
            case 4: { std::vector<char*> v(n); for (size_t i = 0; i < n; ++i) v[i] = reinterpret_cast<char*>(ptrs[i]);
                      if (lcp) tlx::sort_strings_parallel_lcp(v, L); else tlx::sort_strings_parallel(v); for (size_t i = 0; i < n; ++i) ptrs[i] = reinterpret_cast<unsigned char*>(v[i]); break; }
            case 5: if (lcp) tlx::sort_strings_parallel_lcp(ptrs, L); else tlx::sort_strings_parallel(ptrs); break;
            case 6: { std::vector<const char*> v(n); for (size_t i = 0; i < n; ++i) v[i] = reinterpret_cast<const char*>(ptrs[i]);
                      if (lcp) tlx::sort_strings_parallel_lcp(v, L); else tlx::sort_strings_parallel(v); for (size_t i = 0; i < n; ++i) ptrs[i] = reinterpret_cast<unsigned char*>(const_cast<char*>(v[i])); break; }
            case 7: { std::vector<const unsigned char*> v(n); for (size_t i = 0; i < n; ++i) v[i] = ptrs[i];
                      if (lcp) tlx::sort_strings_parallel_lcp(v, L); else tlx::sort_strings_parallel(v); for (size_t i = 0; i < n; ++i) ptrs[i] = const_cast<unsigned char*>(v[i]); break; }
            case 8: if (lcp) tlx::sort_strings_parallel_lcp(sv.data(), n, L); else tlx::sort_strings_parallel(sv.data(), n); break;
            default: if (lcp) tlx::sort_strings_parallel_lcp(sv, L); else tlx::sort_strings_parallel(sv); break;
            }
            return;
        }
#define RUNP(P) do { if (lcp) parallel_sample_sort_params<P>(StringLcpPtr<UCharStringSet, std::uint32_t>(ss, lcps.data()), 0, 0); else parallel_sample_sort_params<P>(StringPtr<UCharStringSet>(ss), 0, 0); } while (0)
        switch (pset) { case 1: RUNP(PTiny1); break; case 2: RUNP(PTiny2); break; case 3: RUNP(PTiny3); break; case 4: RUNP(PNoSeqSS); break; case 5: RUNP(PNoShare); break; case 6: RUNP(PTree10); break; case 8: RUNP(PTiny4); break; case 9: RUNP(PBig1); break; case 10: RUNP(PEqual); break; default: RUNP(PUnroll); break; }
    }, cfg);
#if defined(TLX_VERIF_HOOKS)
    {
        std::string evs = "[";
        for (size_t i = 0; i < g_hook.size(); ++i) {
            auto& h = g_hook[i];
            evs += std::string(i ? "," : "") + "[" + std::to_string(h.tid) + ",\"" + h.ev + "\"," + std::to_string((unsigned long long)(uintptr_t)h.step) + "," + std::to_string((unsigned long long)(uintptr_t)h.other) + "," + std::to_string(h.n) + "]";
        }
        Ev e("ps5"); e.boolean("lcp", lcp).str("params", PNAME[pset]).num("threads", threads).num("n", (long long)n).raw("ev", evs + "]").boolean("complete", !(res.deadlock || res.livelock));
        e.emit(out); g_hook.clear();
    }
#endif
    std::vector<long long> outidx;
    if (fe >= 8) {       // match every output string with a not yet used input of the same content
        std::multimap<std::string, long long> pool; for (size_t i = 0; i < n; ++i) pool.emplace(strs[i], (long long)i + 1);
        for (size_t i = 0; i < n && i < sv.size(); ++i) { auto it = pool.find(sv[i]); if (it == pool.end()) outidx.push_back(-1); else { outidx.push_back(it->second); pool.erase(it); } }
    } else
    for (size_t i = 0; i < n; ++i) { auto it = id.find(ptrs[i]); outidx.push_back(it == id.end() ? -1 : it->second); }
    std::vector<long long> l(lcps.begin(), lcps.begin() + n); if (!l.empty()) l[0] = 0;
    std::string pt = "[";
    for (size_t i = 0; i < res.problems.size() && i < 3; ++i) pt += std::string(i ? "," : "") + "\"" + res.problems[i] + "\"";
    Ev e("ssort"); e.raw("in", BB(strs)).arr("out", outidx).boolean("haslcp", lcp).arr("lcp", l).num("problems", (long long)res.problems.size()).raw("problem_text", pt + "]")
        .boolean("deadlock", res.deadlock || res.livelock).str("params", PNAME[pset]).num("threads", threads).num("strategy", strat).num("steps", res.steps).num("frontend", fe);
    e.emit(out);
}

static void child(const std::string& line, const char* outpath) {
    std::istringstream is(line);
    uint64_t seed; size_t n; is >> seed >> n;
    std::vector<std::string> strs(n);
    for (auto& s : strs) { size_t len; is >> len; s.resize(len); for (auto& c : s) { int x; is >> x; c = (char)x; } }
    Out out; out.f = std::fopen(outpath, "a"); install_terminate(out);
    Ev("reset").emit(out);
    vsched::set_abort_handler([&](vsched::Result& r) {
        Ev e("ssort"); e.raw("in", BB(strs)).raw("out", "[]").boolean("haslcp", false).raw("lcp", "[]").num("problems", (long long)r.problems.size() + 1)
            .raw("problem_text", "[\"" + r.blocked_summary + "\"]").boolean("deadlock", true).str("params", "?").num("threads", 0).num("strategy", 0).num("steps", r.steps);
        e.emit(out); out.flush(); { vf::cov_flush(); _exit(0); }
    });
    uint64_t x = seed * 2654435761u + 12345;
    auto rnd = [&](int m) { x = x * 6364136223846793005ULL + 1442695040888963407ULL; return (int)((x >> 33) % m); };
    static const int ST[] = {vsched::RANDOM, vsched::PCT, vsched::STICKY, vsched::RUNFIRST};
    // a collection of exactly smallsort_threshold strings is one small-sort job that runs the *sequential sample sort* while the other workers are idle
    // (n > threshold goes to a parallel big step, n < threshold straight to multikey quicksort): for these sizes the matching parameter set is forced
    int forced = n == 4 ? 1 : n == 64 ? 2 : n == 1024 ? 3 : n == 256 ? 6 : n == 32 ? 7 : n == 128 ? 8 : n == 4096 ? 9 : -1;
    for (int rep = 0; rep < 6; ++rep) {
        int pset = rep == 0 ? 0 : 1 + rnd(9); if (pset == 9) pset = 10;
        // (nested sequential sample sort levels with LCP output are where a given-away piece of work can be overtaken by its parent's LCP pass: mostly PCT schedules)
        if (forced == 9 && rep >= 1) { one(out, strs, 9, rep != 4, 2 + rnd(2), x + rep, rep == 3 ? vsched::STICKY : vsched::PCT); continue; }
        if (forced > 0 && rep >= 1) { one(out, strs, forced, rep % 2, 2 + rnd(3), x + rep, ST[rep % 4]); continue; }
        one(out, strs, pset, rnd(2), 1 + rnd(4), x, ST[rnd(4)]);
    }
    // the overtaking needs two workers and a particular preemption: many PCT schedules of the same 4096-string job are cheap under the shim
    if (forced == 9) for (int rep = 6; rep < 18; ++rep) one(out, strs, 9, true, 2, x * 31 + rep, vsched::PCT);
    out.flush();
    { vf::cov_flush(); _exit(0); }
}

int main(int argc, char** argv) {
    if (argc < 3) return 2;
    std::ifstream in(argv[1]);
    { FILE* f = std::fopen(argv[2], "w"); std::fclose(f); }
    std::string line; int bad = 0;
    while (std::getline(in, line)) {
        if (line.empty()) continue;
        pid_t p = fork();
        if (p == 0) { alarm(180); child(line, argv[2]); }
        int st = 0; waitpid(p, &st, 0);
        if (!WIFEXITED(st) || WEXITSTATUS(st) != 0) {
            ++bad;
            FILE* f = std::fopen(argv[2], "a");
            std::fprintf(f, "{\"e\":\"reset\"}\n{\"e\":\"crash\",\"status\":%d,\"line\":\"%.200s\"}\n", st, line.c_str());
            std::fclose(f);
        }
    }
    return bad ? 1 : 0;
}
