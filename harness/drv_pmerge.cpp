// C07 driver: parallel multiway merge under vsched with access-instrumented elements.
// script line: k {len key...}xk  L  seed
// Every line runs in a forked child and exercises a set of configurations:
//   stable x {exact, sampling} x thread counts x oversampling x algorithm x front end (base / parallel_multiway_merge with force flags)
#include <common/ndjson.hpp>
#include <tlx/algorithm/parallel_multiway_merge.hpp>
#include <fstream>
#include <limits>
#include <map>
#include <sys/wait.h>
#include <mutex>
using namespace vf;
#ifdef NO_VSCHED
static std::mutex g_wm;          // real threads (TSan monitor build): the write log needs its own lock
#define WLOCK std::lock_guard<std::mutex> wl_(g_wm)
#else
#define WLOCK
#endif

static const void* g_tbeg = nullptr; static const void* g_tend = nullptr;     // target range
static std::map<const void*, std::vector<int>> g_writes;                       // target cell -> writer threads

struct TElem {
    long long key = -777; long long src = -1; long long pos = -1;
    TElem() = default;
    TElem(long long k, long long s, long long p) : key(k), src(s), pos(p) {}
    TElem(const TElem& o) : key(o.key), src(o.src), pos(o.pos) { vsched::access(&o, false); note_write(); }
    TElem& operator=(const TElem& o) { vsched::access(&o, false); key = o.key; src = o.src; pos = o.pos; note_write(); return *this; }
    void note_write() { vsched::access(this, true); if ((const void*)this >= g_tbeg && (const void*)this < g_tend) { WLOCK; g_writes[this].push_back(vsched::self()); } }
};
VF_DECOY_ORDER(TElem, key)
struct TLess { bool operator()(const TElem& a, const TElem& b) const { vsched::access(&a, false); vsched::access(&b, false); return a.key < b.key; } };

static void one(Out& out, const std::vector<std::vector<long long>>& keys, long long L, bool stable, int mwmsa, int threads, int oversampling, int mwma, int front, uint64_t seed, int strat) {
    size_t k = keys.size();
    std::vector<std::vector<TElem>> data(k);
    for (size_t i = 0; i < k; ++i) for (size_t p = 0; p < keys[i].size(); ++p) data[i].emplace_back(keys[i][p], (long long)i + 1, (long long)p + 1);
    using It = std::vector<TElem>::iterator;
    std::vector<std::pair<It, It>> seqs;
    // fronts 3 / 4: the *_sentinels entry points (forced parallel / forced sequential): every sequence is followed by an element greater than all real ones
    const bool sentinels = front >= 3;
    if (sentinels) for (size_t i = 0; i < k; ++i) data[i].emplace_back(std::numeric_limits<long long>::max(), (long long)i + 1, -5);
    for (size_t i = 0; i < k; ++i) seqs.push_back({data[i].begin(), data[i].end() - (sentinels ? 1 : 0)});
    std::vector<It> begin0; for (auto& s : seqs) begin0.push_back(s.first);
    std::vector<TElem> target(L + 2);
    g_tbeg = target.data(); g_tend = target.data() + target.size(); g_writes.clear();
    vsched::clear_watches(); vsched::watch(g_tbeg, g_tend);
    for (auto& d : data) if (!d.empty()) vsched::watch(d.data(), d.data() + d.size());
    tlx::parallel_multiway_merge_oversampling = oversampling;
    tlx::parallel_multiway_merge_force_parallel = (front == 1 || front == 3);
    tlx::parallel_multiway_merge_force_sequential = (front == 2 || front == 4);
    auto m = static_cast<tlx::MultiwayMergeAlgorithm>(mwma);
    auto sa = static_cast<tlx::MultiwayMergeSplittingAlgorithm>(mwmsa);
    long long nout = -1;
    vsched::Config cfg; cfg.seed = seed; cfg.strategy = strat;
    vsched::Result res = vsched::run([&] {
        It ret;
        VF_Stateful<TLess> cmp(1);        // armed comparator object: see VF_Stateful
        if (front == 0) ret = stable ? tlx::parallel_multiway_merge_base<true>(seqs.begin(), seqs.end(), target.begin(), L, cmp, m, sa, threads)
                                     : tlx::parallel_multiway_merge_base<false>(seqs.begin(), seqs.end(), target.begin(), L, cmp, m, sa, threads);
        else if (sentinels) ret = stable ? tlx::stable_parallel_multiway_merge_sentinels(seqs.begin(), seqs.end(), target.begin(), L, cmp, m, sa, threads)
                                         : tlx::parallel_multiway_merge_sentinels(seqs.begin(), seqs.end(), target.begin(), L, cmp, m, sa, threads);
        else ret = stable ? tlx::stable_parallel_multiway_merge(seqs.begin(), seqs.end(), target.begin(), L, cmp, m, sa, threads)
                          : tlx::parallel_multiway_merge(seqs.begin(), seqs.end(), target.begin(), L, cmp, m, sa, threads);
        nout = ret - target.begin();
    }, cfg);
    // each output position written by exactly one thread, none outside
    bool writes_ok = true;
    for (long long n = 0; n < L; ++n) { auto it = g_writes.find(&target[n]); if (it == g_writes.end() || it->second.size() != 1) writes_ok = false; }
    for (long long n = L; n < (long long)target.size(); ++n) if (g_writes.count(&target[n])) writes_ok = false;
    std::string sj = "[", oj = "[";
    for (size_t i = 0; i < k; ++i) sj += std::string(i ? "," : "") + jarr(keys[i]);
    for (long long n = 0; n < L; ++n) oj += std::string(n ? "," : "") + "[" + std::to_string(target[n].key) + "," + std::to_string(target[n].src) + "," + std::to_string(target[n].pos) + "]";
    std::vector<long long> adv; for (size_t i = 0; i < k; ++i) adv.push_back(seqs[i].first - begin0[i]);
    std::string pt = "[";
    for (size_t i = 0; i < res.problems.size() && i < 3; ++i) pt += std::string(i ? "," : "") + "\"" + res.problems[i] + "\"";
    // who wrote which output position (shim thread numbers: thread iam of the merge is shim thread iam + 1); -1 = nobody or more than one
    std::vector<long long> writers;
    for (long long n = 0; n < L; ++n) { auto it = g_writes.find(&target[n]); writers.push_back(it != g_writes.end() && it->second.size() == 1 ? it->second[0] : -1); }
    Ev e("merge"); e.raw("seqs", sj + "]").num("len", L).boolean("stable", stable).raw("out", oj + "]").num("ret", nout).arr("adv", adv)
        .boolean("parallel", true).boolean("writes_ok", writes_ok).num("problems", (long long)res.problems.size() + (res.deadlock ? 1 : 0)).raw("problem_text", pt + "]")
        .num("mwmsa", mwmsa).num("threads", threads).num("oversampling", oversampling).num("mwma", mwma).num("front", front);
#ifndef NO_VSCHED
    e.arr("writers", writers);
#endif
    e.emit(out);
}

static void child(const std::string& line, const char* outpath) {
    std::istringstream is(line);
    size_t k; is >> k;
    std::vector<std::vector<long long>> keys(k);
    for (auto& s : keys) { size_t len; is >> len; s.resize(len); for (auto& x : s) is >> x; }
    long long L; uint64_t seed; is >> L >> seed;
    Out out; out.f = std::fopen(outpath, "a"); install_terminate(out);
    Ev("reset").emit(out);
    static const int TH[] = {1, 2, 3, 4, 5, 7, 8, 16, 32};
    uint64_t x = seed * 2654435761u + 17;
    auto rnd = [&](int n) { x = x * 6364136223846793005ULL + 1442695040888963407ULL; return (int)((x >> 33) % n); };
    for (int stable = 0; stable < 2; ++stable) for (int mwmsa = 0; mwmsa < 2; ++mwmsa) for (int rep = 0; rep < 4; ++rep) {
        int threads = rep == 0 ? TH[rnd(4)] : TH[rnd(9)];
        static const int OS[] = {1, 2, 10};
        int front = rep == 3 ? (rnd(4) == 0 ? 4 : 3) : (rnd(8) == 0 ? 2 : rnd(2));
        one(out, keys, L, stable, mwmsa, threads, OS[rnd(3)], rnd(4), front, x, rnd(3) == 0 ? vsched::RUNFIRST : vsched::RANDOM);
    }
    out.flush();
    { vf::cov_flush(); _exit(0); }
}

int main(int argc, char** argv) {
    if (argc < 3) return 2;
    std::ifstream in(argv[1]);
    { FILE* f = std::fopen(argv[2], "w"); std::fclose(f); }
    std::string line; int bad = 0;
    while (std::getline(in, line)) {
        if (line.empty()) continue;
        pid_t p = fork();
        if (p == 0) { alarm(60); child(line, argv[2]); }
        int st = 0; waitpid(p, &st, 0);
        if (!WIFEXITED(st) || WEXITSTATUS(st) != 0) {
            ++bad;
            FILE* f = std::fopen(argv[2], "a");
            std::fprintf(f, "{\"e\":\"reset\"}\n{\"e\":\"crash\",\"status\":%d,\"line\":\"%s\"}\n", st, line.c_str());
            std::fclose(f);
        }
    }
    return bad ? 1 : 0;
}
