// C09 driver: replays replace-the-winner scripts on every tlx loser tree class.
// script line:  k stable guarded  key_0..key_{k-1}  n  x_1..x_n      (0 = exhausted)
// usage: drv_losertree <script> <trace-out>
#include <common/ndjson.hpp>
#include <tlx/container/loser_tree.hpp>
#include <fstream>
#include <iostream>

using namespace vf;

// rank -> concrete value per comparator flavour
struct Big { long long v; char pad[40]; Big() : v(0) {} Big(long long x) : v(x) {} };  // forces the pointer tree in LoserTreeSwitch
VF_DECOY_ORDER(Big, v)
struct LessBig { bool operator()(const Big& a, const Big& b) const { return a.v < b.v; } };
struct GreaterBig { bool operator()(const Big& a, const Big& b) const { return a.v > b.v; } };
struct WeakBig { bool operator()(const Big& a, const Big& b) const { return a.v / 10 < b.v / 10; } };
struct WeakInt { bool operator()(long long a, long long b) const { return a / 10 < b / 10; } };

// the trees get comparator OBJECTS with run-time state (VF_Stateful, armed); a tree that default-constructs its own comparator orders in reverse
using SLessLL = VF_Stateful<std::less<long long>>; using SGreaterLL = VF_Stateful<std::greater<long long>>; using SWeakInt = VF_Stateful<WeakInt>;
using SLessBig = VF_Stateful<LessBig>; using SGreaterBig = VF_Stateful<GreaterBig>; using SWeakBig = VF_Stateful<WeakBig>;
enum CmpKind { CLess = 0, CGreater = 1, CWeak = 2 };
static long long conc(int cmp, long long rank, int salt) {
    switch (cmp) {
    case CLess: return rank;
    case CGreater: return 1000 - rank;
    default: return rank * 10 + (salt % 10);   // equivalence classes of ten values
    }
}

template <class Tree, class V, bool Guarded>
struct Runner {
    template <class Cmp>
    static void run(Out& out, const char* variant, int cmpk, bool stable, int k, const std::vector<long long>& keys,
                    const std::vector<long long>& xs) {
        long long sentinel = (cmpk == CGreater) ? conc(cmpk, 900, 0) : conc(cmpk, 90, 9);
        Tree* tp;
        V sentinel_obj(sentinel);       // the pointer variants keep its address
        if constexpr (Guarded) tp = new Tree(k, Cmp(1));
        else tp = new Tree(k, sentinel_obj, Cmp(1));
        Tree& t = *tp;
        std::vector<V> store; store.reserve(keys.size() + xs.size() + 4);
        int salt = 3;
        // the players are registered in ascending, descending or rotated order (the tree must not depend on player 0 coming first)
        long long ksum = 0; for (int p = 0; p < k; ++p) ksum += keys[p];
        const int order_mode = (int)((k + ksum) % 3);
        for (int i = 0; i < k; ++i) {
            int p = order_mode == 0 ? i : order_mode == 1 ? k - 1 - i : (i + k / 2) % k;
            if (keys[p] == 0) t.insert_start(nullptr, p, true);
            else { store.emplace_back(conc(cmpk, keys[p], 3 + 7 * (p + 1))); t.insert_start(&store.back(), p, false); }
        }
        salt += 7 * k;
        t.init();
        auto w = [&]() { auto s = t.min_source(); return s == Tree::invalid_ ? -1LL : (long long)s; };
        long long win = w();
        Ev("reset").num("k", k).boolean("stable", stable).boolean("guarded", Guarded)
            .arr("keys", keys).num("w", win).str("variant", variant).num("cmp", cmpk).emit(out);
        std::vector<long long> cur = keys;
        for (long long x : xs) {
            bool live = false;
            for (auto c : cur) live |= (c != 0);
            if (!live || win < 0 || win >= k) break;   // caller contract: stop when everything is exhausted
            if (!Guarded && x == 0) continue;          // unguarded: never exhaust
            if (x == 0) t.delete_min_insert(nullptr, true);
            else { store.emplace_back(conc(cmpk, x, salt += 7)); t.delete_min_insert(&store.back(), false); }
            cur[win] = x;
            win = w();
            Ev("replace").num("x", x).num("w", win).emit(out);
        }
        delete tp;
    }
};

template <bool Stable>
static void run_all(Out& out, bool guarded, int k, const std::vector<long long>& keys, const std::vector<long long>& xs) {
    using namespace tlx;
    if (guarded) {
        Runner<LoserTreeCopy<Stable, long long, SLessLL>, long long, true>::template run<SLessLL>(out, "Copy", CLess, Stable, k, keys, xs);
        Runner<LoserTreeCopy<Stable, long long, SGreaterLL>, long long, true>::template run<SGreaterLL>(out, "Copy", CGreater, Stable, k, keys, xs);
        Runner<LoserTreeCopy<Stable, long long, SWeakInt>, long long, true>::template run<SWeakInt>(out, "Copy", CWeak, Stable, k, keys, xs);
        Runner<LoserTreePointer<Stable, Big, SLessBig>, Big, true>::template run<SLessBig>(out, "Pointer", CLess, Stable, k, keys, xs);
        Runner<LoserTreePointer<Stable, Big, SGreaterBig>, Big, true>::template run<SGreaterBig>(out, "Pointer", CGreater, Stable, k, keys, xs);
        Runner<LoserTreePointer<Stable, Big, SWeakBig>, Big, true>::template run<SWeakBig>(out, "Pointer", CWeak, Stable, k, keys, xs);
        // the size-selected aliases used by multiway_merge
        Runner<LoserTree<Stable, long long, SLessLL>, long long, true>::template run<SLessLL>(out, "SwitchSmall", CLess, Stable, k, keys, xs);
        Runner<LoserTree<Stable, Big, SWeakBig>, Big, true>::template run<SWeakBig>(out, "SwitchBig", CWeak, Stable, k, keys, xs);
    } else {
        Runner<LoserTreeCopyUnguarded<Stable, long long, SLessLL>, long long, false>::template run<SLessLL>(out, "CopyU", CLess, Stable, k, keys, xs);
        Runner<LoserTreeCopyUnguarded<Stable, long long, SGreaterLL>, long long, false>::template run<SGreaterLL>(out, "CopyU", CGreater, Stable, k, keys, xs);
        Runner<LoserTreeCopyUnguarded<Stable, long long, SWeakInt>, long long, false>::template run<SWeakInt>(out, "CopyU", CWeak, Stable, k, keys, xs);
        Runner<LoserTreePointerUnguarded<Stable, Big, SLessBig>, Big, false>::template run<SLessBig>(out, "PointerU", CLess, Stable, k, keys, xs);
        Runner<LoserTreePointerUnguarded<Stable, Big, SGreaterBig>, Big, false>::template run<SGreaterBig>(out, "PointerU", CGreater, Stable, k, keys, xs);
        Runner<LoserTreePointerUnguarded<Stable, Big, SWeakBig>, Big, false>::template run<SWeakBig>(out, "PointerU", CWeak, Stable, k, keys, xs);
        Runner<LoserTreeUnguarded<Stable, long long, SLessLL>, long long, false>::template run<SLessLL>(out, "SwitchSmallU", CLess, Stable, k, keys, xs);
        Runner<LoserTreeUnguarded<Stable, Big, SWeakBig>, Big, false>::template run<SWeakBig>(out, "SwitchBigU", CWeak, Stable, k, keys, xs);
    }
}

int main(int argc, char** argv) {
    if (argc < 3) return 2;
    std::ifstream in(argv[1]);
    Out out; out.open(argv[2]); install_terminate(out);
    std::string line;
    while (std::getline(in, line)) {
        if (line.empty()) continue;
        std::istringstream is(line);
        int k, stable, guarded; is >> k >> stable >> guarded;
        auto keys = read_ints(is, k);
        size_t n; is >> n;
        auto xs = read_ints(is, n);
        if (stable) run_all<true>(out, guarded, k, keys, xs);
        else run_all<false>(out, guarded, k, keys, xs);
    }
    out.flush();
    return 0;
}
