// C11 driver (Semaphore): N worker threads run call programs on one tlx::Semaphore under vsched.
// script line: initial N { ncalls { op a b }* }xN  strategy seed  nscript tid... nwaiters idx...
//   op: 0 signal()  1 signal(a)  2 wait(a,b)  3 try_acquire(a,b)
#include <common/ndjson.hpp>
#include <tlx/semaphore.hpp>
#include <fstream>
#include <sys/wait.h>
using namespace vf;

static std::vector<std::string> g_ev;
static long long g_final = -1;                    // Semaphore::value() after all threads have finished (-1: the execution did not get there)
struct Call { int op; long a, b; };
static std::vector<size_t> g_pos;                 // calls completed per thread
static std::vector<std::vector<Call>> g_prog;

static void write_out(const char* path, const vsched::Result& r, const std::vector<int>& done, int N) {
    FILE* f = std::fopen(path, "a");
    for (auto& e : g_ev) { std::fputs(e.c_str(), f); std::fputc('\n', f); }
    std::string bl = "[";
    bool first = true;
    for (int t = 1; t <= N; ++t) if (!done[t]) { bl += std::string(first ? "" : ",") + std::to_string(t); first = false; }
    bl += "]";
    std::string br = "[";
    first = true;
    for (int t = 1; t <= N; ++t) if (!done[t] && g_pos[t] < g_prog[t].size()) { const Call& c = g_prog[t][g_pos[t]]; br += std::string(first ? "" : ",") + "[" + std::to_string(c.a) + "," + std::to_string(c.b) + "]"; first = false; }
    br += "]";
    std::string pr = "[";
    for (size_t i = 0; i < r.problems.size(); ++i) pr += std::string(i ? "," : "") + "\"" + r.problems[i] + "\"";
    pr += "]";
    std::fprintf(f, "{\"e\":\"end\",\"final\":%lld,\"blocked\":%s,\"blocked_req\":%s,\"problems\":%zu,\"problem_text\":%s,\"deadlock\":%s,\"diverged\":%s,\"steps\":%ld}\n", g_final, bl.c_str(), br.c_str(), r.problems.size(),
                 pr.c_str(), r.deadlock ? "true" : "false", r.diverged ? "true" : "false", r.steps);
    std::fclose(f);
}

static void child(const std::string& line, const char* outpath) {
    std::istringstream is(line);
    long initial; int N; is >> initial >> N;
    std::vector<std::vector<Call>> prog(N + 1);
    for (int t = 1; t <= N; ++t) { size_t n; is >> n; prog[t].resize(n); for (auto& c : prog[t]) is >> c.op >> c.a >> c.b; }
    g_prog = prog; g_pos.assign(N + 2, 0);
    vsched::Config cfg; int strat; is >> strat >> cfg.seed; cfg.strategy = strat;
    size_t ns; is >> ns; cfg.script.resize(ns); for (auto& x : cfg.script) is >> x;
    size_t nw; is >> nw; cfg.waiter_script.resize(nw); for (auto& x : cfg.waiter_script) is >> x;
    cfg.guided_kinds = (1u << vsched::K_LOCK) | (1u << vsched::K_UNLOCK) | (1u << vsched::K_CVWAIT) | (1u << vsched::K_NOTIFY_ONE) | (1u << vsched::K_NOTIFY_ALL);
    std::string pj = "[";
    static const char* OPN[] = {"signal", "signaln", "wait", "try"};
    for (int t = 1; t <= N; ++t) {
        pj += std::string(t > 1 ? "," : "") + "[";
        for (size_t i = 0; i < prog[t].size(); ++i) {
            const Call& c = prog[t][i];
            long n = c.op == 0 ? 1 : c.op == 1 ? c.a : 0, d = c.op >= 2 ? c.a : 0, s = c.op >= 2 ? c.b : 0;
            pj += std::string(i ? "," : "") + "{\"op\":\"" + OPN[c.op] + "\",\"n\":" + std::to_string(n) + ",\"d\":" + std::to_string(d) + ",\"s\":" + std::to_string(s) + "}";
        }
        pj += "]";
    }
    pj += "]";
    g_ev.push_back("{\"e\":\"reset\",\"initial\":" + std::to_string(initial) + ",\"prog\":" + pj + ",\"strategy\":" + std::to_string(strat) + ",\"seed\":" + std::to_string(cfg.seed) + "}");
    int mid = -1, cid = -1; size_t last_notify = 0;
    std::vector<int> done(N + 2, 0);
    vsched::set_observer([&](int tid, int kind, int objid, long long before, long long) {
        if (objid != mid && objid != cid) return;
        const char* n = nullptr;
        switch (kind) {
        case vsched::K_LOCK: n = "lock"; break;
        case vsched::K_UNLOCK: n = "unlock"; break;
        case vsched::K_CVWAIT: n = "cvwait"; break;
        case vsched::K_NOTIFY_ALL: n = "notify_all"; break;
        case vsched::K_NOTIFY_ONE: last_notify = g_ev.size(); g_ev.push_back("{\"e\":\"notify_one\",\"t\":" + std::to_string(tid) + ",\"woken\":0}"); return;
        case vsched::K_USER: g_ev[last_notify] = "{\"e\":\"notify_one\",\"t\":" + std::to_string(tid) + ",\"woken\":" + std::to_string(before) + "}"; return;
        default: return;
        }
        g_ev.push_back(std::string("{\"e\":\"") + n + "\",\"t\":" + std::to_string(tid) + "}");
    });
    vsched::set_abort_handler([&](vsched::Result& r) { write_out(outpath, r, done, N); { vf::cov_flush(); _exit(0); } });
    auto res = vsched::run([&] {
        mid = vsched::Runtime::new_object_id() + 1; cid = mid + 1;
        tlx::Semaphore sem(initial);
        auto body = [&](int t) {
            for (const Call& c : prog[t]) {
                long long v = 0;
                switch (c.op) {
                case 0: v = sem.signal(); break;
                case 1: v = sem.signal(c.a); break;
                case 2: v = sem.wait(c.a, c.b); break;
                case 3: v = sem.try_acquire(c.a, c.b) ? 1 : 0; break;
                }
                {
                    static const char* OPN2[] = {"signal", "signaln", "wait", "try"};
                    long n = c.op == 0 ? 1 : c.op == 1 ? c.a : 0, d = c.op >= 2 ? c.a : 0, s = c.op >= 2 ? c.b : 0;
                    g_ev.push_back("{\"e\":\"ret\",\"t\":" + std::to_string(t) + ",\"val\":" + std::to_string(v) + ",\"op\":\"" + OPN2[c.op] + "\",\"n\":" + std::to_string(n) +
                                   ",\"d\":" + std::to_string(d) + ",\"s\":" + std::to_string(s) + "}");
                }
                ++g_pos[t];
            }
            done[t] = 1;
        };
        std::vector<vsched::thread> th;
        for (int t = 1; t <= N; ++t) th.emplace_back(body, t);
        for (auto& x : th) x.join();
        g_final = (long long)sem.value();
    }, cfg);
    write_out(outpath, res, done, N);
    { vf::cov_flush(); _exit(0); }
}

int main(int argc, char** argv) {
    if (argc < 3) return 2;
    std::ifstream in(argv[1]);
    { FILE* f = std::fopen(argv[2], "w"); std::fclose(f); }
    std::string line; int bad = 0;
    while (std::getline(in, line)) {
        if (line.empty()) continue;
        pid_t p = fork();
        if (p == 0) { alarm(20); child(line, argv[2]); }
        int st = 0; waitpid(p, &st, 0);
        if (!WIFEXITED(st) || WEXITSTATUS(st) != 0) {
            ++bad;
            FILE* f = std::fopen(argv[2], "a");
            std::fprintf(f, "{\"e\":\"reset\",\"initial\":0,\"prog\":[],\"crashed\":true,\"status\":%d}\n", st);
            std::fclose(f);
        }
    }
    return bad ? 1 : 0;
}
