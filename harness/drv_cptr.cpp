// C12 driver (sequential half): replays handle-operation scripts on tlx::CountingPtr.
// Handles 1..3 are CountingPtr<Base, D>, handles 4..5 CountingPtr<Derived, D>.
// script line: deleter nops { op a b }    deleter: 0 default, 1 custom logging deleter
//   ops: 0 new 1 reset 2 unify 3 copy_assign 4 move_assign 5 copy_construct 6 move_construct 7 swap(member) 8 swap(free)
#include <common/ndjson.hpp>
#include <tlx/counting_ptr.hpp>
#include <fstream>
#include <map>
#include <memory>
#include <set>
#include <type_traits>
using namespace vf;

static std::map<const void*, int> g_ids;       // live managed objects -> id (smallest free id, like CPtrA.FreshId)
static long g_err = 0, g_deleter_calls = 0, g_dtors = 0;
static int fresh_id() { std::set<int> used; for (auto& kv : g_ids) used.insert(kv.second); int i = 1; while (used.count(i)) ++i; return i; }

struct Base : public tlx::ReferenceCounter {
    Base() { g_ids[static_cast<const void*>(this)] = fresh_id(); }
    Base(const Base& o) : tlx::ReferenceCounter(o) { g_ids[static_cast<const void*>(this)] = fresh_id(); }
    virtual ~Base() { ++g_dtors; if (g_ids.erase(static_cast<const void*>(this)) == 0) ++g_err; if (reference_count() != 0) ++g_err; }
};
struct Derived : public Base { int extra = 7; };
struct LogDeleter { template <class T> void operator()(T* p) const noexcept { ++g_deleter_calls; delete p; } };

static const char* NAMES[] = {"new", "reset_handle", "unify", "copy_assign", "move_assign", "copy_construct", "move_construct", "swap", "swap",
                              "new", "reset_handle", "copy_assign", "assign_object"};
// 9: make_counting (default deleter only)  10: a = nullptr  11: a = CountingPtr(b.get()) (intrusive: a raw pointer to a managed object)  12: *a = *b (the objects)
template <class P, class T> static P make_new(std::true_type) { return tlx::make_counting<T>(); }
template <class P, class T> static P make_new(std::false_type) { return P(new T()); }

template <class D>
static void run(Out& out, int deleter, std::istringstream& is) {
    using PB = tlx::CountingPtr<Base, D>;
    using PD = tlx::CountingPtr<Derived, D>;
    g_ids.clear(); g_err = 0; g_deleter_calls = 0; g_dtors = 0;
    std::unique_ptr<PB> b[4]; std::unique_ptr<PD> d[6];
    for (int i = 1; i <= 3; ++i) b[i].reset(new PB());
    for (int i = 4; i <= 5; ++i) d[i].reset(new PD());
    auto idof = [&](const Base* p) -> int { if (!p) return 0; auto it = g_ids.find(static_cast<const void*>(p)); return it == g_ids.end() ? -1 : it->second; };
    auto emit = [&](Ev& ev) {
        std::string obs = "[";
        for (int h = 1; h <= 5; ++h) {
            const Base* p = h <= 3 ? b[h]->get() : d[h]->get();
            int id = idof(p);
            long cnt = (p && id > 0) ? (h <= 3 ? b[h]->use_count() : d[h]->use_count()) : 0;
            bool uq = (id > 0) ? (h <= 3 ? b[h]->unique() : d[h]->unique()) : false;
            bool valid = h <= 3 ? b[h]->valid() : d[h]->valid();
            if (valid != (p != nullptr)) ++g_err;
            bool emp = h <= 3 ? b[h]->empty() : d[h]->empty(); bool bl = h <= 3 ? bool(*b[h]) : bool(*d[h]);
            if (emp == valid || bl != valid) ++g_err;
            for (int k = 1; k <= 5; ++k) {          // comparison operators follow the pointer values
                if ((h <= 3) != (k <= 3)) continue;
                const Base* q = k <= 3 ? b[k]->get() : d[k]->get();
                bool eq = h <= 3 ? (*b[h] == *b[k]) : (*d[h] == *d[k]), ne = h <= 3 ? (*b[h] != *b[k]) : (*d[h] != *d[k]);
                bool lt = h <= 3 ? (*b[h] < *b[k]) : (*d[h] < *d[k]), ge = h <= 3 ? (*b[h] >= *b[k]) : (*d[h] >= *d[k]);
                if (eq != (p == q) || ne != (p != q) || lt == ge) ++g_err;
                bool eqr = h <= 3 ? (*b[h] == b[k]->get()) : (*d[h] == d[k]->get());
                if (eqr != (p == q)) ++g_err;
            }
            obs += std::string(h > 1 ? "," : "") + "{\"id\":" + std::to_string(id) + ",\"count\":" + std::to_string(cnt) + ",\"unique\":" + (uq ? "true" : "false") + "}";
        }
        obs += "]";
        std::vector<long long> live; for (auto& kv : g_ids) live.push_back(kv.second);
        std::sort(live.begin(), live.end());
        ev.raw("obs", obs); ev.arr("live", live); ev.num("lerr", g_err).num("deleter", deleter).num("dcalls", g_deleter_calls).num("dtors", g_dtors);
        ev.emit(out);
    };
    { Ev ev("reset"); emit(ev); }
    size_t nops; is >> nops;
    for (size_t n = 0; n < nops; ++n) {
        int op, a, c; is >> op >> a >> c;
        Ev ev(NAMES[op]); ev.num("a", a).num("b", c);
        bool ab = a <= 3, cb = c <= 3;
        switch (op) {
        case 0: if (ab) *b[a] = PB(new Base()); else *d[a] = PD(new Derived()); break;
        case 1: if (ab) b[a]->reset(); else d[a]->reset(); break;
        case 2: if (ab) b[a]->unify(); else d[a]->unify(); break;
        case 3: if (ab && cb) *b[a] = *b[c]; else if (ab) *b[a] = *d[c]; else *d[a] = *d[c]; break;
        case 4: if (ab && cb) *b[a] = std::move(*b[c]); else if (ab) *b[a] = std::move(*d[c]); else *d[a] = std::move(*d[c]); break;
        case 5: if (ab) { b[a].reset(); if (cb) b[a].reset(new PB(*b[c])); else b[a].reset(new PB(*d[c])); } else { d[a].reset(); d[a].reset(new PD(*d[c])); } break;
        case 6: if (ab) { b[a].reset(); if (cb) b[a].reset(new PB(std::move(*b[c]))); else b[a].reset(new PB(std::move(*d[c]))); } else { d[a].reset(); d[a].reset(new PD(std::move(*d[c]))); } break;
        case 7: if (ab) b[a]->swap(*b[c]); else d[a]->swap(*d[c]); break;
        case 8: { using tlx::swap; if (ab) swap(*b[a], *b[c]); else swap(*d[a], *d[c]); break; }
        case 9: { using IsDef = std::is_same<D, tlx::CountingPtrDefaultDeleter>; if (ab) *b[a] = make_new<PB, Base>(IsDef()); else *d[a] = make_new<PD, Derived>(IsDef()); break; }
        case 10: if (ab) *b[a] = nullptr; else *d[a] = PD(nullptr); break;
        case 11: if (ab && cb) *b[a] = PB(b[c]->get()); else if (ab) *b[a] = PB(d[c]->get()); else *d[a] = PD(d[c]->get()); break;
        case 12: if (ab && cb) **b[a] = **b[c]; else if (ab) **b[a] = **d[c]; else *(d[a]->operator->()) = *(d[c]->get()); break;
        }
        emit(ev);
    }
    for (int i = 1; i <= 3; ++i) b[i].reset();
    for (int i = 4; i <= 5; ++i) d[i].reset();
    if (!g_ids.empty()) ++g_err;               // every managed object is destroyed once the last handle is gone
    for (int i = 1; i <= 3; ++i) b[i].reset(new PB());
    for (int i = 4; i <= 5; ++i) d[i].reset(new PD());
    { Ev ev("reset"); emit(ev); }
}

int main(int argc, char** argv) {
    if (argc < 3) return 2;
    std::ifstream in(argv[1]);
    Out out; out.open(argv[2]); install_terminate(out);
    std::string line;
    while (std::getline(in, line)) {
        if (line.empty()) continue;
        std::istringstream is(line);
        int del; is >> del;
        if (del == 0) run<tlx::CountingPtrDefaultDeleter>(out, del, is); else run<LogDeleter>(out, del, is);
    }
    out.flush();
    return 0;
}
