// C08 driver: multisequence_partition / multisequence_selection on every input tuple of the script.
// script line: mode m {len k...}xm        mode 0: all ranks, 1: one rank given after the sequences
//   each tuple is run with three comparators (less on keys, greater on mirrored keys, weak order on (key,payload) pairs)
#include <common/ndjson.hpp>
#include <tlx/algorithm/multisequence_partition.hpp>
#include <tlx/algorithm/multisequence_selection.hpp>
#include <fstream>
using namespace vf;

struct KP { long long key; long long payload; };
VF_DECOY_ORDER(KP, key)
struct KPLess { bool operator()(const KP& a, const KP& b) const { return a.key < b.key; } };

// RankT: the integer type in which the caller passes the rank (and receives the selection offset); the algorithm's internal arithmetic (negative skew,
// rank / (n + 1) - leftsize) must not depend on its signedness or width
template <class T, class RankT, class Cmp, class Mk, class Un>
static void run_one(Out& out, const std::vector<std::vector<long long>>& keys, int cmpk, int mode, long long onerank, Cmp cmp, Mk mk, Un un) {
    size_t m = keys.size();
    std::vector<std::vector<T>> data(m);
    long long N = 0, salt = 0;
    for (size_t i = 0; i < m; ++i) for (long long k : keys[i]) { data[i].push_back(mk(k, ++salt)); ++N; }
    using It = typename std::vector<T>::iterator;
    std::vector<std::pair<It, It>> seqs;
    for (auto& d : data) seqs.push_back({d.begin(), d.end()});
    std::string sj = "[";
    for (size_t i = 0; i < m; ++i) sj += std::string(i ? "," : "") + jarr(keys[i]);
    sj += "]";
    auto part = [&](long long r) {
        std::vector<It> offs(m);
        tlx::multisequence_partition(seqs.begin(), seqs.end(), static_cast<RankT>(r), offs.begin(), cmp);
        std::vector<long long> p;
        for (size_t i = 0; i < m; ++i) p.push_back(offs[i] - seqs[i].first);
        return jarr(p);
    };
    auto sel = [&](long long r) {
        RankT off = static_cast<RankT>(77);
        T v = tlx::multisequence_selection<T>(seqs.begin(), seqs.end(), static_cast<RankT>(r), off, cmp);
        return "[" + std::to_string(un(v)) + "," + std::to_string((long long)off) + "]";
    };
    if (mode == 0) {
        std::string pj = "[", sl = "[";
        for (long long r = 0; r <= N; ++r) pj += std::string(r ? "," : "") + part(r);
        for (long long r = 0; r < N; ++r) sl += std::string(r ? "," : "") + sel(r);
        Ev e("mseq"); e.raw("seqs", sj).raw("parts", pj + "]").raw("sel", sl + "]").num("cmp", cmpk); e.emit(out);
    } else {
        Ev e("mseq1"); e.raw("seqs", sj).num("rank", onerank).raw("part", part(onerank)).raw("sel", onerank < N ? sel(onerank) : "[0,0]").num("cmp", cmpk); e.emit(out);
    }
}

int main(int argc, char** argv) {
    if (argc < 3) return 2;
    std::ifstream in(argv[1]);
    Out out; out.open(argv[2]); install_terminate(out);
    Ev("reset").emit(out);
    std::string line;
    while (std::getline(in, line)) {
        if (line.empty()) continue;
        std::istringstream is(line);
        int mode; size_t m; is >> mode >> m;
        std::vector<std::vector<long long>> keys(m);
        for (auto& k : keys) { size_t n; is >> n; k.resize(n); for (auto& x : k) is >> x; }
        long long r = 0; if (mode == 1) is >> r;
        run_one<long long, long long>(out, keys, 0, mode, r, VF_Stateful<std::less<long long>>(1), [](long long k, long long) { return k; }, [](long long v) { return v; });
        run_one<long long, size_t>(out, keys, 1, mode, r, VF_Stateful<std::greater<long long>>(1), [](long long k, long long) { return 1000 - k; }, [](long long v) { return 1000 - v; });
        run_one<KP, int>(out, keys, 2, mode, r, VF_Stateful<KPLess>(1), [](long long k, long long s) { return KP{k, s}; }, [](const KP& v) { return v.key; });
        run_one<long long, unsigned long long>(out, keys, 0, mode, r, VF_Stateful<std::less<long long>>(1), [](long long k, long long) { return k; }, [](long long v) { return v; });
        run_one<KP, unsigned int>(out, keys, 2, mode, r, VF_Stateful<KPLess>(1), [](long long k, long long s) { return KP{k, s}; }, [](const KP& v) { return v.key; });
    }
    out.flush();
    return 0;
}
