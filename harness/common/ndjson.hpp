// Minimal helpers shared by all drivers: ndjson event writer, script tokenizer.
#pragma once
#include <cstdint>
#include <cstdio>
#include <csignal>
#include <cstdlib>
#include <exception>
#include <sstream>
#include <string>
#include <unistd.h>
#include <vector>

// Decoy relational operators for the element types of the drivers.  The library must order elements with the comparator it was given and nothing else; an element
// type without operator< would turn a change that bypasses the comparator (a < b, std::min, std::priority_queue<T>, pair comparison) into a compile error of the
// driver, which is an internal error of the check, not a verdict.  The decoys compile and order by the REVERSE of the key, so such a change shows up as a wrong result.
#define VF_DECOY_ORDER(T, field) \
    inline bool operator<(const T& a, const T& b) { return b.field < a.field; } \
    inline bool operator>(const T& a, const T& b) { return a.field < b.field; } \
    inline bool operator<=(const T& a, const T& b) { return !(a.field < b.field); } \
    inline bool operator>=(const T& a, const T& b) { return !(b.field < a.field); }


// Stateful comparator wrapper for the drivers.  A library template that is handed a comparator OBJECT must use that object (or copies of it): a comparator may carry
// run-time state (a direction flag, a table pointer, a std::function).  VF_Stateful<Base>(1) is "armed" and orders like Base; a default-constructed instance -- what the
// code under test gets if it drops the object it was given and makes its own -- orders by the REVERSE of Base, so the slip shows up as a wrong result.
template <class Base>
struct VF_Stateful {
    int armed = 0; Base base;
    VF_Stateful() = default;
    explicit VF_Stateful(int a) : armed(a) {}
    template <class T> bool operator()(const T& x, const T& y) const { return armed ? base(x, y) : base(y, x); }
};

#if defined(VERIF_COVERAGE)
extern "C" void __gcov_dump(void);
#endif
namespace vf {

// drivers that leave through _exit() would lose their gcov counters (coverage builds only, tools/coverage.py)
inline void cov_flush() {
#if defined(VERIF_COVERAGE)
    __gcov_dump();
#endif
}

struct Out {
    FILE* f = stdout;
    std::string buf;
    void open(const char* path) { f = std::fopen(path, "w"); if (!f) { std::perror(path); std::exit(3); } }
    void flush_line() { buf.push_back('\n'); std::fwrite(buf.data(), 1, buf.size(), f); buf.clear(); }
    void flush() { std::fflush(f); }
};

// builder for one JSON object on one line
struct Ev {
    std::string s;
    bool first = true;
    explicit Ev(const char* e) { s = "{"; str("e", e); }
    void key(const char* k) { if (!first) s += ","; first = false; s += "\""; s += k; s += "\":"; }
    Ev& str(const char* k, const std::string& v) { key(k); s += "\""; s += v; s += "\""; return *this; }
    Ev& num(const char* k, long long v) { key(k); s += std::to_string(v); return *this; }
    Ev& boolean(const char* k, bool v) { key(k); s += v ? "true" : "false"; return *this; }
    template <class C> Ev& arr(const char* k, const C& c) {
        key(k); s += "["; bool f = true;
        for (const auto& x : c) { if (!f) s += ","; f = false; s += std::to_string((long long)x); }
        s += "]"; return *this;
    }
    Ev& raw(const char* k, const std::string& json) { key(k); s += json; return *this; }
    void emit(Out& o) { s += "}"; o.buf = s; o.flush_line(); }
};

template <class C> std::string jarr(const C& c) {
    std::string s = "["; bool f = true;
    for (const auto& x : c) { if (!f) s += ","; f = false; s += std::to_string((long long)x); }
    return s + "]";
}

// a crash inside the code under test must not lose the trace written so far
inline void install_terminate(Out& o) {
    static Out* op = &o;
    std::set_terminate([] { op->flush(); std::fprintf(stderr, "driver: terminate called\n"); _exit(70); });
    // keep the trace written so far when the code under test crashes (not async-signal-safe, good enough here)
    auto h = +[](int sig) { op->flush(); std::fprintf(stderr, "driver: fatal signal %d\n", sig); _exit(71); };
    std::signal(SIGSEGV, h); std::signal(SIGBUS, h); std::signal(SIGFPE, h); std::signal(SIGABRT, h);
}

inline std::vector<long long> read_ints(std::istringstream& is, size_t n) {
    std::vector<long long> v(n);
    for (auto& x : v) is >> x;
    return v;
}

} // namespace vf
