// Tracked element type and instance ledger used by the container drivers.
//
// Every Tracked object registers its address in a global ledger when constructed and removes it
// when destroyed.  The ledger records protocol errors instead of aborting:
//   construct-over-live   an object is constructed at an address that still holds a live one
//   double-destroy        destructor runs on an address that holds no live object
//   use-dead              copy/assign/compare/read touches an address that holds no live object
// Each object also owns a small heap block so that ASan/LSan builds see leaks and double frees.
#pragma once
#include <algorithm>
#include <cstdint>
#include <map>
#include <string>
#include <unordered_map>
#include <vector>

namespace vf {

struct Ledger {
    std::unordered_map<const void*, long long> live;   // address -> value
    long long constructed = 0, destroyed = 0;
    std::vector<std::string> errors;
    long long nerr = 0;
    void err(const char* what, const void*) { ++nerr; if (errors.size() < 8) errors.push_back(what); }
    void born(const void* p, long long v) {
        ++constructed;
        if (!live.emplace(p, v).second) { err("construct-over-live", p); live[p] = v; }
    }
    bool died(const void* p) {
        ++destroyed;
        if (live.erase(p) == 0) { err("double-destroy", p); return false; }
        return true;
    }
    bool alive(const void* p) const { return live.count(p) != 0; }
    void use(const void* p) { if (!alive(p)) err("use-dead", p); }
    void set(const void* p, long long v) { auto it = live.find(p); if (it != live.end()) it->second = v; }
    std::vector<long long> live_values() const {
        std::vector<long long> v; v.reserve(live.size());
        for (auto& kv : live) v.push_back(kv.second);
        std::sort(v.begin(), v.end());
        return v;
    }
    void reset() { live.clear(); errors.clear(); nerr = 0; constructed = destroyed = 0; }
};

inline Ledger& ledger() { static Ledger l; return l; }

// value -1: moved-from, 0: default constructed
struct Tracked {
    long long v;
    char* heap;
    Tracked() : v(0), heap(new char(1)) { ledger().born(this, v); }
    Tracked(long long x) : v(x), heap(new char(1)) { ledger().born(this, v); }   // NOLINT implicit on purpose
    Tracked(const Tracked& o) : v(o.v), heap(new char(1)) { ledger().use(&o); ledger().born(this, v); }
    Tracked(Tracked&& o) noexcept : v(o.v), heap(new char(1)) {
        ledger().use(&o); ledger().born(this, v); o.v = -1; ledger().set(&o, -1);
    }
    Tracked& operator=(const Tracked& o) {
        ledger().use(&o); ledger().use(this); v = o.v; ledger().set(this, v); return *this;
    }
    Tracked& operator=(Tracked&& o) noexcept {
        ledger().use(&o); ledger().use(this);
        if (this != &o) { v = o.v; ledger().set(this, v); o.v = -1; ledger().set(&o, -1); }
        return *this;
    }
#if defined(__SANITIZE_ADDRESS__)
    ~Tracked() { ledger().died(this); delete heap; heap = nullptr; }     // let ASan see a double destroy itself
#else
    ~Tracked() { if (ledger().died(this)) { delete heap; heap = nullptr; } }   // plain build: record, do not crash
#endif
    // observation through the container API: -99 when the slot holds no live object
    long long read() const { return ledger().alive(this) ? v : -99; }
    friend bool operator<(const Tracked& a, const Tracked& b) { ledger().use(&a); ledger().use(&b); return a.v < b.v; }
    friend bool operator==(const Tracked& a, const Tracked& b) { ledger().use(&a); ledger().use(&b); return a.v == b.v; }
};

} // namespace vf
