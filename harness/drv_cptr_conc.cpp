// C12 driver (concurrent half): threads copy / drop private CountingPtr handles to one shared object under vsched.
// script line:  N  { len op... }xN  strategy seed  nscript tid...        op: 0 copy, 1 drop, 2 unify() then drop; strategy as vsched::Strategy
// (op 2 releases the handle through unify(): clone if shared, then let go; for the shared counter it is a drop, and the trace says so)
// Every line runs in a forked child (a deadlocked or crashed execution cannot disturb the next one).
#include <common/ndjson.hpp>
#include <tlx/counting_ptr.hpp>
#include <fstream>
#include <sys/wait.h>
using namespace vf;

static std::vector<std::string> g_ev;
static int g_dtors = 0;
static bool g_started = false;
// (a clone made by unify() is a private object of the calling thread: only the shared original is traced)
struct Obj : public tlx::ReferenceCounter {
    bool clone = false;
    Obj() = default;
    Obj(const Obj& o) : tlx::ReferenceCounter(o), clone(true) {}
    ~Obj() { if (clone) return; ++g_dtors; g_ev.push_back("{\"e\":\"delete\",\"t\":" + std::to_string(vsched::self()) + "}"); }
};

static void write_out(const char* path, const vsched::Result& r) {
    FILE* f = std::fopen(path, "a");
    for (auto& e : g_ev) { std::fputs(e.c_str(), f); std::fputc('\n', f); }
    std::string pr = "[";
    for (size_t i = 0; i < r.problems.size(); ++i) pr += std::string(i ? "," : "") + "\"" + r.problems[i] + "\"";
    pr += "]";
    std::fprintf(f, "{\"e\":\"end\",\"dtors\":%d,\"problems\":%zu,\"problem_text\":%s,\"deadlock\":%s,\"diverged\":%s,\"steps\":%ld,\"blocked\":\"%s\"}\n", g_dtors, r.problems.size(),
                 pr.c_str(), r.deadlock ? "true" : "false", r.diverged ? "true" : "false", r.steps, r.blocked_summary.c_str());
    std::fclose(f);
}

static void child(const std::string& line, const char* outpath) {
    std::istringstream is(line);
    int N; is >> N;
    std::vector<std::vector<int>> prog(N);
    for (auto& p : prog) { size_t n; is >> n; p.resize(n); for (auto& x : p) is >> x; }
    vsched::Config cfg; int strat; is >> strat >> cfg.seed; cfg.strategy = strat;
    size_t ns; is >> ns; cfg.script.resize(ns); for (auto& x : cfg.script) is >> x;
    cfg.guided_kinds = 1u << vsched::K_RMW;
    cfg.script.insert(cfg.script.begin(), N + 2, 0);    // main's set-up comes first: N + 1 increments and one decrement
    std::string pj = "[";
    for (int t = 0; t < N; ++t) { pj += std::string(t ? "," : "") + "["; for (size_t i = 0; i < prog[t].size(); ++i) pj += std::string(i ? "," : "") + (prog[t][i] ? "\"drop\"" : "\"copy\""); pj += "]"; }
    pj += "]";
    g_ev.push_back("{\"e\":\"reset\",\"prog\":" + pj + ",\"strategy\":" + std::to_string(strat) + ",\"seed\":" + std::to_string(cfg.seed) + "}");
    int rc_id = -1;
    vsched::set_observer([&](int tid, int kind, int objid, long long before, long long after) {
        if (!g_started || objid != rc_id || kind != vsched::K_RMW) return;
        g_ev.push_back(std::string("{\"e\":\"") + (after > before ? "inc" : "dec") + "\",\"t\":" + std::to_string(tid) + ",\"before\":" + std::to_string(before) + ",\"after\":" + std::to_string(after) + "}");
    });
    vsched::set_abort_handler([&](vsched::Result& r) { write_out(outpath, r); { vf::cov_flush(); _exit(0); } });
    auto res = vsched::run([&] {
        rc_id = vsched::Runtime::new_object_id() + 1;
        Obj* o = new Obj;
        using H = tlx::CountingPtr<Obj>;
        std::vector<std::vector<H>> hs(N);
        { H first(o); hs[0].push_back(first); for (int t = 1; t < N; ++t) hs[t].push_back(first); }
        // (first itself is released here: one extra inc/dec pair by main before the start, not logged)
        g_started = true;
        auto body = [&](int t) { for (int op : prog[t]) { if (op == 0) hs[t].push_back(hs[t].back()); else { if (op == 2) hs[t].back().unify(); hs[t].pop_back(); } } };
        std::vector<vsched::thread> th;
        for (int t = 1; t < N; ++t) th.emplace_back(body, t);
        body(0);
        for (auto& x : th) x.join();
    }, cfg);
    write_out(outpath, res);
    { vf::cov_flush(); _exit(0); }
}

int main(int argc, char** argv) {
    if (argc < 3) return 2;
    std::ifstream in(argv[1]);
    { FILE* f = std::fopen(argv[2], "w"); std::fclose(f); }
    std::string line; int bad = 0;
    while (std::getline(in, line)) {
        if (line.empty()) continue;
        pid_t p = fork();
        if (p == 0) { alarm(20); child(line, argv[2]); }
        int st = 0; waitpid(p, &st, 0);
        if (!WIFEXITED(st) || WEXITSTATUS(st) != 0) {
            ++bad;
            FILE* f = std::fopen(argv[2], "a");
            std::fprintf(f, "{\"e\":\"reset\",\"prog\":[],\"crashed\":true,\"status\":%d,\"line\":\"%s\"}\n", st, line.c_str());
            std::fclose(f);
        }
    }
    return bad ? 1 : 0;
}
