// C03 driver: sequential string sorting entry points and detail sorters on four string-set representations.
// script line: variant memory n { len b... }xn
//   variant = algo * 16 + set * 2 + lcp     algo: 0 sort_strings front ends, 1 insertion_sort, 2 multikey_quicksort, 3 CE0, 4 CE2, 5 CE3, 6 CI2, 7 CI3
//                                            set: 0 unsigned char**, 1 std::string*, 2 unique_ptr<std::string>*, 3 suffixes of a text (uses the concatenation), 4 const char** / vectors (front ends only)
#include <common/ndjson.hpp>
#include <tlx/sort/strings.hpp>
#include <tlx/sort/strings/insertion_sort.hpp>
#include <tlx/sort/strings/multikey_quicksort.hpp>
#include <tlx/sort/strings/radix_sort.hpp>
#include <fstream>
#include <map>
#include <memory>
using namespace vf;
using namespace tlx::sort_strings_detail;

template <class SPtr> static void run_algo(int algo, const SPtr& sp, size_t memory) {
    switch (algo) {
    case 1: insertion_sort(sp, 0, memory); break;
    case 2: multikey_quicksort(sp, 0, memory); break;
    case 3: radixsort_CE0(sp, 0, memory); break;
    case 4: radixsort_CE2(sp, 0, memory); break;
    case 5: radixsort_CE3(sp, 0, memory); break;
    case 6: radixsort_CI2(sp, 0, memory); break;
    default: radixsort_CI3(sp, 0, memory); break;
    }
}
template <class SS> static void run_set(int algo, bool lcp, SS ss, std::uint32_t* lcps, size_t memory) {
    if (lcp) run_algo(algo, StringLcpPtr<SS, std::uint32_t>(ss, lcps), memory); else run_algo(algo, StringPtr<SS>(ss), memory);
}
static std::string BB(const std::vector<std::string>& v) {
    std::string o = "[";
    for (size_t i = 0; i < v.size(); ++i) { o += std::string(i ? "," : "") + "["; for (size_t j = 0; j < v[i].size(); ++j) o += std::string(j ? "," : "") + std::to_string((unsigned char)v[i][j]); o += "]"; }
    return o + "]";
}

int main(int argc, char** argv) {
    if (argc < 3) return 2;
    std::ifstream in(argv[1]);
    Out out; out.open(argv[2]); install_terminate(out);
    Ev("reset").emit(out);
    std::string line;
    while (std::getline(in, line)) {
        if (line.empty()) continue;
        std::istringstream is(line);
        int variant; size_t memory, n; is >> variant >> memory >> n;
        std::vector<std::string> strs(n);
        for (auto& s : strs) { size_t len; is >> len; s.resize(len); for (auto& c : s) { int x; is >> x; c = (char)x; } }
        int algo = variant / 16, set = (variant % 16) / 2; bool lcp = variant % 2;
        std::vector<std::uint32_t> lcps(n + 1, 0xABCDEF);
        std::vector<long long> outidx; std::vector<std::string> input = strs;
        if (set == 0 || set == 4) {
            std::vector<unsigned char*> ptrs(n); std::map<const void*, long long> id;
            std::vector<std::vector<unsigned char>> store(n);
            for (size_t i = 0; i < n; ++i) { store[i].assign(strs[i].begin(), strs[i].end()); store[i].push_back(0); ptrs[i] = store[i].data(); id[ptrs[i]] = (long long)i + 1; }
            if (algo == 0) {
                int fe = (int)((n + memory) % 4);      // rotate through the pointer-array front ends
                if (set == 4) {
                    std::vector<const char*> cp(n); for (size_t i = 0; i < n; ++i) cp[i] = reinterpret_cast<const char*>(ptrs[i]);
                    if (fe >= 2) {        // the const unsigned char front ends
                        std::vector<const unsigned char*> up(n); for (size_t i = 0; i < n; ++i) up[i] = ptrs[i];
                        if (lcp) { if (fe % 2) tlx::sort_strings_lcp(up, lcps.data(), memory); else tlx::sort_strings_lcp(up.data(), n, lcps.data(), memory); }
                        else { if (fe % 2) tlx::sort_strings(up, memory); else tlx::sort_strings(up.data(), n, memory); }
                        for (size_t i = 0; i < n; ++i) cp[i] = reinterpret_cast<const char*>(up[i]);
                    }
                    else if (lcp) { if (fe % 2) tlx::sort_strings_lcp(cp, lcps.data(), memory); else tlx::sort_strings_lcp(cp.data(), n, lcps.data(), memory); }
                    else { if (fe % 2) tlx::sort_strings(cp, memory); else tlx::sort_strings(cp.data(), n, memory); }
                    for (size_t i = 0; i < n; ++i) ptrs[i] = reinterpret_cast<unsigned char*>(const_cast<char*>(cp[i]));
                } else if (lcp) {
                    if (fe == 0) tlx::sort_strings_lcp(ptrs.data(), n, lcps.data(), memory); else if (fe == 1) tlx::sort_strings_lcp(ptrs, lcps.data(), memory);
                    else if (fe == 2) tlx::sort_strings_lcp(reinterpret_cast<char**>(ptrs.data()), n, lcps.data(), memory);
                    else { std::vector<char*> v(n); for (size_t i = 0; i < n; ++i) v[i] = reinterpret_cast<char*>(ptrs[i]); tlx::sort_strings_lcp(v, lcps.data(), memory); for (size_t i = 0; i < n; ++i) ptrs[i] = reinterpret_cast<unsigned char*>(v[i]); }
                } else {
                    if (fe == 0) tlx::sort_strings(ptrs.data(), n, memory); else if (fe == 1) tlx::sort_strings(ptrs, memory);
                    else if (fe == 2) tlx::sort_strings(reinterpret_cast<char**>(ptrs.data()), n, memory);
                    else { std::vector<char*> v(n); for (size_t i = 0; i < n; ++i) v[i] = reinterpret_cast<char*>(ptrs[i]); tlx::sort_strings(v, memory); for (size_t i = 0; i < n; ++i) ptrs[i] = reinterpret_cast<unsigned char*>(v[i]); }
                }
            } else run_set(algo, lcp, UCharStringSet(ptrs.data(), ptrs.data() + n), lcps.data(), memory);
            for (size_t i = 0; i < n; ++i) { auto it = id.find(ptrs[i]); outidx.push_back(it == id.end() ? -1 : it->second); }
        } else if (set == 1) {
            std::vector<std::string> v = strs;
            if (algo == 0) { if (lcp) { if (n % 2) tlx::sort_strings_lcp(v, lcps.data(), memory); else tlx::sort_strings_lcp(v.data(), n, lcps.data(), memory); }
                             else { if (n % 2) tlx::sort_strings(v, memory); else tlx::sort_strings(v.data(), n, memory); } }
            else run_set(algo, lcp, StdStringSet(v.data(), v.data() + n), lcps.data(), memory);
            // std::string objects carry no identity beyond their content: match each output string with an unused equal input string
            std::multimap<std::string, long long> pool; for (size_t i = 0; i < n; ++i) pool.emplace(strs[i], (long long)i + 1);
            for (size_t i = 0; i < n; ++i) { auto it = pool.find(v[i]); if (it == pool.end()) outidx.push_back(-1); else { outidx.push_back(it->second); pool.erase(it); } }
        } else if (set == 2) {
            std::vector<std::unique_ptr<std::string>> v(n); std::map<const void*, long long> id;
            for (size_t i = 0; i < n; ++i) { v[i].reset(new std::string(strs[i])); id[v[i].get()] = (long long)i + 1; }
            run_set(algo == 0 ? 5 : algo, lcp, UPtrStdStringSet(v.data(), v.data() + n), lcps.data(), memory);
            for (size_t i = 0; i < n; ++i) { auto it = id.find(v[i].get()); outidx.push_back(it == id.end() ? -1 : it->second); }
        } else {
            // suffixes of the concatenation of the given strings
            std::string text; for (auto& s : strs) text += s;
            std::vector<size_t> suffixes;
            StringSuffixSet sss = StringSuffixSet::Initialize(text, suffixes);
            n = suffixes.size(); lcps.assign(n + 1, 0xABCDEF);
            input.clear(); for (size_t i = 0; i < n; ++i) input.push_back(text.substr(suffixes[i]));
            std::vector<size_t> orig = suffixes;
            run_set(algo == 0 ? 5 : algo, lcp, sss, lcps.data(), memory);
            for (size_t i = 0; i < n; ++i) { long long idx = -1; for (size_t j = 0; j < n; ++j) if (orig[j] == suffixes[i]) idx = (long long)j + 1; outidx.push_back(idx); }
        }
        std::vector<long long> l(lcps.begin(), lcps.begin() + n);
        if (!l.empty()) l[0] = 0;
        Ev e("ssort"); e.raw("in", BB(input)).arr("out", outidx).boolean("haslcp", lcp).arr("lcp", l).num("variant", variant).num("memory", (long long)memory);
        e.emit(out);
    }
    out.flush();
    return 0;
}
