// C13 driver: tlx::RadixHeapPair<Key, id, Radix> for signed/unsigned 8..64-bit keys.
// Keys appear in scripts and traces as ranks 0..15 into a per-type table of ascending concrete keys that
// contains the type's extremes, so the specification (which orders ranks) never needs a 64-bit integer.
// script line: variant nops { op rank id }
//   ops: 0 push(value) 1 emplace(key, key, id) 2 emplace_keyfirst 3 push_to_bucket(get_bucket) 4 top 5 pop 6 peak_top_key 7 swap_top_bucket 8 clear
#include <common/ndjson.hpp>
// (the implementation-level comparison with RadixHeapI reads insertion_limit_, current_bucket_ and the bucket sizes)
#define private public
#define protected public
#include <tlx/container/radix_heap.hpp>
#undef protected
#undef private
#include <type_traits>
#include <algorithm>
#include <fstream>
#include <limits>
using namespace vf;

static const int NR = 16;

template <class K> static std::vector<K> key_table() {
    using L = std::numeric_limits<K>;
    std::vector<long double> cand = {0, 1, 2, 3, 7, 8, 9, 15, 16, 17, 31, 32, 63, 64, 65, 100, 127, 128, 129, 255, 256, 257, 4095, 4096, 32767, 32768, 65535, 65536,
        2147483647.0L, 2147483648.0L, 4294967295.0L, 4294967296.0L, 1e15L};
    std::vector<K> v;
    for (long double c : cand) {
        if (c <= (long double)L::max()) v.push_back((K)c);
        if (L::is_signed && -c >= (long double)L::min()) v.push_back((K)(-c));
    }
    for (int d = 0; d < 3; ++d) { v.push_back(L::min() + d); v.push_back(L::max() - d); }
    std::sort(v.begin(), v.end()); v.erase(std::unique(v.begin(), v.end()), v.end());
    // keep 5 smallest, 5 largest and 6 spread over the middle
    std::vector<K> t(v.begin(), v.begin() + 5);
    size_t mid = v.size() - 10;
    for (int i = 0; i < 6; ++i) t.push_back(v[5 + (mid * (2 * i + 1)) / 12]);
    t.insert(t.end(), v.end() - 5, v.end());
    std::sort(t.begin(), t.end()); t.erase(std::unique(t.begin(), t.end()), t.end());
    if ((int)t.size() != NR) { std::fprintf(stderr, "key table size %zu\n", t.size()); std::exit(5); }
    return t;
}

static const char* NAMES[] = {"push", "push", "push", "push", "top", "pop", "peak", "swap", "clear"};

template <class K, unsigned Radix>
static void run(Out& out, int variant, std::istringstream& is) {
    using Heap = tlx::RadixHeapPair<K, long long, Radix>;
    static const std::vector<K> tab = key_table<K>();
    auto rank = [&](K k) -> long long { auto it = std::lower_bound(tab.begin(), tab.end(), k); return (it != tab.end() && *it == k) ? it - tab.begin() : -77; };
    auto pr = [&](const std::pair<K, long long>& x) { return "[" + std::to_string(rank(x.first)) + "," + std::to_string(x.second) + "]"; };
    Heap hp;
    auto emit = [&](Ev& ev) {
        std::string drain = "[";
        Heap c = hp;
        bool f = true;
        size_t guard = 0;
        while (!c.empty() && guard++ < 100000) { drain += std::string(f ? "" : ",") + pr(c.top()); f = false; c.pop(); }
        drain += "]";
        std::string obs = "{\"size\":" + std::to_string(hp.size()) + ",\"empty\":" + (hp.empty() ? "true" : "false") + ",\"drain\":" + drain + ",\"sane\":true";
        if (!hp.empty()) obs += ",\"peak\":" + std::to_string(rank(hp.peak_top_key()));
        obs += "}";
        ev.raw("obs", obs);
        ev.num("variant", variant);
        if (sizeof(K) <= 2) {       // internal state for the small key types: encoder ranks fit the model's integers
            std::vector<long long> sizes;
            for (auto& b : hp.buckets_data_) sizes.push_back((long long)b.size());
            ev.raw("ist", "{\"limit\":" + std::to_string((unsigned long long)hp.insertion_limit_) + ",\"cur\":" + std::to_string(hp.current_bucket_) + ",\"sizes\":" + jarr(sizes) + "}");
        }
        ev.emit(out);
    };
    { Ev ev("reset"); ev.boolean("monotone", true).num("w", 8 * (long long)sizeof(K)).num("rb", (long long)tlx::Log2<Radix>::floor); emit(ev); }
    size_t nops; is >> nops;
    for (size_t n = 0; n < nops; ++n) {
        int op; long long r, id; is >> op >> r >> id;
        K key = tab[r % NR];
        Ev ev(NAMES[op]); ev.num("k", r).num("id", id).num("opcode", op);
        if (sizeof(K) <= 2) ev.num("ikey", (long long)(unsigned long long)tlx::radix_heap_detail::IntegerRank<K>::rank_of_int(key));      // the key as the heap ranks it
        switch (op) {
        case 0: hp.push(std::make_pair(key, id)); break;
        case 1: hp.emplace(key, key, id); break;
        case 2: hp.emplace_keyfirst(key, id); break;
        case 3: { auto v = std::make_pair(key, id); hp.push_to_bucket(hp.get_bucket(v), v); break; }
        case 4: ev.raw("ret", pr(hp.top())); break;
        case 5: { auto t = hp.top(); hp.pop(); ev.raw("ret", pr(t)); break; }
        case 6: ev.s.replace(ev.s.find("\"k\":"), 4 + std::to_string(r).size(), "\"k\":" + std::to_string(rank(hp.peak_top_key()))); break;
        case 7: { typename Heap::bucket_data_type b; hp.swap_top_bucket(b); std::string o = "["; for (size_t i = 0; i < b.size(); ++i) o += std::string(i ? "," : "") + pr(b[i]); ev.raw("out", o + "]"); break; }
        case 8: hp.clear(); break;
        }
        emit(ev);
    }
}

int main(int argc, char** argv) {
    if (argc < 3) return 2;
    std::ifstream in(argv[1]);
    Out out; out.open(argv[2]); install_terminate(out);
    std::string line;
    while (std::getline(in, line)) {
        if (line.empty()) continue;
        std::istringstream is(line);
        int variant; is >> variant;
        switch (variant) {
        case 0: run<uint8_t, 2>(out, variant, is); break;
        case 1: run<int8_t, 4>(out, variant, is); break;
        case 2: run<uint16_t, 8>(out, variant, is); break;
        case 3: run<int16_t, 16>(out, variant, is); break;
        case 4: run<uint32_t, 64>(out, variant, is); break;
        case 5: run<int32_t, 8>(out, variant, is); break;
        case 6: run<uint64_t, 2>(out, variant, is); break;
        case 7: run<int64_t, 64>(out, variant, is); break;
        case 8: run<uint32_t, 4>(out, variant, is); break;
        case 9: run<uint64_t, 16>(out, variant, is); break;
        case 10: run<uint8_t, 64>(out, variant, is); break;
        default: run<int64_t, 8>(out, variant, is); break;
        }
    }
    out.flush();
    return 0;
}
