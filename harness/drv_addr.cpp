// C13 driver: tlx::DAryAddressableIntHeap with an external priority table.
// script line: variant nkeys prio_0..prio_{nkeys-1} nops { op k p n x1..xn }
//   ops: 0 push 1 remove 2 top 3 pop 4 extract_top 5 setprio 6 update 7 update_all 8 build(iter) 9 build(const&) 10 build(&&) 11 clear
//   variant = arity index * 2 + (0: ascending priorities, 1: descending via mirrored table and greater)
#include <common/ndjson.hpp>
#include <tlx/container/d_ary_addressable_int_heap.hpp>
#include <fstream>
using namespace vf;

static std::vector<long long> g_prio;
struct PrioLess { bool operator()(uint32_t a, uint32_t b) const { return g_prio[a] < g_prio[b]; } };
struct PrioGreaterMirror { bool operator()(uint32_t a, uint32_t b) const { return -g_prio[a] > -g_prio[b]; } };

static const char* NAMES[] = {"push", "remove", "top", "pop", "pop", "setprio", "update", "update_all", "build", "build", "build", "clear", "reserve"};

template <class Heap>
static void run(Out& out, int variant, int nkeys, std::istringstream& is) {
    Heap hp{typename Heap::compare_type(1)};        // armed comparator object: see VF_Stateful
    auto emit = [&](Ev& ev) {
        std::vector<long long> drain;
        Heap c = hp;
        while (!c.empty()) drain.push_back(c.extract_top());
        std::string cont = "[";
        for (int k = 0; k < nkeys + 2; ++k) cont += std::string(k ? "," : "") + (hp.contains(k) ? "true" : "false");
        cont += "]";
        ev.raw("obs", "{\"size\":" + std::to_string(hp.size()) + ",\"contains\":" + cont + ",\"drain\":" + jarr(drain) +
                      ",\"sane\":" + (hp.sanity_check() ? "true" : "false") + "}");
        ev.num("variant", variant);
        ev.emit(out);
    };
    { Ev ev("reset"); ev.arr("prio", g_prio); emit(ev); }
    size_t nops; is >> nops;
    for (size_t n = 0; n < nops; ++n) {
        int op; long long k, p; size_t ln; is >> op >> k >> p >> ln;
        std::vector<uint32_t> list(ln);
        for (auto& x : list) is >> x;
        Ev ev(NAMES[op]); ev.num("k", k).num("p", p).num("opcode", op);
        switch (op) {
        case 0: hp.push(static_cast<uint32_t>(k)); break;
        case 1: hp.remove(static_cast<uint32_t>(k)); break;
        case 2: ev.num("ret", hp.top()); break;
        case 3: { long long t = hp.top(); hp.pop(); ev.num("ret", t); break; }
        case 4: ev.num("ret", hp.extract_top()); break;
        case 5: g_prio[k] = p; break;
        case 6: hp.update(static_cast<uint32_t>(k)); break;
        case 7: hp.update_all(); break;
        case 8: hp.build_heap(list.begin(), list.end()); ev.arr("list", list); break;
        case 9: hp.build_heap(list); ev.arr("list", list); break;
        case 10: { ev.arr("list", list); std::vector<uint32_t> tmp = list; hp.build_heap(std::move(tmp)); break; }
        case 11: hp.clear(); break;
        case 12: hp.reserve(static_cast<size_t>(k)); ev.num("cap", (long long)hp.capacity()); break;     // no abstract effect; capacity() >= k afterwards
        }
        emit(ev);
    }
}

int main(int argc, char** argv) {
    if (argc < 3) return 2;
    std::ifstream in(argv[1]);
    Out out; out.open(argv[2]); install_terminate(out);
    std::string line;
    while (std::getline(in, line)) {
        if (line.empty()) continue;
        std::istringstream is(line);
        int variant, nkeys; is >> variant >> nkeys;
        g_prio.assign(nkeys + 2, 1);
        for (int i = 0; i < nkeys; ++i) is >> g_prio[i];
        using namespace tlx;
        switch (variant) {
        case 0: run<DAryAddressableIntHeap<uint32_t, 1, VF_Stateful<PrioLess>>>(out, variant, nkeys, is); break;
        case 1: run<DAryAddressableIntHeap<uint32_t, 1, VF_Stateful<PrioGreaterMirror>>>(out, variant, nkeys, is); break;
        case 2: run<DAryAddressableIntHeap<uint32_t, 2, VF_Stateful<PrioLess>>>(out, variant, nkeys, is); break;
        case 3: run<DAryAddressableIntHeap<uint32_t, 2, VF_Stateful<PrioGreaterMirror>>>(out, variant, nkeys, is); break;
        case 4: run<DAryAddressableIntHeap<uint32_t, 3, VF_Stateful<PrioLess>>>(out, variant, nkeys, is); break;
        case 5: run<DAryAddressableIntHeap<uint32_t, 3, VF_Stateful<PrioGreaterMirror>>>(out, variant, nkeys, is); break;
        case 6: run<DAryAddressableIntHeap<uint32_t, 4, VF_Stateful<PrioLess>>>(out, variant, nkeys, is); break;
        case 7: run<DAryAddressableIntHeap<uint32_t, 5, VF_Stateful<PrioGreaterMirror>>>(out, variant, nkeys, is); break;
        case 8: run<DAryAddressableIntHeap<uint32_t, 8, VF_Stateful<PrioLess>>>(out, variant, nkeys, is); break;
        default: run<DAryAddressableIntHeap<uint32_t, 6, VF_Stateful<PrioGreaterMirror>>>(out, variant, nkeys, is); break;
        }
    }
    out.flush();
    return 0;
}
