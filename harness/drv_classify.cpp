// C04 driver (classifier level): the three splitter-tree classifiers of tlx/sort/strings/sample_sort_tools.hpp, called directly.
// script line:  treebits depth nsamples {len byte...} nkeys {len byte...}
//   every string is NUL-free; the first `depth` bytes of all strings are a common prefix (keys are read at that depth, as the sample sort does).
// One event per (classifier, line): the sorted sample keys, the splitters (get_splitter(0 .. n-1)), the splitter LCP array, and the bucket of every key string
// as classify() stores it (unrolled groups of four plus a scalar tail) and as find_bkt() returns it.  Keys are logged as their 8 bytes (most significant first).
#include <common/ndjson.hpp>
#include <tlx/define.hpp>
#include <tlx/sort/strings/sample_sort_tools.hpp>
#include <tlx/sort/strings/string_set.hpp>
#include <algorithm>
#include <fstream>
using namespace vf;
using namespace tlx::sort_strings_detail;
typedef std::uint64_t key_type;

static std::string kb(key_type k) { std::string o = "["; for (int i = 7; i >= 0; --i) o += std::to_string((unsigned)((k >> (8 * i)) & 0xFF)) + (i ? "," : ""); return o + "]"; }
static std::string kbs(const std::vector<key_type>& v) { std::string o = "["; for (size_t i = 0; i < v.size(); ++i) o += std::string(i ? "," : "") + kb(v[i]); return o + "]"; }

template <class Classify>
static void one(Out& out, const char* name, size_t depth, std::vector<std::string>& samples, std::vector<std::string>& keys) {
    const size_t NS = Classify::num_splitters;
    std::vector<unsigned char*> sp, kp;
    for (auto& s : samples) sp.push_back(reinterpret_cast<unsigned char*>(&s[0]));
    for (auto& s : keys) kp.push_back(reinterpret_cast<unsigned char*>(&s[0]));
    UCharStringSet sset(sp.data(), sp.data() + sp.size()), kset(kp.data(), kp.data() + kp.size());
    std::vector<key_type> skeys;
    for (size_t i = 0; i < sp.size(); ++i) skeys.push_back(get_key_at<key_type>(sset, i, depth));
    std::sort(skeys.begin(), skeys.end());
    std::vector<key_type> sorted_samples = skeys;
    Classify c;
    std::vector<unsigned char> lcp(NS + 1, 0x55);
    c.build(skeys.data(), skeys.size(), lcp.data());
    std::vector<key_type> spl;
    for (size_t i = 0; i < NS; ++i) spl.push_back(c.get_splitter(static_cast<unsigned int>(i)));
    std::vector<std::uint16_t> bkt(kp.size() + 4, 0xEEEE);
    c.classify(kset, kset.begin(), kset.end(), bkt.data(), depth);
    std::vector<key_type> kk; std::vector<long long> b1, b2, lc;
    for (size_t i = 0; i < kp.size(); ++i) { key_type k = get_key_at<key_type>(kset, i, depth); kk.push_back(k); b1.push_back(bkt[i]); b2.push_back(c.find_bkt(k)); }
    for (auto x : lcp) lc.push_back(x);
    Ev e("classify"); e.str("cls", name).num("tb", (long long)Classify::treebits).num("depth", (long long)depth).raw("samples", kbs(sorted_samples)).raw("splitters", kbs(spl))
        .arr("lcp", lc).raw("keys", kbs(kk)).arr("bkt", b1).arr("bkt1", b2).boolean("tail_untouched", bkt[kp.size()] == 0xEEEE);
    e.emit(out);
}

template <size_t TB>
static void all(Out& out, size_t depth, std::vector<std::string>& samples, std::vector<std::string>& keys) {
    one<SSClassifyTreeUnrollInterleave<key_type, TB>>(out, "unroll", depth, samples, keys);
    one<SSClassifyTreeCalcUnrollInterleave<key_type, TB>>(out, "calc", depth, samples, keys);
    one<SSClassifyEqualUnroll<key_type, TB>>(out, "equal", depth, samples, keys);
}

int main(int argc, char** argv) {
    if (argc < 3) return 2;
    std::ifstream in(argv[1]);
    Out out; out.open(argv[2]); install_terminate(out);
    Ev("reset").emit(out);
    std::string line;
    auto rd = [](std::istringstream& is) { size_t n; is >> n; std::string s(n, 0); for (auto& ch : s) { int x; is >> x; ch = (char)x; } return s; };
    while (std::getline(in, line)) {
        if (line.empty()) continue;
        std::istringstream is(line);
        size_t tb, depth, ns, nk; is >> tb >> depth >> ns;
        std::vector<std::string> samples, keys;
        for (size_t i = 0; i < ns; ++i) samples.push_back(rd(is));
        is >> nk;
        for (size_t i = 0; i < nk; ++i) keys.push_back(rd(is));
        switch (tb) { case 1: all<1>(out, depth, samples, keys); break; case 2: all<2>(out, depth, samples, keys); break; case 3: all<3>(out, depth, samples, keys); break;
                      case 4: all<4>(out, depth, samples, keys); break; default: all<5>(out, depth, samples, keys); break; }
    }
    out.flush();
    return 0;
}
