// C01 / C02 driver core: runs one operation history on one tlx B+ tree container configuration.
//
// History (one line, tokens):
//   I c k        insert(value)                 H c h k      insert(hint = begin()+h mod (size+1), value)
//   R c n k..    insert(first, last)           E c k        erase(key)
//   O c k        erase_one(key)                X c i        erase(begin()+i mod size)      (skipped when empty)
//   C c          clear()                       Y            c2 = new container copy-constructed from c1
//   A n          1: c1 = c2   2: c2 = c1   3: c1 = c1       S            c1.swap(c2)
//   B c n k..    bulk_load of the sorted (and, for unique flavours, de-duplicated) keys into c (cleared first if needed)
//   M            all six comparison operators c1 ? c2
//   U c k        map: c[k] = payload; other flavours: insert
// Payloads are serial numbers chosen by the driver (0 for the set flavours).
//
// Events: "reset" (configuration), "op" (C01: call, results, contents, reverse walk, query battery),
// "alloc"/"free" (node allocator), "shape" (C02: facts read through the btree_friend seam, verify() verdict,
// element ledger), "end" (both containers destroyed).
#pragma once
#include <common/ndjson.hpp>
#include <common/tracked.hpp>
#include <tlx/container/btree_map.hpp>
#include <tlx/container/btree_multimap.hpp>
#include <tlx/container/btree_multiset.hpp>
#include <tlx/container/btree_set.hpp>
#include <tlx/die.hpp>
#include <algorithm>
#include <cstring>
#include <map>
#include <memory>
#include <type_traits>

namespace vf {

// ---- node allocator ledger
struct AllocLedger {
    std::map<const void*, std::pair<int, size_t>> live;   // address -> (id, bytes)
    std::map<const void*, int> arena_of;                  // address -> arena of the allocator instance that handed the block out
    int next_id = 0;
    long errors = 0, allocs = 0, frees = 0;
    Out* out = nullptr;
};
inline AllocLedger& aledger() { static AllocLedger a; return a; }

template <class T, class = void> struct is_leaf_node : std::false_type {};
template <class T> struct is_leaf_node<T, decltype((void)&T::prev_leaf)> : std::true_type {};
template <class T, class = void> struct is_node : std::false_type {};
template <class T> struct is_node<T, decltype((void)&T::slotuse)> : std::true_type {};

template <class T>
struct CAlloc {
    using value_type = T;
    template <class U> struct rebind { using other = CAlloc<U>; };
    // The allocator is STATEFUL: every container object starts with an allocator instance of its own arena, instances of different arenas compare unequal, and a
    // block must go back through an instance of the arena it came from (round-6 seeded change: operator= adopting the source's allocator before releasing its own nodes).
    int arena = 0;
    CAlloc() = default;
    explicit CAlloc(int a) : arena(a) {}
    template <class U> CAlloc(const CAlloc<U>& o) : arena(o.arena) {}
    T* allocate(size_t n) {
        void* p = std::malloc(n * sizeof(T));
        auto& a = aledger();
        int id = ++a.next_id; ++a.allocs;
        if (!a.live.emplace(p, std::make_pair(id, n * sizeof(T))).second) ++a.errors;
        a.arena_of[p] = arena;
        if (a.out) { Ev e("alloc"); e.num("id", id).str("kind", !is_node<T>::value ? "other" : is_leaf_node<T>::value ? "leaf" : "inner").num("bytes", (long long)(n * sizeof(T))); e.emit(*a.out); }
        return static_cast<T*>(p);
    }
    void deallocate(T* p, size_t) {
        auto& a = aledger(); ++a.frees;
        auto it = a.live.find(p);
        if (it == a.live.end()) {               // double free or foreign pointer: report, do not hand it to free()
            ++a.errors;
            if (a.out) { Ev e("free"); e.num("id", 0); e.emit(*a.out); }
            return;
        }
        if (a.out) { Ev e("free"); e.num("id", it->second.first); e.emit(*a.out); }
        if (a.arena_of[p] != arena) ++a.errors;          // released through an allocator of another arena
        a.arena_of.erase(p);
        std::memset(static_cast<void*>(p), 0xDD, it->second.second);     // released storage is poisoned
        a.live.erase(it);
        std::free(p);
    }
    template <class U> bool operator==(const CAlloc<U>& o) const { return arena == o.arena; }
    template <class U> bool operator!=(const CAlloc<U>& o) const { return arena != o.arena; }
};

struct KLess { template <class K> bool operator()(const K& a, const K& b) const { return a < b; } };
struct KGreater { template <class K> bool operator()(const K& a, const K& b) const { return b < a; } };

inline long long val(int x) { return x; }
inline long long val(const Tracked& t) { return t.read(); }

template <int LS, int IS, bool BIN, class K, class V>
struct Traits {
    static const bool self_verify = false;
    static const bool debug = false;
    static const int leaf_slots = LS;
    static const int inner_slots = IS;
    static const size_t binsearch_threshold = BIN ? 0 : (size_t)1 << 30;
};

struct ShapeFacts {
    std::vector<long long> leaf_depths;                        // depth of every leaf (tree walk)
    std::vector<std::vector<long long>> nodes;                 // [level, slotuse, is_root] (tree walk)
    std::vector<std::vector<long long>> seps;                  // [separator, max key below it, min key right of it] in order
    std::vector<long long> inorder, fwd, bwd;                  // keys: tree walk, next_leaf chain, prev_leaf chain
    long long chain_leaves = 0, walk_leaves = 0, walk_inner = 0, walk_items = 0;
    long long st_size = 0, st_leaves = 0, st_inner = 0;
    bool head_ok = true, tail_ok = true, levels_ok = true;
};

} // namespace vf

namespace tlx {
class btree_friend {
public:
    template <class Facade> static auto& tree(Facade& f) { return f.tree_; }
    template <class BT>
    static void walk(const BT& t, const typename BT::node* n, int depth, bool is_root, vf::ShapeFacts& o, long long* minkey, long long* maxkey) {
        o.nodes.push_back({n->level, n->slotuse, is_root ? 1 : 0});
        if (n->is_leafnode()) {
            auto* lf = static_cast<const typename BT::LeafNode*>(n);
            o.leaf_depths.push_back(depth); ++o.walk_leaves; o.walk_items += lf->slotuse;
            for (unsigned s = 0; s < lf->slotuse; ++s) o.inorder.push_back(vf::val(lf->key(s)));
            *minkey = lf->slotuse ? vf::val(lf->key(0)) : 0;
            *maxkey = lf->slotuse ? vf::val(lf->key(lf->slotuse - 1)) : 0;
            return;
        }
        auto* in = static_cast<const typename BT::InnerNode*>(n);
        ++o.walk_inner;
        std::vector<long long> mins(in->slotuse + 1), maxs(in->slotuse + 1);
        size_t first_sep = o.seps.size();
        for (unsigned s = 0; s <= in->slotuse; ++s) {
            const typename BT::node* ch = in->childid[s];
            if (ch->level + 1 != in->level) o.levels_ok = false;
            if (s > 0) o.seps.push_back({vf::val(in->key(s - 1)), maxs[s - 1], 0});
            size_t my = o.seps.size() - 1;
            walk(t, ch, depth + 1, false, o, &mins[s], &maxs[s]);
            if (s > 0) o.seps[my][2] = mins[s];
        }
        (void)first_sep;
        *minkey = mins[0]; *maxkey = maxs[in->slotuse];
    }
    template <class BT>
    static void shape(const BT& t, vf::ShapeFacts& o) {
        o.st_size = t.stats_.size; o.st_leaves = t.stats_.leaves; o.st_inner = t.stats_.inner_nodes;
        long long mn, mx;
        if (t.root_) walk(t, t.root_, 0, true, o, &mn, &mx);
        o.head_ok = (t.head_leaf_ == nullptr) == (t.root_ == nullptr) && (!t.head_leaf_ || t.head_leaf_->prev_leaf == nullptr);
        o.tail_ok = (t.tail_leaf_ == nullptr) == (t.root_ == nullptr) && (!t.tail_leaf_ || t.tail_leaf_->next_leaf == nullptr);
        size_t guard = 0;
        for (auto* lf = t.head_leaf_; lf && guard < 100000; lf = lf->next_leaf, ++guard) {
            ++o.chain_leaves;
            for (unsigned s = 0; s < lf->slotuse; ++s) o.fwd.push_back(vf::val(lf->key(s)));
            if (lf->next_leaf && lf->next_leaf->prev_leaf != lf) o.head_ok = false;
            if (!lf->next_leaf && lf != t.tail_leaf_) o.tail_ok = false;
        }
        guard = 0;
        for (auto* lf = t.tail_leaf_; lf && guard < 100000; lf = lf->prev_leaf, ++guard)
            for (unsigned s = lf->slotuse; s > 0; --s) o.bwd.push_back(vf::val(lf->key(s - 1)));
    }
};
} // namespace tlx

namespace vf {

inline std::string pairs_json(const std::vector<std::pair<long long, long long>>& v) {
    std::string s = "[";
    for (size_t i = 0; i < v.size(); ++i) { if (i) s += ","; s += "[" + std::to_string(v[i].first) + "," + std::to_string(v[i].second) + "]"; }
    return s + "]";
}
inline std::string rows_json(const std::vector<std::vector<long long>>& v) {
    std::string s = "[";
    for (size_t i = 0; i < v.size(); ++i) { if (i) s += ","; s += jarr(v[i]); }
    return s + "]";
}

// FL: 0 set, 1 multiset, 2 map, 3 multimap
// TRK: 0 = int keys and int data, 1 = lifetime-tracked keys and data, 2 = int keys with lifetime-tracked data (maps only; a trivially
// destructible key next to a heap-owning mapped value: round-4 seeded change "free_node skips the destructor when the key is trivial")
template <int FL, int LS, int IS, bool BIN, bool DESC, int TRK>
struct Runner {
    static const bool IsMap = FL >= 2, Multi = (FL & 1) != 0;
    using KT = typename std::conditional<TRK == 1, Tracked, int>::type;
    using DT = typename std::conditional<TRK != 0, Tracked, int>::type;
    static const int TrkKey = TRK == 1 ? 1 : 0, TrkData = (FL >= 2 && TRK != 0) ? 1 : 0;     // tracked instances per leaf slot / inner slot
    // the key order is a comparator OBJECT with run-time state (VF_Stateful, armed): a tree that default-constructs its own key_compare orders in reverse
    using Cmp = VF_Stateful<typename std::conditional<DESC, KGreater, KLess>::type>;
    using SetV = KT;
    using MapV = std::pair<KT, DT>;
    using VT = typename std::conditional<IsMap, MapV, SetV>::type;
    using TR = Traits<LS, IS, BIN, KT, VT>;
    using C = typename std::conditional<FL == 0, tlx::btree_set<KT, Cmp, TR, CAlloc<KT>>,
              typename std::conditional<FL == 1, tlx::btree_multiset<KT, Cmp, TR, CAlloc<KT>>,
              typename std::conditional<FL == 2, tlx::btree_map<KT, DT, Cmp, TR, CAlloc<MapV>>,
                                                 tlx::btree_multimap<KT, DT, Cmp, TR, CAlloc<MapV>>>::type>::type>::type;

    static long long key_of(const SetV& v) { return val(v); }
    static long long key_of(const MapV& v) { return val(v.first); }
    static long long pay_of(const SetV&) { return 0; }
    static long long pay_of(const MapV& v) { return val(v.second); }
    static VT make(long long k, long long u) { return make_(k, u, std::integral_constant<bool, IsMap>()); }
    static VT make_(long long k, long long, std::false_type) { return SetV((int)k); }
    static VT make_(long long k, long long u, std::true_type) { return MapV(KT((int)k), DT((int)u)); }

    Out& out; bool shapes;
    C* c[3] = {nullptr, nullptr, nullptr};
    long long serial = 0, ncopies = 0;
    std::vector<long long> probe;
    Runner(Out& o, bool sh) : out(o), shapes(sh) {}

    std::vector<std::pair<long long, long long>> contents(C& x) {
        std::vector<std::pair<long long, long long>> v; size_t guard = 0;
        for (auto it = x.begin(); it != x.end() && guard < 100000; ++it, ++guard) v.emplace_back(key_of(*it), pay_of(*it));
        return v;
    }
    std::vector<std::pair<long long, long long>> rcontents(C& x) {
        std::vector<std::pair<long long, long long>> v; size_t guard = 0;
        for (auto it = x.rbegin(); it != x.rend() && guard < 100000; ++it, ++guard) v.emplace_back(key_of(*it), pay_of(*it));
        return v;
    }
    template <class It> long long index_of(C& x, It it) {
        long long i = 1; size_t guard = 0;
        for (auto b = x.begin(); b != x.end() && guard < 100000; ++b, ++i, ++guard) if (b == it) return i;
        return it == x.end() ? i : -1;
    }
    typename C::iterator at(C& x, long long i) { auto it = x.begin(); while (i-- > 0 && it != x.end()) ++it; return it; }

    void observe(Ev& e, int ci) {
        C& x = *c[ci];
        e.raw("s1", pairs_json(contents(*c[1]))).raw("s2", pairs_json(contents(*c[2]))).raw("rev", pairs_json(rcontents(x)));
        e.num("size", (long long)x.size()).boolean("empty", x.empty());
        const C& cx = x;
        std::string b = "[";
        for (size_t i = 0; i < probe.size(); ++i) {
            KT k((int)probe[i]);
            auto er = x.equal_range(k);
            auto cer = cx.equal_range(k);
            long long f1 = index_of(x, x.find(k));
            long long cf = 1; { auto it = cx.find(k); cf = 1; for (auto bb = cx.begin(); bb != cx.end() && bb != it; ++bb) ++cf; }
            long long lb = index_of(x, x.lower_bound(k)), ub = index_of(x, x.upper_bound(k));
            long long clb = 1, cub = 1;
            { auto it = cx.lower_bound(k); for (auto bb = cx.begin(); bb != cx.end() && bb != it; ++bb) ++clb; }
            { auto it = cx.upper_bound(k); for (auto bb = cx.begin(); bb != cx.end() && bb != it; ++bb) ++cub; }
            long long elo = index_of(x, er.first), ehi = index_of(x, er.second);
            long long celo = 1, cehi = 1;
            for (auto bb = cx.begin(); bb != cx.end() && bb != cer.first; ++bb) ++celo;
            for (auto bb = cx.begin(); bb != cx.end() && bb != cer.second; ++bb) ++cehi;
            // const and non-const overloads must agree; a disagreement is reported as an impossible position
            if (cf != f1 && !(Multi)) f1 = -2;
            if (clb != lb) lb = -2;
            if (cub != ub) ub = -2;
            if (celo != elo) elo = -2;
            if (cehi != ehi) ehi = -2;
            if (i) b += ",";
            b += "[" + std::to_string(probe[i]) + "," + std::to_string(f1) + "," + std::to_string((long long)x.count(k)) + "," + std::to_string(lb) + "," +
                 std::to_string(ub) + "," + std::to_string(x.exists(k) ? 1 : 0) + "," + std::to_string(elo) + "," + std::to_string(ehi) + "]";
        }
        e.raw("bat", b + "]");
    }

    void shape_event(int ci, const char* after) {
        if (!shapes) return;
        C& x = *c[ci];
        ShapeFacts f;
        tlx::btree_friend::shape(tlx::btree_friend::tree(x), f);
        bool ver = true; std::string why;
        try { x.verify(); } catch (std::exception& ex) { ver = false; why = ex.what(); }
        auto& L = ledger();
        // live element instances inside node storage vs. what the live nodes must hold
        long long in_nodes = 0;
        if (TRK) {
            for (auto& kv : L.live) {
                auto it = aledger().live.upper_bound(kv.first);
                if (it != aledger().live.begin()) { --it; if ((const char*)kv.first < (const char*)it->first + it->second.second) ++in_nodes; }
            }
        }
        auto st = x.get_stats();
        Ev e("shape");
        e.num("c", ci).str("after", after).num("ls", LS).num("is", IS).raw("keys", jarr(f.inorder)).raw("depths", jarr(f.leaf_depths)).raw("nodes", rows_json(f.nodes))
         .raw("seps", rows_json(f.seps)).raw("fwd", jarr(f.fwd)).raw("bwd", jarr(f.bwd)).raw("stats", jarr(std::vector<long long>{(long long)st.size, (long long)st.leaves, (long long)st.inner_nodes}))
         .raw("counted", jarr(std::vector<long long>{f.walk_items, f.walk_leaves, f.walk_inner})).num("chain_leaves", f.chain_leaves)
         .boolean("links", f.head_ok && f.tail_ok && f.levels_ok).num("size", (long long)x.size()).boolean("verify", ver)
         .num("alloc_live", (long long)aledger().live.size()).num("alloc_err", aledger().errors).num("ledger_err", L.nerr)
         .boolean("tracked", TrkKey + TrkData > 0).num("elems_in_nodes", in_nodes);
        // every container's nodes: needed for the allocator clause (live blocks = nodes of both containers)
        long long other_nodes = 0;
        for (int j = 1; j <= 2; ++j) if (j != ci && c[j]) { auto s2 = c[j]->get_stats(); other_nodes += (long long)(s2.leaves + s2.inner_nodes); }
        long long other_cap = 0;
        for (int j = 1; j <= 2; ++j) if (j != ci && c[j]) { auto s2 = c[j]->get_stats(); other_cap += (long long)(s2.leaves * LS * (TrkKey + TrkData) + s2.inner_nodes * IS * TrkKey); }
        e.num("other_nodes", other_nodes).num("other_cap", other_cap).num("elem_per_leaf", (long long)LS * (TrkKey + TrkData)).num("elem_per_inner", (long long)IS * TrkKey);
        if (!ver) { std::string w; for (char ch : why.substr(0, 120)) w += (std::isalnum((unsigned char)ch) || ch == ' ' || ch == '_' || ch == '.' || ch == ':' || ch == '(' || ch == ')' || ch == '>' || ch == '<' || ch == '=' || ch == '-') ? ch : ' '; e.str("why", w); }
        e.emit(out);
    }

    void run(std::istringstream& is) {
        aledger().out = shapes ? &out : nullptr;
        { Ev e("reset"); e.boolean("multi", Multi).boolean("map", IsMap).boolean("desc", DESC).num("ls", LS).num("is", IS).boolean("bin", BIN).boolean("tracked", TRK).num("flavour", FL); e.emit(out); }
        long long live0 = (long long)ledger().live.size();
        c[1] = new C(Cmp(1), typename C::allocator_type(1)); c[2] = new C(Cmp(1), typename C::allocator_type(2));
        std::string op;
        while (is >> op) {
            Ev e("op"); e.str("op", op);
            int ci = 1;
            if (op == "I" || op == "U" || op == "H") {
                long long h = 0, k; is >> ci; if (op == "H") is >> h; is >> k;
                C& x = *c[ci];
                long long u = IsMap ? ++serial : 0;
                e.num("c", ci).num("k", k).num("u", u);
                if (op == "U" && FL == 2) {
                    sub(x, k, u, std::integral_constant<bool, FL == 2>());
                } else if (op == "H") {
                    auto hint = at(x, h % ((long long)x.size() + 1));
                    auto it = ins_hint(x, hint, k, u);
                    e.num("pos", index_of(x, it));
                } else {
                    bool ins = true; long long pos = ins_(x, k, u, ins);
                    e.num("pos", pos).boolean("ins", ins);
                    if (op == "U") e.s.replace(e.s.find("\"op\":\"U\""), 8, "\"op\":\"I\"");
                }
            } else if (op == "R" || op == "B") {
                size_t n; is >> ci >> n; auto ks = read_ints(is, n);
                C& x = *c[ci];
                std::vector<VT> vs; std::vector<std::pair<long long, long long>> es;
                if (op == "B") {
                    std::sort(ks.begin(), ks.end()); if (DESC) std::reverse(ks.begin(), ks.end());
                    if (!Multi) ks.erase(std::unique(ks.begin(), ks.end()), ks.end());
                    if (!x.empty()) {        // bulk_load requires an empty tree: clear first, as its own logged step
                        x.clear(); Ev ce("op"); ce.str("op", "C").num("c", ci); observe(ce, ci); ce.emit(out); shape_event(ci, "C");
                    }
                }
                for (auto k : ks) { long long u = IsMap ? ++serial : 0; vs.push_back(make(k, u)); es.emplace_back(k, u); }
                e.num("c", ci).raw("es", pairs_json(es));
                if (op == "R") x.insert(vs.begin(), vs.end()); else x.bulk_load(vs.begin(), vs.end());
            } else if (op == "E") {
                long long k; is >> ci >> k; e.num("c", ci).num("k", k).num("n", (long long)c[ci]->erase(KT((int)k)));
            } else if (op == "O") {
                long long k; is >> ci >> k; e.num("c", ci).num("k", k).boolean("ins", c[ci]->erase_one(KT((int)k)));
            } else if (op == "X") {
                long long i; is >> ci >> i; C& x = *c[ci];
                if (x.empty()) continue;
                i %= (long long)x.size();
                e.num("c", ci).num("pos", i + 1);
                x.erase(at(x, i));
            } else if (op == "C") {
                is >> ci; e.num("c", ci); c[ci]->clear();
            } else if (op == "Y") {
                // copy construction, alternating with construction from the range [begin, end) of the other container (same contents, same order)
                ci = 2; bool byrange = (++ncopies % 2) == 0;
                C* nc = byrange ? new C(c[1]->begin(), c[1]->end(), Cmp(1), typename C::allocator_type(3)) : new C(*c[1]); delete c[2]; c[2] = nc; e.num("c", 2);
                if (byrange) e.s.replace(e.s.find("\"op\":\"Y\""), 8, "\"op\":\"YR\"");       // a range construction may order equivalent keys differently from the source
            } else if (op == "A") {
                long long n; is >> n; e.num("n", n);
                if (n == 1) { *c[1] = *c[2]; ci = 1; } else if (n == 2) { *c[2] = *c[1]; ci = 2; } else { C& self = *c[1]; *c[1] = self; ci = 1; }
                e.num("c", ci);
            } else if (op == "S") {
                c[1]->swap(*c[2]); e.num("c", 1);
            } else if (op == "M") {
                const C& a = *c[1]; const C& b = *c[2];
                e.num("c", 1).raw("cmp", std::string("[") + (a == b ? "true" : "false") + "," + (a != b ? "true" : "false") + "," + (a < b ? "true" : "false") + "," +
                      (a > b ? "true" : "false") + "," + (a <= b ? "true" : "false") + "," + (a >= b ? "true" : "false") + "]");
            } else {
                continue;
            }
            observe(e, ci);
            e.emit(out);
            shape_event(ci, op.c_str());
            if (op == "Y" || op == "A" || op == "S") shape_event(3 - ci, op.c_str());
        }
        delete c[1]; delete c[2]; c[1] = c[2] = nullptr;
        if (shapes) {
            Ev e("end"); e.num("alloc_live", (long long)aledger().live.size()).num("alloc_err", aledger().errors).num("ledger_err", ledger().nerr)
                .num("elems_live", (long long)ledger().live.size() - live0).num("allocs", aledger().allocs).num("frees", aledger().frees);
            e.emit(out);
        }
        aledger().out = nullptr;
    }
    // maps: every second insertion goes through insert2(key, data) / insert2(hint, key, data), the (key, data) forms of insert
    long long ins_(C& x, long long k, long long u, bool& ins) { return ins_m(x, k, u, ins, std::integral_constant<bool, IsMap>()); }
    long long ins_m(C& x, long long k, long long u, bool& ins, std::false_type) { return ins2(x, x.insert(make(k, u)), ins); }
    long long ins_m(C& x, long long k, long long u, bool& ins, std::true_type) {
        if (u % 2) return ins2(x, x.insert(make(k, u)), ins);
        return ins2(x, x.insert2(KT((int)k), DT((int)u)), ins);
    }
    typename C::iterator ins_hint(C& x, typename C::iterator hint, long long k, long long u) { return ins_hint_m(x, hint, k, u, std::integral_constant<bool, IsMap>()); }
    typename C::iterator ins_hint_m(C& x, typename C::iterator hint, long long k, long long u, std::false_type) { return x.insert(hint, make(k, u)); }
    typename C::iterator ins_hint_m(C& x, typename C::iterator hint, long long k, long long u, std::true_type) {
        return (u % 2) ? x.insert(hint, make(k, u)) : x.insert2(hint, KT((int)k), DT((int)u));
    }
    long long ins2(C& x, std::pair<typename C::iterator, bool> r, bool& ins) { ins = r.second; return index_of(x, r.first); }
    long long ins2(C& x, typename C::iterator r, bool& ins) { ins = true; return index_of(x, r); }
    void sub(C& x, long long k, long long u, std::true_type) { x[KT((int)k)] = DT((int)u); }
    void sub(C&, long long, long long, std::false_type) {}
};

// configurations per flavour: (leaf slots, inner slots, binary search, descending order, tracked element type)
template <int FL>
void run_flavour(Out& out, int cfg, bool shapes, const std::vector<long long>& probe, const std::string& script) {
    std::istringstream is(script);
#define CFG(n, LS, IS, BIN, DESC, TRK) case n: { Runner<FL, LS, IS, BIN, DESC, TRK> r(out, shapes); r.probe = probe; r.run(is); break; }
    switch (cfg) {
        CFG(0, 4, 4, false, false, 1)
        CFG(1, 4, 5, true, true, 1)
        CFG(2, 5, 4, false, false, 2)
        CFG(3, 6, 7, true, false, 1)
        CFG(4, 7, 4, false, true, 1)
        CFG(5, 8, 8, true, false, 0)
        CFG(6, 16, 4, true, false, 1)
        CFG(7, 4, 16, false, true, 2)
        CFG(8, 5, 5, true, false, 1)
        CFG(9, 9, 6, false, false, 1)
        default: break;
    }
#undef CFG
}
const int NCFG = 10;

} // namespace vf
