// C01 / C02 driver: drv_btree <script> <trace> <shapes 0|1> <flavours, e.g. 0123> <configs, e.g. 0123456789>
// script: first line "P k1 k2 ..." = probe keys of the query battery; every other line is one history (see btree_run.hpp)
#include "btree_run.hpp"
#include <fstream>
using namespace vf;
namespace vf {
extern template void run_flavour<0>(Out&, int, bool, const std::vector<long long>&, const std::string&);
extern template void run_flavour<1>(Out&, int, bool, const std::vector<long long>&, const std::string&);
extern template void run_flavour<2>(Out&, int, bool, const std::vector<long long>&, const std::string&);
extern template void run_flavour<3>(Out&, int, bool, const std::vector<long long>&, const std::string&);
}
int main(int argc, char** argv) {
    if (argc < 6) return 2;
    std::ifstream in(argv[1]);
    Out out; out.open(argv[2]); install_terminate(out);
    bool shapes = std::atoi(argv[3]) != 0;
    std::string fl = argv[4], cf = argv[5];
    tlx::set_die_with_exception(true);
    std::vector<long long> probe;
    std::string line;
    while (std::getline(in, line)) {
        if (line.empty()) continue;
        if (line[0] == 'P') { std::istringstream is(line.substr(1)); long long k; probe.clear(); while (is >> k) probe.push_back(k); continue; }
        for (char f : fl) for (char c : cf) {
            int cfg = c - '0';
            switch (f) { case '0': run_flavour<0>(out, cfg, shapes, probe, line); break; case '1': run_flavour<1>(out, cfg, shapes, probe, line); break;
                         case '2': run_flavour<2>(out, cfg, shapes, probe, line); break; default: run_flavour<3>(out, cfg, shapes, probe, line); break; }
        }
    }
    out.flush();
    return 0;
}
