// one translation unit per container flavour keeps the template instantiations compiling in parallel
#include "btree_run.hpp"
namespace vf { template void run_flavour<1>(Out&, int, bool, const std::vector<long long>&, const std::string&); }
