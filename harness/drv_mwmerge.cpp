// C05 driver: sequential multiway merge front ends x algorithms x stable x sentinels x element size x comparator.
// script line: k {len key...}xk  L        (keys are ranks 1..; L = number of elements to merge)
#include <common/ndjson.hpp>
#include <tlx/algorithm/merge_advance.hpp>
#include <tlx/algorithm/multiway_merge.hpp>
#include <fstream>
using namespace vf;

struct Small { int key; short src; short pos; };                       // <= 2 * sizeof(size_t): copy-based loser tree
struct Large { long long key; long long src; long long pos; char pad[24]; };   // pointer-based loser tree
VF_DECOY_ORDER(Small, key)
VF_DECOY_ORDER(Large, key)
struct LessKey { template <class T> bool operator()(const T& a, const T& b) const { return a.key < b.key; } };
struct GreaterMirror { template <class T> bool operator()(const T& a, const T& b) const { return a.key > b.key; } };   // keys stored mirrored

template <class T, class Cmp>
static void run_cfg(Out& out, const std::vector<std::vector<long long>>& keys, long long L, bool stable, bool sentinels, int mwma, bool mirror, const char* el, int front) {
    size_t k = keys.size();
    std::vector<std::vector<T>> data(k);
    for (size_t i = 0; i < k; ++i) {
        for (size_t p = 0; p < keys[i].size(); ++p) { T e{}; e.key = mirror ? 1000 - keys[i][p] : keys[i][p]; e.src = (decltype(e.src))(i + 1); e.pos = (decltype(e.pos))(p + 1); data[i].push_back(e); }
        if (sentinels) { T s{}; s.key = mirror ? -5 : 100000; s.src = 0; s.pos = 0; data[i].push_back(s); }     // greater than all real ones in the order
    }
    using It = typename std::vector<T>::iterator;
    std::vector<std::pair<It, It>> seqs;
    for (size_t i = 0; i < k; ++i) seqs.push_back({data[i].begin(), data[i].end() - (sentinels ? 1 : 0)});
    std::vector<It> begin0; for (auto& s : seqs) begin0.push_back(s.first);
    std::vector<T> target(L + 2);
    for (auto& t : target) { t.key = -777; t.src = -1; t.pos = -1; }
    Cmp cmp(1);        // armed: see VF_Stateful
    auto m = static_cast<tlx::MultiwayMergeAlgorithm>(mwma);
    typename std::vector<T>::iterator ret;
    if (front >= 2) {
        // the two-way merges of merge_advance.hpp called directly (k = 2, no sentinels): 2 merge_advance_usual, 3 merge_advance_movc, 4 merge_advance;
        // the library itself only reaches the conditional-move variant
        It t = target.begin();
        if (front == 2) ret = tlx::merge_advance_usual(seqs[0].first, seqs[0].second, seqs[1].first, seqs[1].second, t, L, cmp);
        else if (front == 3) ret = tlx::merge_advance_movc(seqs[0].first, seqs[0].second, seqs[1].first, seqs[1].second, t, L, cmp);
        else ret = tlx::merge_advance(seqs[0].first, seqs[0].second, seqs[1].first, seqs[1].second, t, L, cmp);
    } else if (front == 0) {
        if (stable && sentinels) ret = tlx::stable_multiway_merge_sentinels(seqs.begin(), seqs.end(), target.begin(), L, cmp, m);
        else if (stable) ret = tlx::stable_multiway_merge(seqs.begin(), seqs.end(), target.begin(), L, cmp, m);
        else if (sentinels) ret = tlx::multiway_merge_sentinels(seqs.begin(), seqs.end(), target.begin(), L, cmp, m);
        else ret = tlx::multiway_merge(seqs.begin(), seqs.end(), target.begin(), L, cmp, m);
    } else {
        if (stable && sentinels) ret = tlx::multiway_merge_base<true, true>(seqs.begin(), seqs.end(), target.begin(), L, cmp, m);
        else if (stable) ret = tlx::multiway_merge_base<true, false>(seqs.begin(), seqs.end(), target.begin(), L, cmp, m);
        else if (sentinels) ret = tlx::multiway_merge_base<false, true>(seqs.begin(), seqs.end(), target.begin(), L, cmp, m);
        else ret = tlx::multiway_merge_base<false, false>(seqs.begin(), seqs.end(), target.begin(), L, cmp, m);
    }
    std::string sj = "[", oj = "[";
    for (size_t i = 0; i < k; ++i) sj += std::string(i ? "," : "") + jarr(keys[i]);
    long long nout = ret - target.begin();
    for (long long n = 0; n < nout && n < (long long)target.size(); ++n) {
        long long key = mirror ? 1000 - target[n].key : target[n].key;
        oj += std::string(n ? "," : "") + "[" + std::to_string(key) + "," + std::to_string((long long)target[n].src) + "," + std::to_string((long long)target[n].pos) + "]";
    }
    std::vector<long long> adv; for (size_t i = 0; i < k; ++i) adv.push_back(seqs[i].first - begin0[i]);
    bool untouched = target[L].src == -1 && target[L + 1].src == -1;          // nothing written behind the requested range
    Ev e("merge"); e.raw("seqs", sj + "]").num("len", L).boolean("stable", stable).raw("out", oj + "]").num("ret", untouched ? nout : -1).arr("adv", adv)
        .boolean("parallel", false).boolean("sentinels", sentinels).num("mwma", mwma).str("el", el).boolean("mirror", mirror).num("front", front);
    e.emit(out);
}

int main(int argc, char** argv) {
    if (argc < 3) return 2;
    std::ifstream in(argv[1]);
    Out out; out.open(argv[2]); install_terminate(out);
    Ev("reset").emit(out);
    std::string line; long n = 0;
    while (std::getline(in, line)) {
        if (line.empty()) continue;
        std::istringstream is(line);
        size_t k; is >> k;
        std::vector<std::vector<long long>> keys(k);
        for (auto& s : keys) { size_t len; is >> len; s.resize(len); for (auto& x : s) is >> x; }
        long long L; is >> L;
        ++n;
        for (int stable = 0; stable < 2; ++stable) for (int sent = 0; sent < 2; ++sent) for (int mwma = 0; mwma < 4; ++mwma) {
            int v = (int)((n + stable * 5 + sent * 3 + mwma) % 4);
            int front = (int)((n + mwma) % 2);
            if (v == 0) run_cfg<Small, VF_Stateful<LessKey>>(out, keys, L, stable, sent, mwma, false, "small", front);
            else if (v == 1) run_cfg<Large, VF_Stateful<LessKey>>(out, keys, L, stable, sent, mwma, false, "large", front);
            else if (v == 2) run_cfg<Small, VF_Stateful<GreaterMirror>>(out, keys, L, stable, sent, mwma, true, "small", front);
            else run_cfg<Large, VF_Stateful<GreaterMirror>>(out, keys, L, stable, sent, mwma, true, "large", front);
        }
        if (k == 2) for (int front = 2; front <= 4; ++front) {          // a two-way merge that takes equal elements from the first input first is the stable merge
            // (merge_advance_usual is not what the stable entry points use: it is only required to produce a legal merge run)
            if ((n + front) % 2) run_cfg<Small, VF_Stateful<LessKey>>(out, keys, L, front != 2, false, 0, false, "small", front);
            else run_cfg<Large, VF_Stateful<GreaterMirror>>(out, keys, L, front != 2, false, 0, true, "large", front);
        }
    }
    out.flush();
    return 0;
}
