// C15 driver: records the compare-exchange sequence of every tlx sorting network.
// usage: drv_networks <trace-out>
#include <common/ndjson.hpp>
#include <tlx/sort/networks/best.hpp>
#include <tlx/sort/networks/bose_nelson.hpp>
#include <tlx/sort/networks/bose_nelson_parameter.hpp>
#include <tlx/sort/networks/cswap.hpp>
#include <set>
using namespace vf;
namespace sn = tlx::sort_networks;

using Seq = std::vector<std::pair<int, int>>;
struct Elem { int key; int id; };
VF_DECOY_ORDER(Elem, key)
struct ElemLess { bool operator()(const Elem& a, const Elem& b) const { return a.key < b.key; } };

// recording compare-exchange: logs positions, then does what the library's default functor does
struct RecCSwap {
    Elem* base; Seq* log;
    void operator()(Elem& l, Elem& r) { log->push_back({int(&l - base), int(&r - base)}); sn::CS_IfSwap<ElemLess> cs{ElemLess()}; cs(l, r); }
};
// recording comparator for the dispatching entry points: CS_IfSwap calls cmp(right, left)
struct RecCmp {
    const Elem* base; Seq* log;
    bool operator()(const Elem& a, const Elem& b) const { log->push_back({int(&b - base), int(&a - base)}); return a.key < b.key; }
};

template <class F> static void for_sizes(F f) {}

#define DIRECT_CASES(NS) \
    case 2: NS::sort2(a, cs); break; case 3: NS::sort3(a, cs); break; case 4: NS::sort4(a, cs); break; case 5: NS::sort5(a, cs); break; \
    case 6: NS::sort6(a, cs); break; case 7: NS::sort7(a, cs); break; case 8: NS::sort8(a, cs); break; case 9: NS::sort9(a, cs); break; \
    case 10: NS::sort10(a, cs); break; case 11: NS::sort11(a, cs); break; case 12: NS::sort12(a, cs); break; case 13: NS::sort13(a, cs); break; \
    case 14: NS::sort14(a, cs); break; case 15: NS::sort15(a, cs); break; case 16: NS::sort16(a, cs); break;

static void direct(int family, int n, Elem* a, RecCSwap cs) {
    if (family == 0) { switch (n) { DIRECT_CASES(sn::best) } }
    else if (family == 1) { switch (n) { DIRECT_CASES(sn::bose_nelson) } }
    else {
        namespace bp = sn::bose_nelson_parameter;
        switch (n) {
        case 2: bp::sort2(a[0], a[1], cs); break;
        case 3: bp::sort3(a[0], a[1], a[2], cs); break;
        case 4: bp::sort4(a[0], a[1], a[2], a[3], cs); break;
        case 5: bp::sort5(a[0], a[1], a[2], a[3], a[4], cs); break;
        case 6: bp::sort6(a[0], a[1], a[2], a[3], a[4], a[5], cs); break;
        case 7: bp::sort7(a[0], a[1], a[2], a[3], a[4], a[5], a[6], cs); break;
        case 8: bp::sort8(a[0], a[1], a[2], a[3], a[4], a[5], a[6], a[7], cs); break;
        case 9: bp::sort9(a[0], a[1], a[2], a[3], a[4], a[5], a[6], a[7], a[8], cs); break;
        case 10: bp::sort10(a[0], a[1], a[2], a[3], a[4], a[5], a[6], a[7], a[8], a[9], cs); break;
        case 11: bp::sort11(a[0], a[1], a[2], a[3], a[4], a[5], a[6], a[7], a[8], a[9], a[10], cs); break;
        case 12: bp::sort12(a[0], a[1], a[2], a[3], a[4], a[5], a[6], a[7], a[8], a[9], a[10], a[11], cs); break;
        case 13: bp::sort13(a[0], a[1], a[2], a[3], a[4], a[5], a[6], a[7], a[8], a[9], a[10], a[11], a[12], cs); break;
        case 14: bp::sort14(a[0], a[1], a[2], a[3], a[4], a[5], a[6], a[7], a[8], a[9], a[10], a[11], a[12], a[13], cs); break;
        case 15: bp::sort15(a[0], a[1], a[2], a[3], a[4], a[5], a[6], a[7], a[8], a[9], a[10], a[11], a[12], a[13], a[14], cs); break;
        case 16: bp::sort16(a[0], a[1], a[2], a[3], a[4], a[5], a[6], a[7], a[8], a[9], a[10], a[11], a[12], a[13], a[14], a[15], cs); break;
        }
    }
}
static void dispatched(int family, int n, Elem* a, RecCmp cmp) {
    if (family == 0) sn::best::sort(a, a + n, cmp);
    else if (family == 1) sn::bose_nelson::sort(a, a + n, cmp);
    else sn::bose_nelson_parameter::sort(a, a + n, cmp);
}

static const char* FAM[] = {"best", "bose_nelson", "bose_nelson_parameter"};

int main(int argc, char** argv) {
    if (argc < 2) return 2;
    Out out; out.open(argv[1]); install_terminate(out);
    Ev("reset").emit(out);
    for (int family = 0; family < 3; ++family)
        for (int entry = 0; entry < 2; ++entry)
            for (int n = (entry ? 0 : 2); n <= 16; ++n) {
                std::set<Seq> seqs; long bad = 0;
                for (unsigned mask = 0; mask < (1u << n); ++mask) {
                    Elem a[17]; int ones = 0;
                    for (int i = 0; i < n; ++i) { a[i].key = (mask >> i) & 1; a[i].id = i; ones += a[i].key; }
                    Seq log;
                    if (entry == 0) direct(family, n, a, RecCSwap{a, &log}); else dispatched(family, n, a, RecCmp{a, &log});
                    seqs.insert(log);
                    // the real output: sorted, and a permutation of the input objects
                    int o = 0; std::set<int> ids; bool ok = true;
                    for (int i = 0; i < n; ++i) { o += a[i].key; ids.insert(a[i].id); if (i && a[i - 1].key > a[i].key) ok = false; if (a[i].key != ((mask >> a[i].id) & 1)) ok = false; }
                    if (!ok || o != ones || (int)ids.size() != n) ++bad;
                }
                const Seq& s = *seqs.begin();
                std::string sj = "[";
                for (size_t i = 0; i < s.size(); ++i) sj += std::string(i ? "," : "") + "[" + std::to_string(s[i].first) + "," + std::to_string(s[i].second) + "]";
                sj += "]";
                Ev e("net"); e.str("family", FAM[family]).num("n", n).str("entry", entry ? "dispatch" : "direct").raw("seq", sj).num("variants", (long long)seqs.size()).num("bad_outputs", bad);
                e.emit(out);
            }
    // the compare-exchange functor on a strict weak order with ties (keys 0..2, ids distinguish equivalent elements)
    for (int ka = 0; ka < 3; ++ka) for (int kb = 0; kb < 3; ++kb) {
        Elem l{ka, 1}, r{kb, 2};
        sn::CS_IfSwap<ElemLess> cs{ElemLess()};
        cs(l, r);
        Ev e("cswap"); e.num("ka", ka).num("ida", 1).num("kb", kb).num("idb", 2).raw("outl", "[" + std::to_string(l.key) + "," + std::to_string(l.id) + "]").raw("outr", "[" + std::to_string(r.key) + "," + std::to_string(r.id) + "]");
        e.emit(out);
    }
    out.flush();
    return 0;
}
