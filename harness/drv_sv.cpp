// C18 driver: every query of tlx::StringView and of std::string_view on the same bytes.
// script line: hlen h... nlen n...     (bytes as integers 0..255)
// emits {"e":"sv", "t":{tlx results}} and {"e":"sv_std", "s":{std results}}
#include <common/ndjson.hpp>
#include <tlx/container/string_view.hpp>
#include <fstream>
#include <string_view>
using namespace vf;

static const size_t NP = 7;
static size_t Pv(size_t i, size_t npos) { return i == 6 ? npos : i; }
static long long R(size_t r, size_t npos) { return r == npos ? -1 : (long long)r; }
static std::string bytes(const char* p, size_t n) { std::string s = "["; for (size_t i = 0; i < n; ++i) s += std::string(i ? "," : "") + std::to_string((unsigned char)p[i]); return s + "]"; }
static const char* B(bool b) { return b ? "true" : "false"; }

template <class V>
static std::string results(const std::string& hs, const std::string& ns) {
    const size_t npos = V::npos;
    V h(hs.data(), hs.size()), n(ns.data(), ns.size());
    std::string o = "{";
    o += "\"compare\":" + std::to_string(h.compare(n));
    o += std::string(",\"eq\":") + B(h == n) + ",\"ne\":" + B(h != n) + ",\"lt\":" + B(h < n) + ",\"gt\":" + B(h > n) + ",\"le\":" + B(h <= n) + ",\"ge\":" + B(h >= n);
    o += std::string(",\"starts\":") + B(h.starts_with(n)) + ",\"ends\":" + B(h.ends_with(n));
    { std::string t(h); o += ",\"to_string\":" + bytes(t.data(), t.size()); }
    auto arr = [&](const char* name, auto f) { o += std::string(",\"") + name + "\":["; for (size_t i = 0; i < NP; ++i) o += std::string(i ? "," : "") + f(Pv(i, npos)); o += "]"; };
    arr("find", [&](size_t p) { return std::to_string(R(h.find(n, p), npos)); });
    arr("rfind", [&](size_t p) { return std::to_string(R(h.rfind(n, p), npos)); });
    arr("ffo", [&](size_t p) { return std::to_string(R(h.find_first_of(n, p), npos)); });
    arr("flo", [&](size_t p) { return std::to_string(R(h.find_last_of(n, p), npos)); });
    arr("ffno", [&](size_t p) { return std::to_string(R(h.find_first_not_of(n, p), npos)); });
    arr("flno", [&](size_t p) { return std::to_string(R(h.find_last_not_of(n, p), npos)); });
    arr("at", [&](size_t p) { try { return std::to_string((unsigned char)h.at(p)); } catch (const std::out_of_range&) { return std::string("-2"); } });
    arr("rmpre", [&](size_t p) { if (p == npos || p > hs.size()) return std::string("[]"); V c = h; c.remove_prefix(p); return bytes(c.data(), c.size()); });
    arr("rmsuf", [&](size_t p) { if (p == npos || p > hs.size()) return std::string("[]"); V c = h; c.remove_suffix(p); return bytes(c.data(), c.size()); });
    auto arr2 = [&](const char* name, auto f) {
        o += std::string(",\"") + name + "\":[";
        for (size_t i = 0; i < NP; ++i) { o += std::string(i ? "," : "") + "["; for (size_t j = 0; j < NP; ++j) o += std::string(j ? "," : "") + f(Pv(i, npos), Pv(j, npos)); o += "]"; }
        o += "]";
    };
    arr2("substr", [&](size_t p, size_t c) { try { V s = h.substr(p, c); return bytes(s.data(), s.size()); } catch (const std::out_of_range&) { return std::string("[-2]"); } });
    arr2("copy", [&](size_t p, size_t c) { char buf[16]; try { size_t k = h.copy(buf, c, p); return bytes(buf, k); } catch (const std::out_of_range&) { return std::string("[-2]"); } });
    arr2("compare3", [&](size_t p, size_t c) { try { return std::to_string(h.compare(p, c, n)); } catch (const std::out_of_range&) { return std::string("-2"); } });
    if (ns.size() == 1) {
        char c = ns[0];
        o += std::string(",\"starts_c\":") + B(h.starts_with(c)) + ",\"ends_c\":" + B(h.ends_with(c));
        arr("find_c", [&](size_t p) { return std::to_string(R(h.find(c, p), npos)); });
        arr("rfind_c", [&](size_t p) { return std::to_string(R(h.rfind(c, p), npos)); });
    }
    return o + "}";
}

int main(int argc, char** argv) {
    if (argc < 3) return 2;
    std::ifstream in(argv[1]);
    Out out; out.open(argv[2]); install_terminate(out);
    Ev("reset").emit(out);
    std::string line;
    while (std::getline(in, line)) {
        if (line.empty()) continue;
        std::istringstream is(line);
        size_t hl; is >> hl; std::string h(hl, 0); for (auto& c : h) { int x; is >> x; c = (char)x; }
        size_t nl; is >> nl; std::string n(nl, 0); for (auto& c : n) { int x; is >> x; c = (char)x; }
        // the views must not see a terminating NUL by accident: copy into exact-size heap blocks
        std::string hb = bytes(h.data(), h.size()), nb = bytes(n.data(), n.size());
        { Ev e("sv"); e.raw("h", hb).raw("n", nb).raw("t", results<tlx::StringView>(h, n)); e.emit(out); }
        { Ev e("sv_std"); e.raw("h", hb).raw("n", nb).raw("s", results<std::string_view>(h, n)); e.emit(out); }
    }
    out.flush();
    return 0;
}
