// C18 driver: every query of tlx::StringView and of std::string_view on the same bytes.
// script line: hlen h... nlen n...     (bytes as integers 0..255)
// emits {"e":"sv", "t":{tlx results}} and {"e":"sv_std", "s":{std results}}
#include <common/ndjson.hpp>
#include <tlx/container/string_view.hpp>
#include <fstream>
#include <sstream>
#include <string_view>
#include <type_traits>
using namespace vf;

static const size_t NP = 8;       // positions / counts 0..5, npos and npos - 1 (pos + n wraps around)
static size_t Pv(size_t i, size_t npos) { return i == 6 ? npos : i == 7 ? npos - 1 : i; }
static long long R(size_t r, size_t npos) { return r == npos ? -1 : (long long)r; }
static std::string bytes(const char* p, size_t n) { std::string s = "["; for (size_t i = 0; i < n; ++i) s += std::string(i ? "," : "") + std::to_string((unsigned char)p[i]); return s + "]"; }
static const char* B(bool b) { return b ? "true" : "false"; }

template <class V>
static std::string results(const std::string& hs, const std::string& ns) {
    const size_t npos = V::npos;
    V h(hs.data(), hs.size()), n(ns.data(), ns.size());
    std::string o = "{";
    o += "\"compare\":" + std::to_string(h.compare(n));
    o += std::string(",\"eq\":") + B(h == n) + ",\"ne\":" + B(h != n) + ",\"lt\":" + B(h < n) + ",\"gt\":" + B(h > n) + ",\"le\":" + B(h <= n) + ",\"ge\":" + B(h >= n);
    o += std::string(",\"starts\":") + B(h.starts_with(n)) + ",\"ends\":" + B(h.ends_with(n));
    { std::string t(h); o += ",\"to_string\":" + bytes(t.data(), t.size()); }
    auto arr = [&](const char* name, auto f) { o += std::string(",\"") + name + "\":["; for (size_t i = 0; i < NP; ++i) o += std::string(i ? "," : "") + f(Pv(i, npos)); o += "]"; };
    arr("find", [&](size_t p) { return std::to_string(R(h.find(n, p), npos)); });
    arr("rfind", [&](size_t p) { return std::to_string(R(h.rfind(n, p), npos)); });
    arr("ffo", [&](size_t p) { return std::to_string(R(h.find_first_of(n, p), npos)); });
    arr("flo", [&](size_t p) { return std::to_string(R(h.find_last_of(n, p), npos)); });
    arr("ffno", [&](size_t p) { return std::to_string(R(h.find_first_not_of(n, p), npos)); });
    arr("flno", [&](size_t p) { return std::to_string(R(h.find_last_not_of(n, p), npos)); });
    arr("at", [&](size_t p) { try { return std::to_string((unsigned char)h.at(p)); } catch (const std::out_of_range&) { return std::string("-2"); } });
    arr("rmpre", [&](size_t p) { if (p >= npos - 1 || p > hs.size()) return std::string("[]"); V c = h; c.remove_prefix(p); return bytes(c.data(), c.size()); });
    arr("rmsuf", [&](size_t p) { if (p >= npos - 1 || p > hs.size()) return std::string("[]"); V c = h; c.remove_suffix(p); return bytes(c.data(), c.size()); });
    auto arr2 = [&](const char* name, auto f) {
        o += std::string(",\"") + name + "\":[";
        for (size_t i = 0; i < NP; ++i) { o += std::string(i ? "," : "") + "["; for (size_t j = 0; j < NP; ++j) o += std::string(j ? "," : "") + f(Pv(i, npos), Pv(j, npos)); o += "]"; }
        o += "]";
    };
    arr2("substr", [&](size_t p, size_t c) { try { V s = h.substr(p, c); return bytes(s.data(), s.size()); } catch (const std::out_of_range&) { return std::string("[-2]"); } });
    arr2("copy", [&](size_t p, size_t c) { char buf[16]; try { size_t k = h.copy(buf, c, p); return bytes(buf, k); } catch (const std::out_of_range&) { return std::string("[-2]"); } });
    arr2("compare3", [&](size_t p, size_t c) { try { return std::to_string(h.compare(p, c, n)); } catch (const std::out_of_range&) { return std::string("-2"); } });
    if (ns.size() == 1) {
        char c = ns[0];
        o += std::string(",\"starts_c\":") + B(h.starts_with(c)) + ",\"ends_c\":" + B(h.ends_with(c));
        arr("find_c", [&](size_t p) { return std::to_string(R(h.find(c, p), npos)); });
        arr("rfind_c", [&](size_t p) { return std::to_string(R(h.rfind(c, p), npos)); });
    }
    return o + "}";
}

// Second event per case ("svx"): the overloads that have a std::string_view counterpart but take a C string, a (pointer, length)
// pair, a char or a std::string; the iterators; and queries between views that ALIAS each other (h against h.substr(pos, n) on
// the same storage), which the separately stored (h, n) pairs never produce.
template <class V>
static std::string results_x(const std::string& hs, const std::string& ns) {
    const size_t npos = V::npos;
    V h(hs.data(), hs.size()), n(ns.data(), ns.size());
    const char* nz = ns.c_str();    // C string: ends at the first NUL
    const char* hz = hs.c_str();
    std::string o = "{";
    o += "\"cmp_cs\":" + std::to_string(h.compare(nz));
    auto arr = [&](const char* name, auto f) { o += std::string(",\"") + name + "\":["; for (size_t i = 0; i < NP; ++i) o += std::string(i ? "," : "") + f(Pv(i, npos)); o += "]"; };
    auto arr2 = [&](const char* name, auto f) {
        o += std::string(",\"") + name + "\":[";
        for (size_t i = 0; i < NP; ++i) { o += std::string(i ? "," : "") + "["; for (size_t j = 0; j < NP; ++j) o += std::string(j ? "," : "") + f(Pv(i, npos), Pv(j, npos)); o += "]"; }
        o += "]";
    };
    arr2("cmp3_cs", [&](size_t p, size_t c) { try { return std::to_string(h.compare(p, c, nz)); } catch (const std::out_of_range&) { return std::string("-2"); } });
    arr2("cmp4_cs", [&](size_t p, size_t c) { try { return std::to_string(h.compare(p, c, ns.data(), ns.size())); } catch (const std::out_of_range&) { return std::string("-2"); } });
    arr2("cmp5", [&](size_t p, size_t c) { try { return std::to_string(h.compare(p, c, n, c, p)); } catch (const std::out_of_range&) { return std::string("-2"); } });
    arr("find_p", [&](size_t p) { return std::to_string(R(h.find(ns.data(), p, ns.size()), npos)); });
    arr("find_z", [&](size_t p) { return std::to_string(R(h.find(nz, p), npos)); });
    arr("rfind_p", [&](size_t p) { return std::to_string(R(h.rfind(ns.data(), p, ns.size()), npos)); });
    arr("rfind_z", [&](size_t p) { return std::to_string(R(h.rfind(nz, p), npos)); });
    arr("ffo_p", [&](size_t p) { return std::to_string(R(h.find_first_of(ns.data(), p, ns.size()), npos)); });
    arr("ffo_z", [&](size_t p) { return std::to_string(R(h.find_first_of(nz, p), npos)); });
    arr("flo_p", [&](size_t p) { return std::to_string(R(h.find_last_of(ns.data(), p, ns.size()), npos)); });
    arr("flo_z", [&](size_t p) { return std::to_string(R(h.find_last_of(nz, p), npos)); });
    arr("ffno_p", [&](size_t p) { return std::to_string(R(h.find_first_not_of(ns.data(), p, ns.size()), npos)); });
    arr("ffno_z", [&](size_t p) { return std::to_string(R(h.find_first_not_of(nz, p), npos)); });
    arr("flno_p", [&](size_t p) { return std::to_string(R(h.find_last_not_of(ns.data(), p, ns.size()), npos)); });
    arr("flno_z", [&](size_t p) { return std::to_string(R(h.find_last_not_of(nz, p), npos)); });
    if (ns.size() == 1) {
        char c = ns[0];
        arr("ffo_c", [&](size_t p) { return std::to_string(R(h.find_first_of(c, p), npos)); });
        arr("flo_c", [&](size_t p) { return std::to_string(R(h.find_last_of(c, p), npos)); });
        arr("ffno_c", [&](size_t p) { return std::to_string(R(h.find_first_not_of(c, p), npos)); });
        arr("flno_c", [&](size_t p) { return std::to_string(R(h.find_last_not_of(c, p), npos)); });
    }
    auto six = [&](const char* name, bool eq, bool ne, bool lt, bool gt, bool le, bool ge) {
        o += std::string(",\"") + name + "\":[" + B(eq) + "," + B(ne) + "," + B(lt) + "," + B(gt) + "," + B(le) + "," + B(ge) + "]"; };
    { const std::string& y = ns; six("rel_s", h == y, h != y, h < y, h > y, h <= y, h >= y); }          // view OP std::string
    { const std::string& x = hs; six("rel_s2", x == n, x != n, x < n, x > n, x <= n, x >= n); }          // std::string OP view
    six("rel_z", h == nz, h != nz, h < nz, h > nz, h <= nz, h >= nz);                                      // view OP C string
    six("rel_z2", hz == n, hz != n, hz < n, hz > n, hz <= n, hz >= n);                                    // C string OP view
    { std::string f, r, cf, cr;
      for (auto it = h.begin(); it != h.end(); ++it) f += *it;
      for (auto it = h.rbegin(); it != h.rend(); ++it) r += *it;
      for (auto it = h.cbegin(); it != h.cend(); ++it) cf += *it;
      for (auto it = h.crbegin(); it != h.crend(); ++it) cr += *it;
      o += ",\"fwd\":" + bytes(f.data(), f.size()) + ",\"rev\":" + bytes(r.data(), r.size()) + ",\"cfwd\":" + bytes(cf.data(), cf.size()) + ",\"crev\":" + bytes(cr.data(), cr.size()); }
    o += ",\"front\":" + (h.empty() ? std::string("-2") : std::to_string((unsigned char)h.front()));
    o += ",\"back\":" + (h.empty() ? std::string("-2") : std::to_string((unsigned char)h.back()));
    o += ",\"len\":" + std::to_string(h.length()) + ",\"size\":" + std::to_string(h.size()) + ",\"empty\":" + B(h.empty());
    { V a = h, b = n; a.swap(b); o += ",\"swap_a\":" + bytes(a.data(), a.size()) + ",\"swap_b\":" + bytes(b.data(), b.size()); }
    { V a; o += ",\"dflt_len\":" + std::to_string(a.size()); }
    if constexpr (std::is_same_v<V, tlx::StringView>) {
        V a = h; a.clear(); o += ",\"clear_len\":" + std::to_string(a.size()) + ",\"clear_empty\":" + B(a.empty());
        std::string t = h.to_string(); o += ",\"to_string2\":" + bytes(t.data(), t.size());
        std::ostringstream os; os << h; std::string w = os.str(); o += ",\"stream\":" + bytes(w.data(), w.size());
        std::string_view sv = h; o += ",\"to_std\":" + bytes(sv.data(), sv.size());
        V back(sv); o += ",\"from_std\":" + bytes(back.data(), back.size());
        V fs(hs); o += ",\"from_string\":" + bytes(fs.data(), fs.size());
        V fz(hz); o += ",\"from_cstr\":" + bytes(fz.data(), fz.size());
        V fr(hs.data(), hs.data() + hs.size()); o += ",\"from_range\":" + bytes(fr.data(), fr.size());
    }
    // aliasing views: sub = h.substr(p, c) shares h's storage
    arr2("al", [&](size_t p, size_t c) {
        if (p >= npos - 1 || p > hs.size()) return std::string("[]");
        V sub = h.substr(p, c);
        std::string a = "[";
        a += std::string(B(h == sub)) + "," + B(h != sub) + "," + B(h < sub) + "," + B(h > sub) + "," + B(h <= sub) + "," + B(h >= sub);
        a += std::string(",") + B(sub == h) + "," + B(sub != h) + "," + B(sub < h) + "," + B(sub > h) + "," + B(sub <= h) + "," + B(sub >= h);
        a += std::string(",") + B(h.starts_with(sub)) + "," + B(h.ends_with(sub));
        return a + "]"; });
    arr2("al_n", [&](size_t p, size_t c) {
        if (p >= npos - 1 || p > hs.size()) return std::string("[]");
        V sub = h.substr(p, c);
        std::string a = "[";
        a += std::to_string(h.compare(sub)) + "," + std::to_string(sub.compare(h)) + "," + std::to_string(R(h.find(sub), npos)) + "," + std::to_string(R(h.rfind(sub), npos));
        a += "," + std::to_string(R(sub.find(h), npos)) + "," + std::to_string(R(h.find_first_of(sub), npos)) + "," + std::to_string(R(h.find_last_not_of(sub), npos));
        return a + "]"; });
    return o + "}";
}

int main(int argc, char** argv) {
    if (argc < 3) return 2;
    std::ifstream in(argv[1]);
    Out out; out.open(argv[2]); install_terminate(out);
    Ev("reset").emit(out);
    std::string line;
    while (std::getline(in, line)) {
        if (line.empty()) continue;
        std::istringstream is(line);
        size_t hl; is >> hl; std::string h(hl, 0); for (auto& c : h) { int x; is >> x; c = (char)x; }
        size_t nl; is >> nl; std::string n(nl, 0); for (auto& c : n) { int x; is >> x; c = (char)x; }
        // the views must not see a terminating NUL by accident: copy into exact-size heap blocks
        std::string hb = bytes(h.data(), h.size()), nb = bytes(n.data(), n.size());
        { Ev e("sv"); e.raw("h", hb).raw("n", nb).raw("t", results<tlx::StringView>(h, n)); e.emit(out); }
        { Ev e("sv_std"); e.raw("h", hb).raw("n", nb).raw("s", results<std::string_view>(h, n)); e.emit(out); }
        { Ev e("svx"); e.raw("h", hb).raw("n", nb).raw("t", results_x<tlx::StringView>(h, n)); e.emit(out); }
        { Ev e("svx_std"); e.raw("h", hb).raw("n", nb).raw("s", results_x<std::string_view>(h, n)); e.emit(out); }
    }
    out.flush();
    return 0;
}
