// vsched runtime: baton-passing scheduler.  See vsched.hpp.
// Compile this file WITHOUT tlx redirection concerns: it only uses ::std.
#include "vsched.hpp"
#include <algorithm>
#include <cstdio>
#include <cstdlib>
#include <deque>
#include <map>
#include <memory>
#include <random>
#include <unistd.h>
#include <unordered_map>

namespace vsched {

namespace {

enum St { RUN, BLK_MUTEX, WAIT_CV, BLK_JOIN, SPIN, DONE };

struct Th {
    int id = 0;
    St st = RUN;
    const void* obj = nullptr;      // what it is blocked on
    uint64_t spin_ver = 0;
    int join_tid = -1;
    ::std::thread os;
    VC vc;
    // spin detection
    const void* last_read = nullptr; uint64_t last_read_ver = 0; int read_streak = 0;
    int prio = 0;                   // PCT
    int pending_kind = 0;
    long picks = 0;                 // how often the scheduler chose this thread
};

struct Shadow { int wtid = -1; uint32_t wclk = 0; uint32_t rclk[MAXT]; Shadow() { std::memset(rclk, 0, sizeof(rclk)); } };

struct Sched {
    ::std::mutex m;
    ::std::condition_variable cv;
    bool active = false;
    int cur = 0;
    ::std::deque<Th> th;
    Config cfg;
    Result res;
    ::std::mt19937_64 rng;
    size_t script_pos = 0, waiter_pos = 0;
    ::std::vector<long> pct_change;     // step indices at which the running thread's priority drops
    int next_obj = 1;
    ::std::unordered_map<const void*, ::std::vector<int>> cv_waiters;
    ::std::unordered_map<const void*, Shadow> shadow;
    long progress = 0, spin_wake_progress = -1, spin_wakes = 0;
    unsigned hwc = 4;
    bool aborting = false;
};

Sched& S() { static Sched s; return s; }
thread_local int tl_self = 0;

bool enabled(const Th& t) { return t.st == RUN; }

[[noreturn]] void park_forever() { for (;;) pause(); }

// pick the next thread to run among the enabled ones; lk held
int choose(Sched& s, bool exclude_cur_blocked) {
    (void)exclude_cur_blocked;
    ::std::vector<int> en;
    for (auto& t : s.th) if (enabled(t)) en.push_back(t.id);
    if (en.empty()) return -1;
    s.res.decisions++;
    int pick = -1;
    switch (s.cfg.strategy) {
    case SCRIPT:
        if (s.script_pos < s.cfg.script.size()) {
            int want = s.cfg.script[s.script_pos++];
            if (want >= 0) {
                if (::std::find(en.begin(), en.end(), want) != en.end()) pick = want;
                else s.res.diverged = true;
            }
        }
        if (pick < 0) pick = en[s.rng() % en.size()];
        break;
    case PCT: {
        for (long c : s.pct_change)
            if (c == s.res.decisions && s.cur >= 0 && s.cur < (int)s.th.size()) s.th[s.cur].prio = -(int)(s.res.decisions);   // demote
        int best = en[0];
        for (int id : en) if (s.th[id].prio > s.th[best].prio) best = id;
        pick = best;
        break;
    }
    case GUIDED: {
        pick = en[0];
        if (s.script_pos < s.cfg.script.size()) {
            int want = s.cfg.script[s.script_pos];
            if (::std::find(en.begin(), en.end(), want) != en.end()) pick = want;
            else if (want >= 0 && want < (int)s.th.size() && s.th[want].st == BLK_JOIN) {
                // the wanted thread waits for another one to finish: let that one run to its end
                int j = s.th[want].join_tid;
                if (::std::find(en.begin(), en.end(), j) != en.end()) pick = j;
            }
        } else pick = en[s.rng() % en.size()];      // script exhausted: free running
        break;
    }
    case RUNFIRST: {      // lowest runnable id first, with rare random preemption: "thread 0 runs to completion first"
        pick = en[0];
        if (s.rng() % 16 == 0) pick = en[s.rng() % en.size()];
        break;
    }
    case STICKY: {        // no preemption: the running thread keeps the processor until it blocks or ends (rarely: a random switch);
                          // a thread that was just woken or handed work therefore starts late, after its waker has gone on for a long time
        // a freshly spawned thread runs first until it blocks (pool workers reach their idle wait), after that nobody is preempted
        for (int id : en) if (pick < 0 && s.th[id].picks == 0 && id != s.cur) pick = id;
        if (pick < 0) {
            if (s.cur >= 0 && ::std::find(en.begin(), en.end(), s.cur) != en.end() && s.rng() % 64 != 0) pick = s.cur;
            else pick = en[s.rng() % en.size()];
        }
        break;
    }
    default:
        pick = en[s.rng() % en.size()];
    }
    s.res.schedule.push_back(pick);
    s.th[pick].picks++;
    return pick;
}

void describe_blocked(Sched& s) {
    ::std::string d;
    for (auto& t : s.th) {
        if (t.st == DONE) continue;
        const char* n = t.st == BLK_MUTEX ? "mutex" : t.st == WAIT_CV ? "condvar" : t.st == BLK_JOIN ? "join" : t.st == SPIN ? "spin" : "run";
        d += "t" + ::std::to_string(t.id) + ":" + n + " ";
    }
    s.res.blocked_summary = d;
}

::std::function<void(Result&)>& abort_handler() { static ::std::function<void(Result&)> h; return h; }
::std::function<void(int, int, int, long long, long long)>& observer() { static ::std::function<void(int, int, int, long long, long long)> f; return f; }

// the calling thread `me` gives up the baton to `next` and sleeps until it is its turn again; lk held
void hand_over(Sched& s, ::std::unique_lock<::std::mutex>& lk, int me, int next) {
    if (next != me) { s.res.context_switches++; s.cur = next; s.cv.notify_all(); s.cv.wait(lk, [&] { return s.cur == me; }); }
}

void deadlock(Sched& s, ::std::unique_lock<::std::mutex>& lk) {
    // spinning threads get one more chance (a repeated identical load is only *probably* a spin loop)
    bool any_spin = false;
    for (auto& t : s.th) if (t.st == SPIN) any_spin = true;
    // A thread that re-reads an unchanged atomic is only *probably* spinning: it may be polling inside a finite loop
    // (e.g. ThreadPool::has_idle() between chunks of sequential work).  Parked readers are therefore released again and
    // again; only when nothing else happened for a long series of such releases is the situation a livelock.
    if (any_spin) {
        if (s.spin_wake_progress != s.progress) { s.spin_wake_progress = s.progress; s.spin_wakes = 0; }
        if (++s.spin_wakes <= 200000) {
            for (auto& t : s.th) if (t.st == SPIN) { t.st = RUN; t.read_streak = 0; }
            return;
        }
    }
    s.res.deadlock = true;
    describe_blocked(s);
    s.aborting = true;
    if (abort_handler()) { Result r = s.res; lk.unlock(); abort_handler()(r); }
    ::std::fprintf(stderr, "vsched: deadlock (%s)\n", s.res.blocked_summary.c_str());
    _exit(86);
}

// block the current thread in state st and run somebody else; returns when rescheduled in state RUN
void block(Sched& s, ::std::unique_lock<::std::mutex>& lk, int me, St st, const void* obj) {
    s.th[me].st = st; s.th[me].obj = obj;
    for (;;) {
        int next = choose(s, true);
        if (next < 0) { deadlock(s, lk); continue; }
        hand_over(s, lk, me, next);
        if (s.th[me].st == RUN) return;
        // scheduled although not enabled cannot happen; loop defensively
    }
}

void step_guard(Sched& s, ::std::unique_lock<::std::mutex>& lk) {
    if (++s.res.steps > s.cfg.max_steps) {
        s.res.livelock = true; describe_blocked(s); s.aborting = true;
        if (abort_handler()) { Result r = s.res; lk.unlock(); abort_handler()(r); }
        _exit(87);
    }
}

void maybe_spurious(Sched& s) {
    if (!s.cfg.spurious) return;
    if (s.rng() % 8 != 0) return;
    ::std::vector<int> w;
    for (auto& t : s.th) if (t.st == WAIT_CV) w.push_back(t.id);
    if (w.empty()) return;
    int id = w[s.rng() % w.size()];
    auto& q = s.cv_waiters[s.th[id].obj];
    q.erase(::std::remove(q.begin(), q.end(), id), q.end());
    s.th[id].st = RUN;
}

} // namespace

// --------------------------------------------------------------------------------------------
bool Runtime::active() { return S().active; }
int Runtime::self() { return tl_self; }
int Runtime::new_object_id() { return S().next_obj++; }
::std::function<bool(int)>& load_filter() { static ::std::function<bool(int)> f; return f; }
void set_guided_load_filter(::std::function<bool(int)> f) { load_filter() = ::std::move(f); }
static void guided_advance(int tid, int kind, int objid = -1) {
    auto& s = S();
    if (s.cfg.strategy != GUIDED) return;
    bool counted = (s.cfg.guided_kinds & (1u << kind)) != 0;
    if (!counted && kind == K_LOAD && load_filter() && objid >= 0 && load_filter()(objid)) counted = true;
    if (!counted) return;
    if (s.script_pos < s.cfg.script.size()) {
        if (s.cfg.script[s.script_pos] == tid) { s.script_pos++; s.res.guided_consumed = s.script_pos; }
        else {
            if (!s.res.diverged && getenv("VSCHED_DEBUG")) ::std::fprintf(stderr, "vsched: guided divergence at script position %zu: expected t%d, t%d performed kind %d\n", s.script_pos, s.cfg.script[s.script_pos], tid, kind);
            s.res.diverged = true;       // a counted operation happened out of the scripted order
        }
    }
}
void Runtime::observe(int kind, int objid, long long before, long long after) {
    if (!S().active) return;
    guided_advance(tl_self, kind, objid);
    if (observer()) observer()(tl_self, kind, objid, before, after);
}
void set_observer(::std::function<void(int, int, int, long long, long long)> f) { observer() = ::std::move(f); }
void Runtime::problem(const ::std::string& p) { auto& s = S(); if (s.res.problems.size() < 20) s.res.problems.push_back(p); }

void Runtime::check_magic(const void* obj, uint32_t magic, const char* what) {
    if (magic != MAGIC_ALIVE) {
        char buf[128]; ::std::snprintf(buf, sizeof(buf), "use-after-destroy: %s %p touched by t%d after its destruction/release", what, obj, tl_self);
        problem(buf);
    }
}

void Runtime::point(int kind, const void* obj) {
    auto& s = S();
    if (!s.active) return;
    (void)obj;
    ::std::unique_lock<::std::mutex> lk(s.m);
    int me = tl_self;
    step_guard(s, lk);
    s.th[me].pending_kind = kind;
    if (kind != K_LOAD && kind != K_YIELD) { s.th[me].read_streak = 0; s.th[me].last_read = nullptr; s.progress++; }
    maybe_spurious(s);
    int next = choose(s, false);
    hand_over(s, lk, me, next);
}

void Runtime::mutex_lock(mutex* m) {
    auto& s = S();
    if (!s.active) { m->owner = 0; return; }
    int me = tl_self;
    for (;;) {
        point(K_LOCK, m);
        ::std::unique_lock<::std::mutex> lk(s.m);
        if (m->owner == -1) { m->owner = me; s.th[me].vc.join(m->vc); lk.unlock(); observe(K_LOCK, m->id, 0, 0); return; }
        if (m->owner == me) { problem("recursive lock of a non-recursive mutex"); }
        block(s, lk, me, BLK_MUTEX, m);
    }
}

bool Runtime::mutex_try_lock(mutex* m) {
    auto& s = S();
    if (!s.active) { if (m->owner != -1) return false; m->owner = 0; return true; }
    point(K_LOCK, m);
    ::std::unique_lock<::std::mutex> lk(s.m);
    if (m->owner != -1) return false;
    m->owner = tl_self; s.th[tl_self].vc.join(m->vc); return true;
}

static void unlock_internal(Sched& s, mutex* m, int me) {
    if (m->owner != me) Runtime::problem("unlock of a mutex not owned by the caller");
    m->owner = -1;
    s.th[me].vc.c[me]++;
    m->vc = s.th[me].vc;
    for (auto& t : s.th) if (t.st == BLK_MUTEX && t.obj == m) t.st = RUN;
}

void Runtime::mutex_unlock(mutex* m) {
    auto& s = S();
    if (!s.active) { m->owner = -1; return; }
    point(K_UNLOCK, m);
    ::std::unique_lock<::std::mutex> lk(s.m);
    unlock_internal(s, m, tl_self);
    lk.unlock(); observe(K_UNLOCK, m->id, 0, 0);
    if (s.cfg.post_points) point(K_YIELD, nullptr);
}

void Runtime::cv_wait(condvar* c, mutex* m) {
    auto& s = S();
    if (!s.active) { problem("condition wait outside the scheduler"); return; }
    int me = tl_self;
    point(K_CVWAIT, c);
    {
        ::std::unique_lock<::std::mutex> lk(s.m);
        unlock_internal(s, m, me);                 // atomically: release the mutex and enter the wait set
        s.cv_waiters[c].push_back(me);
        guided_advance(me, K_CVWAIT);
        if (observer()) observer()(me, K_CVWAIT, c->id, 0, 0);
        block(s, lk, me, WAIT_CV, c);
    }
    mutex_lock(m);                                  // re-acquire before returning
}

void Runtime::cv_notify(condvar* c, bool all) {
    auto& s = S();
    if (!s.active) return;
    point(all ? K_NOTIFY_ALL : K_NOTIFY_ONE, c);
    ::std::unique_lock<::std::mutex> lk(s.m);
    auto& q = s.cv_waiters[c];
    guided_advance(tl_self, all ? K_NOTIFY_ALL : K_NOTIFY_ONE);
    if (observer()) observer()(tl_self, all ? K_NOTIFY_ALL : K_NOTIFY_ONE, c->id, (long long)q.size(), 0);
    if (q.empty()) { if (s.cfg.post_points) { lk.unlock(); point(K_YIELD, nullptr); } return; }
    if (all) { for (int id : q) s.th[id].st = RUN; q.clear(); if (s.cfg.post_points) { lk.unlock(); point(K_YIELD, nullptr); } return; }
    size_t idx = 0;
    if ((s.cfg.strategy == SCRIPT || s.cfg.strategy == GUIDED) && s.waiter_pos < s.cfg.waiter_script.size()) idx = s.cfg.waiter_script[s.waiter_pos++] % q.size();
    else idx = s.rng() % q.size();
    s.res.waiter_choices.push_back((int)idx);
    int id = q[idx];
    q.erase(q.begin() + idx);
    s.th[id].st = RUN;
    if (observer()) observer()(tl_self, K_USER, c->id, id, 0);      // which waiter was woken
    if (s.cfg.post_points) { lk.unlock(); point(K_YIELD, nullptr); }
}

void Runtime::atomic_pre(const void* obj, uint64_t* ver, bool write) {
    auto& s = S();
    if (!s.active) return;
    int me = tl_self;
    if (!write) {
        // spin detection: the same thread re-reads the same atomic although nobody wrote it in between
        ::std::unique_lock<::std::mutex> lk(s.m);
        Th& t = s.th[me];
        if (t.last_read == obj && t.last_read_ver == *ver) {
            if (++t.read_streak >= 2) { t.spin_ver = *ver; block(s, lk, me, SPIN, obj); t.read_streak = 0; }
        } else { t.last_read = obj; t.last_read_ver = *ver; t.read_streak = 0; }
    }
    point(write ? K_RMW : K_LOAD, obj);
    if (!write) { ::std::unique_lock<::std::mutex> lk(s.m); Th& t = s.th[me]; t.last_read = obj; t.last_read_ver = *ver; }
}

void Runtime::atomic_post(const void* obj, uint64_t* ver, VC* vc, bool write, bool acq, bool rel) {
    auto& s = S();
    if (!s.active) return;
    ::std::unique_lock<::std::mutex> lk(s.m);
    int me = tl_self;
    if (acq) s.th[me].vc.join(*vc);
    if (write) {
        ++*ver;
        if (rel) { s.th[me].vc.c[me]++; vc->join(s.th[me].vc); }
        for (auto& t : s.th) if (t.st == SPIN && t.obj == obj) t.st = RUN;
    }
}

void Runtime::yield() { point(K_YIELD, nullptr); }

unsigned thread::hardware_concurrency() noexcept { return S().hwc; }
void set_hardware_concurrency(unsigned n) { S().hwc = n; }

void Runtime::thread_start(thread* t, ::std::function<void()> fn) {
    auto& s = S();
    if (!s.active) { ::std::fprintf(stderr, "vsched: thread created outside vsched::run\n"); _exit(88); }
    point(K_SPAWN, t);
    ::std::unique_lock<::std::mutex> lk(s.m);
    int me = tl_self;
    int id = (int)s.th.size();
    if (id >= MAXT) { ::std::fprintf(stderr, "vsched: too many threads\n"); _exit(88); }
    s.th.emplace_back();
    Th& nt = s.th.back();
    nt.id = id; nt.st = RUN;
    s.th[me].vc.c[me]++;
    nt.vc = s.th[me].vc; nt.vc.c[id] = 1;
    nt.prio = (int)(s.rng() % 1000) + 1000;
    t->tid = id;
    nt.os = ::std::thread([id, fn]() mutable {
        auto& s2 = S();
        tl_self = id;
        { ::std::unique_lock<::std::mutex> lk2(s2.m); s2.cv.wait(lk2, [&] { return s2.cur == id; }); }
        fn();
        ::std::unique_lock<::std::mutex> lk2(s2.m);
        s2.th[id].st = DONE; s2.th[id].vc.c[id]++;
        for (auto& o : s2.th) if (o.st == BLK_JOIN && o.join_tid == id) o.st = RUN;
        int next = choose(s2, true);
        if (next < 0) {
            bool all_done = true; for (auto& o : s2.th) if (o.st != DONE) all_done = false;
            if (!all_done) { deadlock(s2, lk2); next = choose(s2, true); }
        }
        if (next >= 0) s2.cur = next;
        s2.cv.notify_all();
    });
}

void Runtime::thread_join(thread* t) {
    auto& s = S();
    if (!s.active || t->tid < 0) return;
    int me = tl_self, id = t->tid;
    point(K_JOIN, t);
    {
        ::std::unique_lock<::std::mutex> lk(s.m);
        if (s.th[id].st != DONE) { s.th[me].join_tid = id; block(s, lk, me, BLK_JOIN, t); }
        s.th[me].vc.join(s.th[id].vc);
    }
    if (s.th[id].os.joinable()) s.th[id].os.join();
}

int self() { return tl_self; }

void user_point(const char*) { Runtime::point(K_USER, nullptr); }

static ::std::vector<::std::pair<const char*, const char*>>& watches() { static ::std::vector<::std::pair<const char*, const char*>> w; return w; }
void watch(const void* b, const void* e) { watches().push_back({(const char*)b, (const char*)e}); }
void clear_watches() { watches().clear(); }

void access(const void* addr, bool write) {
    auto& s = S();
    if (!s.active) return;
    bool in = false;
    for (auto& w : watches()) if ((const char*)addr >= w.first && (const char*)addr < w.second) { in = true; break; }
    if (!in) return;
    ::std::unique_lock<::std::mutex> lk(s.m);
    int me = tl_self;
    Shadow& sh = s.shadow[addr];
    VC& vc = s.th[me].vc;
    auto report = [&](const char* k, int other) {
        char buf[160]; ::std::snprintf(buf, sizeof(buf), "race: %s on %p between t%d and t%d without happens-before", k, addr, other, me);
        Runtime::problem(buf);
    };
    if (sh.wtid >= 0 && sh.wtid != me && sh.wclk > vc.c[sh.wtid]) report(write ? "write-write" : "write-read", sh.wtid);
    if (write) {
        for (int i = 0; i < MAXT; ++i) if (i != me && sh.rclk[i] > vc.c[i]) { report("read-write", i); break; }
        sh.wtid = me; sh.wclk = vc.c[me] ? vc.c[me] : 1;
        if (!vc.c[me]) vc.c[me] = 1;
    } else {
        if (!vc.c[me]) vc.c[me] = 1;
        sh.rclk[me] = vc.c[me];
    }
}

void set_abort_handler(::std::function<void(Result&)> h) { abort_handler() = ::std::move(h); }

Result run(const ::std::function<void()>& main_fn, const Config& cfg) {
    auto& s = S();
    {
        ::std::unique_lock<::std::mutex> lk(s.m);
        s.cfg = cfg; s.res = Result(); s.rng.seed(cfg.seed * 0x9E3779B97F4A7C15ULL + 7);
        s.th.clear(); s.th.emplace_back(); s.th[0].id = 0; s.th[0].st = RUN; s.th[0].vc.c[0] = 1; s.th[0].prio = 1500;
        s.cur = 0; s.script_pos = s.waiter_pos = 0; s.cv_waiters.clear(); s.shadow.clear();
        s.progress = 0; s.spin_wake_progress = -1; s.spin_wakes = 0;
        s.pct_change.clear();
        for (int i = 1; i < cfg.pct_depth; ++i) s.pct_change.push_back(1 + (long)(s.rng() % (cfg.pct_steps > 0 ? cfg.pct_steps : 1)));
        tl_self = 0;
        s.active = true;
    }
    main_fn();
    {
        ::std::unique_lock<::std::mutex> lk(s.m);
        // main is done; let leftover threads (if any) run to completion
        s.th[0].st = DONE;
        for (;;) {
            bool all_done = true; for (auto& t : s.th) if (t.st != DONE) all_done = false;
            if (all_done) break;
            int next = choose(s, true);
            if (next < 0) { deadlock(s, lk); continue; }
            s.cur = next; s.cv.notify_all();
            s.cv.wait(lk, [&] { bool d = true; for (auto& t : s.th) if (t.st != DONE) d = false; return d || s.cur == 0; });
        }
        s.active = false;
    }
    for (auto& t : s.th) if (t.os.joinable()) t.os.join();
    return s.res;
}

} // namespace vsched
