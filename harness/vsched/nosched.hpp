// Stand-in for vsched.hpp when a driver is built with real threads (ThreadSanitizer monitor builds):
// the same driver-side API, no redirection of the std primitives, no scheduling.
#pragma once
#include <atomic>
#include <cstdint>
#include <functional>
#include <mutex>
#include <string>
#include <thread>
#include <vector>
namespace vsched {
enum Strategy { RANDOM = 0, PCT = 1, SCRIPT = 2, RUNFIRST = 3, GUIDED = 4, STICKY = 5 };
struct Config { int strategy = 0; uint64_t seed = 1; int pct_depth = 3; int pct_steps = 200; std::vector<int> script, waiter_script; unsigned guided_kinds = 0; bool spurious = false; bool post_points = false; long max_steps = 0; };
struct Result { bool deadlock = false, diverged = false, livelock = false; size_t guided_consumed = 0; long steps = 0, decisions = 0, context_switches = 0;
                std::vector<std::string> problems; std::vector<int> schedule, waiter_choices; std::string blocked_summary; };
using thread = std::thread;
inline int self() { static std::atomic<int> next{1}; thread_local int id = 0; if (!id) id = next++; return id; }
inline void access(const void*, bool) {}
inline void watch(const void*, const void*) {}
inline void clear_watches() {}
inline void user_point(const char*) {}
inline void set_hardware_concurrency(unsigned) {}
inline Result run(const std::function<void()>& f, const Config&) { f(); return Result(); }
inline void set_abort_handler(std::function<void(Result&)>) {}
inline void set_observer(std::function<void(int, int, int, long long, long long)>) {}
} // namespace vsched
