// vsched -- a deterministic scheduler shim for the synchronisation primitives used inside namespace tlx.
//
// Force-include this header (-include vsched/vsched.hpp) when compiling a driver *and* the tlx .cpp files
// it needs.  Inside namespace tlx, `std::mutex`, `std::condition_variable`, `std::atomic<T>`, `std::thread`
// and `std::this_thread::yield` then resolve to the classes below (namespace tlx::std shadows ::std for
// exactly these names; everything else is forwarded by a using-directive), with no edit to /repo.
//
// Every operation on these classes is a *visible operation*.  Threads are real OS threads, but only the
// holder of a baton runs; before each visible operation the scheduler decides which enabled thread goes
// next (strategy: seeded random, PCT, or a script produced from a TLC behaviour).  Blocking operations
// (lock on a held mutex, condition wait, join, spinning on an unchanged atomic) disable the thread.
// The scheduler itself reports: deadlock (no enabled thread while some thread is unfinished), operations on
// destroyed sync objects, and happens-before races on accesses announced through vsched::access().
// Memory model: sequentially consistent execution; acquire/release edges are honoured for the race check.
#pragma once
#include <atomic>
#include <condition_variable>
#include <cstdint>
#include <cstring>
#include <functional>
#include <mutex>
#include <string>
#include <thread>
#include <tuple>
#include <utility>
#include <vector>

namespace vsched {

constexpr int MAXT = 48;
struct VC { uint32_t c[MAXT]; VC() { std::memset(c, 0, sizeof(c)); }
    void join(const VC& o) { for (int i = 0; i < MAXT; ++i) if (o.c[i] > c[i]) c[i] = o.c[i]; }
    bool leq(const VC& o) const { for (int i = 0; i < MAXT; ++i) if (c[i] > o.c[i]) return false; return true; } };

// GUIDED: `script` lists, in order, the thread that performs each successive *counted* visible operation
// (kinds selected by guided_kinds, a bit mask over Kind); the scheduler runs that thread whenever it is
// enabled and otherwise the lowest-numbered enabled thread (e.g. main spawning the threads).  This is how
// a TLC behaviour of an implementation-shaped spec (one action per counted operation) is forced onto the code.
enum Strategy { RANDOM = 0, PCT = 1, SCRIPT = 2, RUNFIRST = 3, GUIDED = 4, STICKY = 5 };

struct Config {
    int strategy = RANDOM;
    uint64_t seed = 1;
    int pct_depth = 3;
    int pct_steps = 200;            // estimated length used to place PCT change points
    std::vector<int> script;        // SCRIPT: thread ids to run at successive decisions (-1 = free choice)
    std::vector<int> waiter_script; // SCRIPT: choice index for successive notify_one calls
    unsigned guided_kinds = 0;      // GUIDED: bit (1 << kind) set for counted kinds
    bool spurious = false;          // allow spurious condition-variable wake-ups
    bool post_points = false;       // extra scheduling decision right after every unlock / notify: lets another thread run between a
                                    // visible operation and the plain memory accesses that follow it (e.g. a member read after an enqueue)
    long max_steps = 2000000;       // livelock guard
};

struct Result {
    bool deadlock = false, diverged = false, livelock = false;
    size_t guided_consumed = 0;            // GUIDED: how many script entries were matched by real operations
    long steps = 0, decisions = 0, context_switches = 0;
    std::vector<std::string> problems;     // "use-after-destroy ...", "race ...", ...
    std::vector<int> schedule;             // tid chosen at each decision (replayable through Config::script)
    std::vector<int> waiter_choices;
    std::string blocked_summary;           // who waits on what at a deadlock
};

const uint32_t MAGIC_ALIVE = 0xA11CE5ED;

class mutex; class condvar; class thread;

// ---- interface of the runtime (vsched.cpp)
struct Runtime {
    static bool active();
    static int self();
    static void point(int kind, const void* obj);                 // scheduling decision before a visible op
    static void mutex_lock(mutex* m);
    static bool mutex_try_lock(mutex* m);
    static void mutex_unlock(mutex* m);
    static void cv_wait(condvar* c, mutex* m);
    static void cv_notify(condvar* c, bool all);
    static void atomic_pre(const void* obj, uint64_t* ver, bool write);
    static void atomic_post(const void* obj, uint64_t* ver, VC* vc, bool write, bool acq, bool rel);
    static void check_magic(const void* obj, uint32_t magic, const char* what);
    static void thread_start(thread* t, std::function<void()> fn);
    static void thread_join(thread* t);
    static void yield();
    static int new_object_id();
    static void problem(const std::string& s);
    static void observe(int kind, int objid, long long before, long long after);   // called while the baton is held, right after the op took effect
};

enum Kind { K_LOCK = 1, K_UNLOCK, K_CVWAIT, K_NOTIFY_ONE, K_NOTIFY_ALL, K_LOAD, K_STORE, K_RMW, K_SPAWN, K_JOIN, K_YIELD, K_USER };

class mutex {
public:
    mutex() : id(Runtime::new_object_id()) {}
    ~mutex() { magic = 0xDEAD; }
    mutex(const mutex&) = delete; mutex& operator=(const mutex&) = delete;
    void lock() { Runtime::check_magic(this, magic, "mutex"); Runtime::mutex_lock(this); }
    bool try_lock() { Runtime::check_magic(this, magic, "mutex"); return Runtime::mutex_try_lock(this); }
    void unlock() { Runtime::check_magic(this, magic, "mutex"); Runtime::mutex_unlock(this); }
    // runtime state
    uint32_t magic = MAGIC_ALIVE; int id; int owner = -1; VC vc;
};

class condvar {
public:
    condvar() : id(Runtime::new_object_id()) {}
    ~condvar() { magic = 0xDEAD; }
    condvar(const condvar&) = delete; condvar& operator=(const condvar&) = delete;
    void wait(::std::unique_lock<mutex>& lk) { Runtime::check_magic(this, magic, "condition_variable"); Runtime::cv_wait(this, lk.mutex()); }
    template <class Pred> void wait(::std::unique_lock<mutex>& lk, Pred pred) { while (!pred()) wait(lk); }
    void notify_one() noexcept { Runtime::check_magic(this, magic, "condition_variable"); Runtime::cv_notify(this, false); }
    void notify_all() noexcept { Runtime::check_magic(this, magic, "condition_variable"); Runtime::cv_notify(this, true); }
    uint32_t magic = MAGIC_ALIVE; int id;
};

template <class T>
class atomic {
    static bool acq(::std::memory_order m) { return m == ::std::memory_order_acquire || m == ::std::memory_order_seq_cst || m == ::std::memory_order_acq_rel || m == ::std::memory_order_consume; }
    static bool rel(::std::memory_order m) { return m == ::std::memory_order_release || m == ::std::memory_order_seq_cst || m == ::std::memory_order_acq_rel; }
    void pre(bool w) const { Runtime::check_magic(this, magic, "atomic"); Runtime::atomic_pre(this, &ver, w); }
    void post(bool w, ::std::memory_order m, T before) const {
        Runtime::atomic_post(this, &ver, &vc, w, acq(m), rel(m));
        Runtime::observe(w ? K_RMW : K_LOAD, id, (long long)before, (long long)val);
    }
public:
    atomic() noexcept : id(Runtime::new_object_id()), val() {}
    atomic(T v) noexcept : id(Runtime::new_object_id()), val(v) {}      // NOLINT (implicit, like std::atomic)
    ~atomic() { magic = 0xDEAD; }
    atomic(const atomic&) = delete; atomic& operator=(const atomic&) = delete;
    T load(::std::memory_order m = ::std::memory_order_seq_cst) const noexcept { pre(false); T v = val; post(false, m, v); return v; }
    void store(T v, ::std::memory_order m = ::std::memory_order_seq_cst) noexcept { pre(true); T o = val; val = v; post(true, m, o); }
    T exchange(T v, ::std::memory_order m = ::std::memory_order_seq_cst) noexcept { pre(true); T o = val; val = v; post(true, m, o); return o; }
    bool compare_exchange_strong(T& exp, T des, ::std::memory_order m = ::std::memory_order_seq_cst, ::std::memory_order = ::std::memory_order_seq_cst) noexcept {
        pre(true); T o = val; bool ok = (val == exp); if (ok) val = des; else exp = val; post(ok, m, o); return ok; }
    bool compare_exchange_weak(T& exp, T des, ::std::memory_order m = ::std::memory_order_seq_cst, ::std::memory_order m2 = ::std::memory_order_seq_cst) noexcept {
        return compare_exchange_strong(exp, des, m, m2); }
    T fetch_add(T d, ::std::memory_order m = ::std::memory_order_seq_cst) noexcept { pre(true); T o = val; val = static_cast<T>(val + d); post(true, m, o); return o; }
    T fetch_sub(T d, ::std::memory_order m = ::std::memory_order_seq_cst) noexcept { pre(true); T o = val; val = static_cast<T>(val - d); post(true, m, o); return o; }
    operator T() const noexcept { return load(); }      // NOLINT
    T operator=(T v) noexcept { store(v); return v; }
    T operator++() noexcept { return static_cast<T>(fetch_add(1) + 1); }
    T operator++(int) noexcept { return fetch_add(1); }
    T operator--() noexcept { return static_cast<T>(fetch_sub(1) - 1); }
    T operator--(int) noexcept { return fetch_sub(1); }
    T operator+=(T d) noexcept { return static_cast<T>(fetch_add(d) + d); }
    T operator-=(T d) noexcept { return static_cast<T>(fetch_sub(d) - d); }
    T peek() const { return val; }                        // driver-side observation, not a visible op
    mutable uint32_t magic = MAGIC_ALIVE;
    int id;
private:
    T val; mutable uint64_t ver = 0; mutable VC vc;
};
// atomic<bool> has no arithmetic in std, but nothing in tlx relies on its absence

class thread {
public:
    using id = int;
    thread() noexcept {}
    template <class F, class... Args, class = typename ::std::enable_if<!::std::is_same<typename ::std::decay<F>::type, thread>::value>::type>
    explicit thread(F&& f, Args&&... args) {
        auto tup = ::std::make_tuple(::std::forward<Args>(args)...);
        auto fn = ::std::forward<F>(f);
        Runtime::thread_start(this, [fn, tup]() mutable { ::std::apply([&](auto&&... a) { ::std::invoke(fn, a...); }, tup); });
    }
    thread(thread&& o) noexcept : tid(o.tid) { o.tid = -1; }
    thread& operator=(thread&& o) noexcept { tid = o.tid; o.tid = -1; return *this; }
    thread(const thread&) = delete; thread& operator=(const thread&) = delete;
    ~thread() {}
    bool joinable() const noexcept { return tid >= 0; }
    void join() { Runtime::thread_join(this); tid = -1; }
    void detach() { tid = -1; }
    int get_id() const noexcept { return tid; }
    static unsigned hardware_concurrency() noexcept;
    int tid = -1;
};

namespace this_thread { inline void yield() noexcept { Runtime::yield(); } }

// ---- driver-side API
void set_hardware_concurrency(unsigned n);
Result run(const std::function<void()>& main_fn, const Config& cfg);
// observer of visible operations in execution order: (tid, kind, object id, value before, value after)
void set_observer(std::function<void(int, int, int, long long, long long)> f);
// GUIDED: atomic loads count only for the objects accepted by this filter (default: none; K_LOAD in guided_kinds counts all)
void set_guided_load_filter(std::function<bool(int)> f);
void set_abort_handler(std::function<void(Result&)> h);   // called (then _exit) on deadlock / livelock
int self();
void access(const void* addr, bool write);          // announce a plain-memory access for the happens-before check
void watch(const void* begin, const void* end);     // only accesses inside watched ranges are checked (heap blocks are recycled between threads)
void clear_watches();
void user_point(const char* label);                 // an extra scheduling point inside driver code

} // namespace vsched

// ---- the redirection
namespace tlx { namespace std {
using namespace ::std;
using mutex = ::vsched::mutex;
using condition_variable = ::vsched::condvar;
template <class T> using atomic = ::vsched::atomic<T>;
using thread = ::vsched::thread;
namespace this_thread { using namespace ::std::this_thread; using ::vsched::this_thread::yield; }
} }
