// C20 driver: integer helpers on words of 8/16/32/64 bits (given as 16-bit limbs), small signed integers, Aggregate.
// script lines:   W w limb...            word event + arith event for that word
//                 S a b                  small signed integers
//                 A nx x... ny y...      Aggregate of two value lists
#include <common/ndjson.hpp>
#include <tlx/math.hpp>
#include <cmath>
#include <fstream>
using namespace vf;

template <class U> static std::string limbs(U x, int W) {
    std::string s = "["; int n = W <= 16 ? 1 : W / 16;
    unsigned long long v = (unsigned long long)x;
    for (int i = 0; i < n; ++i) s += std::string(i ? "," : "") + std::to_string((v >> (16 * i)) & 0xFFFF);
    return s + "]";
}
struct L { std::string s = "["; bool f = true; void add(const std::string& x) { s += std::string(f ? "" : ",") + x; f = false; } std::string done() { return s + "]"; } };
static std::string I(long long x) { return std::to_string(x); }
static const char* Bo(bool b) { return b ? "true" : "false"; }

template <class U, class S, int W> struct Ops;     // per-width list of implementations

template <class U, class S, int W>
static void common_templates(U v, L& clz, L& ctz, L& ffs, L& l2f, L& ip2, L& ip2s, L& rup, L& rups) {
    clz.add(I(tlx::clz_template<U>(v))); ctz.add(I(tlx::ctz_template<U>(v))); ffs.add(I(tlx::ffs_template<U>(v)));
    clz.add(I(tlx::clz_template<S>((S)v)));
    l2f.add(I(tlx::integer_log2_floor_template<U>(v)));
    ip2.add(Bo(tlx::is_power_of_two_template<U>(v))); ip2s.add(Bo(tlx::is_power_of_two_template<S>((S)v)));
    rup.add(limbs<U>(tlx::round_up_to_power_of_two_template<U>(v), W));
    if ((S)v >= 0 && (unsigned long long)v <= (1ULL << (W - 2))) rups.add(limbs<U>((U)tlx::round_up_to_power_of_two_template<S>((S)v), W));
}

template <class U, class S, int W>
static void word(Out& out, U v) {
    L clz, ctz, ffs, pop, l2f, l2c, ip2, ip2s, rup, rdn, rups, rdns, bsw, sgn; std::string rot = "[";
    common_templates<U, S, W>(v, clz, ctz, ffs, l2f, ip2, ip2s, rup, rups);
    sgn.add(I(tlx::sgn<S>((S)v)));
    if constexpr (W == 8) { pop.add(I(tlx::popcount_generic8(v))); pop.add(I(tlx::popcount(v))); }
    if constexpr (W == 16) { pop.add(I(tlx::popcount_generic16(v))); pop.add(I(tlx::popcount(v))); bsw.add(limbs<U>(tlx::bswap16(v), W)); bsw.add(limbs<U>(tlx::bswap16_generic(v), W)); }
    if constexpr (W >= 32) {
        clz.add(I(tlx::clz<U>(v))); clz.add(I(tlx::clz<S>((S)v))); ctz.add(I(tlx::ctz<U>(v))); ctz.add(I(tlx::ctz<S>((S)v)));
        ffs.add(I(tlx::ffs(v))); ffs.add(I(tlx::ffs((S)v))); ffs.add(I(tlx::ffs_template<S>((S)v)));
        pop.add(I(tlx::popcount(v))); pop.add(I(tlx::popcount((S)v)));
        l2f.add(I(tlx::integer_log2_floor(v))); if ((S)v >= 0) l2f.add(I(tlx::integer_log2_floor((S)v)));
        l2c.add(I(tlx::integer_log2_ceil(v))); if ((S)v >= 0) l2c.add(I(tlx::integer_log2_ceil((S)v)));
        ip2.add(Bo(tlx::is_power_of_two(v))); ip2s.add(Bo(tlx::is_power_of_two((S)v)));
        rup.add(limbs<U>(tlx::round_up_to_power_of_two(v), W)); rdn.add(limbs<U>(tlx::round_down_to_power_of_two(v), W));
        if ((S)v >= 0 && (unsigned long long)v <= (1ULL << (W - 2))) rups.add(limbs<U>((U)tlx::round_up_to_power_of_two((S)v), W));
        if ((S)v >= 0) rdns.add(limbs<U>((U)tlx::round_down_to_power_of_two((S)v), W));
    }
    if constexpr (W == 32) {
        pop.add(I(tlx::popcount_generic32(v))); bsw.add(limbs<U>(tlx::bswap32(v), W)); bsw.add(limbs<U>(tlx::bswap32_generic(v), W));
        for (int s : {0, 1, 5, 16, 31}) rot += std::string(rot.size() > 1 ? "," : "") + "{\"s\":" + I(s) + ",\"rol\":[" + limbs<U>(tlx::rol32(v, s), W) + "," + limbs<U>(tlx::rol32_generic(v, s), W) +
                                               "],\"ror\":[" + limbs<U>(tlx::ror32(v, s), W) + "," + limbs<U>(tlx::ror32_generic(v, s), W) + "]}";
    }
    if constexpr (W == 64) {
        pop.add(I(tlx::popcount_generic64(v))); bsw.add(limbs<U>(tlx::bswap64(v), W)); bsw.add(limbs<U>(tlx::bswap64_generic(v), W));
        clz.add(I(tlx::clz<unsigned long>((unsigned long)v))); ctz.add(I(tlx::ctz<unsigned long>((unsigned long)v))); pop.add(I(tlx::popcount((unsigned long)v)));
        l2f.add(I(tlx::integer_log2_floor((unsigned long)v))); rdn.add(limbs<U>(tlx::round_down_to_power_of_two((unsigned long)v), W)); rup.add(limbs<U>(tlx::round_up_to_power_of_two((unsigned long)v), W));
        for (int s : {0, 1, 5, 32, 63}) rot += std::string(rot.size() > 1 ? "," : "") + "{\"s\":" + I(s) + ",\"rol\":[" + limbs<U>(tlx::rol64(v, s), W) + "," + limbs<U>(tlx::rol64_generic(v, s), W) +
                                               "],\"ror\":[" + limbs<U>(tlx::ror64(v, s), W) + "," + limbs<U>(tlx::ror64_generic(v, s), W) + "]}";
    }
    Ev e("word"); e.num("w", W).raw("v", limbs<U>(v, W)).raw("clz", clz.done()).raw("ctz", ctz.done()).raw("ffs", ffs.done()).raw("popcount", pop.done()).raw("log2floor", l2f.done())
        .raw("log2ceil", l2c.done()).raw("ispow2", ip2.done()).raw("ispow2_signed", ip2s.done()).raw("roundup", rup.done()).raw("rounddown", rdn.done())
        .raw("roundup_signed", rups.done()).raw("rounddown_signed", rdns.done()).raw("bswap", bsw.done()).raw("rot", rot + "]").raw("sgn_signed", sgn.done());
    e.emit(out);
    // arithmetic with small second operands, on the unsigned type
    std::string dv = "[", df = "[";
    for (unsigned k : {1u, 2u, 3u, 7u, 10u, 255u, 32767u}) {
        if (W == 8 && k > 255) continue;
        U q = (U)tlx::div_ceil<U, U>(v, (U)k), r = (U)tlx::round_up<U, U>(v, (U)k);
        dv += std::string(dv.size() > 1 ? "," : "") + "{\"k\":" + I(k) + ",\"div_ceil\":[" + limbs<U>(q, W) + "],\"round_up\":[" + limbs<U>(r, W) + "]}";
    }
    for (U b : {(U)0, (U)1, (U)~v, (U)~(U)0, (U)(v >> 1), (U)((U)1 << (W - 1))})
        df += std::string(df.size() > 1 ? "," : "") + "{\"b\":" + limbs<U>(b, W) + ",\"abs_diff\":[" + limbs<U>(tlx::abs_diff<U>(v, b), W) + "]}";
    Ev a("arith"); a.num("w", W).raw("v", limbs<U>(v, W)).raw("div", dv + "]").raw("diff", df + "]"); a.emit(out);
}

template <class A> static std::string agg_result(const A& a) {
    long long n = (long long)a.count();
    double nnvar = a.count() > 1 ? a.variance() * (double)n * (double)(n - 1) : 0.0;
    return "{\"count\":" + I(n) + ",\"min\":" + I(n ? a.min() : 0) + ",\"max\":" + I(n ? a.max() : 0) + ",\"sum\":" + I(std::llround(a.mean() * (double)n)) +
           ",\"nnvar\":" + I(std::llround(nnvar)) + ",\"exact\":" + Bo(std::fabs(nnvar - std::round(nnvar)) < 1e-6 && std::fabs(a.mean() * n - std::round(a.mean() * n)) < 1e-6) + "}";
}

// every accessor that has an alias must agree with it; span = max - min
template <class A> static bool agg_aliases(const A& a) {
    bool ok = a.total() == a.sum() && a.avg() == a.mean() && a.average() == a.mean() && a.var() == a.variance() && a.stdev() == a.standard_deviation()
              && a.var(0) == a.variance(0);
    if (a.count() > 0) ok = ok && a.span() == a.max() - a.min();
    if (a.count() > 1) ok = ok && std::fabs(a.stdev() * a.stdev() - a.variance()) <= 1e-9 * (1 + a.variance()) &&
                              std::fabs(a.variance(0) * (double)a.count() - a.variance() * (double)(a.count() - 1)) <= 1e-9 * (1 + a.variance() * a.count());
    return ok;
}
template <class T> static void agg_case(Out& out, char ty, const std::vector<long long>& xs, const std::vector<long long>& ys) {
    tlx::Aggregate<T> ax, ay, all;
    for (auto x : xs) { ax.add((T)x); all.add((T)x); }
    for (auto y : ys) { ay.add((T)y); all.add((T)y); }
    tlx::Aggregate<T> plus = ax + ay, pluseq = ax; pluseq += ay;
    tlx::Aggregate<T> rev = ay; rev += ax;
    tlx::Aggregate<T> chain = tlx::Aggregate<T>() + ax; chain += tlx::Aggregate<T>(); chain += ay;      // empty operands on both sides
    Ev e("agg"); e.str("ty", std::string(1, ty)).arr("xs", xs).arr("ys", ys).raw("results", "[" + agg_result(all) + "," + agg_result(plus) + "," + agg_result(pluseq) + "," + agg_result(rev) + "," + agg_result(ay + ax) + "," + agg_result(chain) + "]");
    e.raw("aliases", Bo(agg_aliases(all) && agg_aliases(plus) && agg_aliases(pluseq)));
    e.emit(out);
}

int main(int argc, char** argv) {
    if (argc < 3) return 2;
    std::ifstream in(argv[1]);
    Out out; out.open(argv[2]); install_terminate(out);
    Ev("reset").emit(out);
    std::string line;
    while (std::getline(in, line)) {
        if (line.empty()) continue;
        std::istringstream is(line);
        char kind; is >> kind;
        if (kind == 'W') {
            int W; is >> W; unsigned long long v = 0; int n = W <= 16 ? 1 : W / 16;
            for (int i = 0; i < n; ++i) { unsigned long long x; is >> x; v |= x << (16 * i); }
            if (W == 8) word<uint8_t, int8_t, 8>(out, (uint8_t)v);
            else if (W == 16) word<uint16_t, int16_t, 16>(out, (uint16_t)v);
            else if (W == 32) word<unsigned, int, 32>(out, (unsigned)v);
            else word<unsigned long long, long long, 64>(out, v);
        } else if (kind == 'B') {
            // popcount(const void* data, size_t size): the buffer starts at every alignment within a word (the implementation consumes 8-, 4- and 1-byte units)
            size_t n; is >> n; std::vector<long long> bytes(n); for (auto& b : bytes) is >> b;
            std::vector<long long> res;
            for (size_t off = 0; off < 8; ++off) {
                std::vector<unsigned char> buf(off + n + 8, 0xFF);
                for (size_t i = 0; i < n; ++i) buf[off + i] = (unsigned char)bytes[i];
                res.push_back((long long)tlx::popcount(static_cast<const void*>(buf.data() + off), n));
            }
            Ev e("popbuf"); e.arr("bytes", bytes).arr("res", res); e.emit(out);
        } else if (kind == 'S') {
            long long a, b; is >> a >> b;
            Ev e("small"); e.num("a", a).num("b", b).num("sgn", tlx::sgn((int)a)).num("abs_diff", tlx::abs_diff<int>((int)a, (int)b));
            e.num("div_ceil", (a >= 0 && b > 0) ? tlx::div_ceil((int)a, (int)b) : 0).num("round_up", (a >= 0 && b > 0) ? tlx::round_up((int)a, (int)b) : 0);
            e.emit(out);
        } else {
            // "A <type> nx x... ny y...": type in {q = long long, i = int, d = double, f = float, u = unsigned}
            char ty; is >> ty;
            size_t nx, ny; is >> nx; std::vector<long long> xs(nx); for (auto& x : xs) is >> x; is >> ny; std::vector<long long> ys(ny); for (auto& y : ys) is >> y;
            if (ty == 'q') agg_case<long long>(out, ty, xs, ys);
            else if (ty == 'i') agg_case<int>(out, ty, xs, ys);
            else if (ty == 'd') agg_case<double>(out, ty, xs, ys);
            else if (ty == 'f') agg_case<float>(out, ty, xs, ys);
            else agg_case<unsigned>(out, ty, xs, ys);
        }
    }
    out.flush();
    return 0;
}
