// C16 driver (SimpleVector): replays scripts on tlx::SimpleVector in its three modes.
// script line:  mode nops  op r a b ...   mode 0 = Normal<Tracked>, 1 = NoInitButDestroy<int>, 2 = NoInitNoDestroy<int>
#include <common/ndjson.hpp>
#include <common/tracked.hpp>
#include <tlx/container/simple_vector.hpp>
#include <fstream>
#include <memory>
using namespace vf;

static const char* NAMES[] = {"recreate", "resize", "destroy", "fill", "set", "swap", "move_assign", "move_construct"};
static const long long UNINIT = -7;

template <class T> long long rd(const T& x);
template <> long long rd<Tracked>(const Tracked& x) { return x.read(); }
template <> long long rd<int>(const int& x) { return x; }

template <class T, class SV>
static void run(Out& out, int mode, std::istringstream& is, size_t nops) {
    ledger().reset();
    bool tracked = mode == 0;
    std::unique_ptr<SV> s[3];
    std::vector<bool> init[3];          // NoInit modes: which cells the script has written (never read the others)
    s[1].reset(new SV()); s[2].reset(new SV());
    auto emit = [&](const char* e, int r, long long a, long long b) {
        Ev ev(e); ev.num("r", r).num("a", a).num("b", b).num("mode", mode).num("dflt", tracked ? 0 : UNINIT);
        std::string obs = "[";
        for (int i = 1; i <= 2; ++i) {
            SV& v = *s[i];
            std::vector<long long> seq;
            for (size_t j = 0; j < v.size(); ++j) seq.push_back(tracked || init[i][j] ? rd<T>(v[j]) : UNINIT);
            // the same contents through the other accessors: const iterators, at(), data(), front() / back()
            const SV& cv = v;
            std::vector<long long> seq2; size_t j2 = 0;
            for (auto it = cv.begin(); it != cv.end(); ++it, ++j2) seq2.push_back(tracked || init[i][j2] ? rd<T>(*it) : UNINIT);
            std::vector<long long> seq3;
            for (size_t j = 0; j < v.size(); ++j) seq3.push_back(!(tracked || init[i][j]) ? UNINIT : j % 3 == 0 ? rd<T>(cv.at(j)) : j % 3 == 1 ? rd<T>(v.data()[j]) : rd<T>(*(cv.cbegin() + j)));
            if (v.size() && (tracked || init[i][0])) seq3[0] = rd<T>(cv.front());
            if (v.size() && (tracked || init[i][v.size() - 1])) seq3[v.size() - 1] = rd<T>(v.back());
            obs += std::string(i > 1 ? "," : "") + "{\"size\":" + std::to_string(v.size()) + ",\"seq\":" + jarr(seq) + ",\"seq_it\":" + jarr(seq2) + ",\"seq_acc\":" + jarr(seq3) + "}";
        }
        obs += "]";
        ev.raw("obs", obs);
        if (tracked) ev.arr("live", ledger().live_values());
        ev.num("lerr", ledger().nerr);
        ev.emit(out);
    };
    emit("reset", 0, 0, 0);
    for (size_t n = 0; n < nops; ++n) {
        int op, r; long long a, b; is >> op >> r >> a >> b;
        SV& v = *s[r];
        switch (op) {
        case 0: s[r].reset(); s[r].reset(new SV(a)); init[r].assign(a, false); break;
        case 1: v.resize(a); init[r].resize(a, false); break;
        case 2: v.destroy(); init[r].clear(); break;
        case 3: v.fill(T(a)); init[r].assign(v.size(), true); break;
        case 4: v[a - 1] = T(b); init[r][a - 1] = true; break;
        case 5: v.swap(*s[a]); std::swap(init[r], init[a]); break;
        case 6: v = std::move(*s[a]); if (r != a) { init[r] = init[a]; init[a].clear(); } break;
        case 7: s[r].reset(); s[r].reset(new SV(std::move(*s[a]))); init[r] = init[a]; init[a].clear(); break;
        default: std::exit(4);
        }
        emit(NAMES[op], r, a, b);
    }
    s[1].reset(); s[2].reset();
    Ev ev("reset"); ev.num("r", 0).num("a", 0).num("b", 0).num("mode", mode).num("dflt", tracked ? 0 : UNINIT);
    ev.raw("obs", "[{\"size\":0,\"seq\":[],\"seq_it\":[],\"seq_acc\":[]},{\"size\":0,\"seq\":[],\"seq_it\":[],\"seq_acc\":[]}]");
    if (tracked) ev.arr("live", ledger().live_values());
    ev.num("lerr", ledger().nerr);
    ev.emit(out);
}

int main(int argc, char** argv) {
    if (argc < 3) return 2;
    std::ifstream in(argv[1]);
    Out out; out.open(argv[2]); install_terminate(out);
    std::string line;
    while (std::getline(in, line)) {
        if (line.empty()) continue;
        std::istringstream is(line);
        int mode; size_t nops; is >> mode >> nops;
        if (mode == 0) run<Tracked, tlx::SimpleVector<Tracked>>(out, mode, is, nops);
        else if (mode == 1) run<int, tlx::SimpleVector<int, tlx::SimpleVectorMode::NoInitButDestroy>>(out, mode, is, nops);
        else run<int, tlx::SimpleVector<int, tlx::SimpleVectorMode::NoInitNoDestroy>>(out, mode, is, nops);
    }
    out.flush();
    return 0;
}
