// C16 driver: replays operation scripts on tlx::RingBuffer (two buffer objects, "slots").
// script line:  el nops  op r a  op r a ...     el: 0 = Tracked + counting allocator, 1 = int
// usage: drv_ring <script> <trace-out>
#include <common/ndjson.hpp>
#include <common/tracked.hpp>
#include <tlx/container/ring_buffer.hpp>
#include <fstream>
#include <memory>

using namespace vf;

static long g_blocks = 0, g_alloc_err = 0;
static std::map<void*, size_t> g_sizes;
template <class T> struct CountAlloc {
    using value_type = T; using size_type = size_t; using difference_type = ptrdiff_t;
    CountAlloc() = default;
    template <class U> CountAlloc(const CountAlloc<U>&) {}
    T* allocate(size_t n) { T* p = static_cast<T*>(::operator new((n ? n : 1) * sizeof(T))); ++g_blocks; g_sizes[p] = n; return p; }
    void deallocate(T* p, size_t n) {
        if (!p) return;               // deallocate(nullptr, 0) of an unallocated buffer
        auto it = g_sizes.find(p);
        if (it == g_sizes.end() || it->second != n) ++g_alloc_err; else g_sizes.erase(it);
        --g_blocks; ::operator delete(p);
    }
    bool operator==(const CountAlloc&) const { return true; }
    bool operator!=(const CountAlloc&) const { return false; }
};

static const char* NAMES[] = {"push_back", "push_front", "pop_front", "pop_back", "clear", "allocate", "deallocate", "recreate",
    "copy_assign", "copy_construct", "move_assign", "move_construct", "move_to", "copy_to",
    "push_back", "push_front", "push_back", "push_front"};
static const char* HOW[] = {"copy", "copy", "", "", "", "", "", "", "", "", "", "", "", "", "move", "move", "emplace", "emplace"};

template <class T> long long rd(const T& x);
template <> long long rd<Tracked>(const Tracked& x) { return x.read(); }
template <> long long rd<int>(const int& x) { return x; }

template <class T, class RB>
static void run(Out& out, bool tracked, std::istringstream& is, size_t nops) {
    ledger().reset(); g_blocks = 0; g_alloc_err = 0; g_sizes.clear();
    std::unique_ptr<RB> s[3];
    s[1].reset(new RB()); s[2].reset(new RB());
    auto emit = [&](const char* e, const char* how, int r, long long a, const std::vector<long long>* outv) {
        Ev ev(e); ev.num("r", r).num("a", a).str("how", how).str("el", tracked ? "tracked" : "int");
        std::string obs = "[";
        for (int i = 1; i <= 2; ++i) {
            RB& b = *s[i];
            std::vector<long long> seq;
            for (size_t j = 0; j < b.size(); ++j) seq.push_back(rd<T>(b[j]));
            obs += std::string(i > 1 ? "," : "") + "{\"size\":" + std::to_string(b.size()) + ",\"empty\":" + (b.empty() ? "true" : "false") +
                   ",\"max\":" + std::to_string(b.max_size()) + ",\"seq\":" + jarr(seq);
            if (!b.empty()) obs += ",\"front\":" + std::to_string(rd<T>(b.front())) + ",\"back\":" + std::to_string(rd<T>(b.back()));
            // the const overloads of operator[], front(), back(); capacity() is a power of two that can hold max_size() elements plus the free slot
            const RB& cb = b;
            std::vector<long long> seqc;
            for (size_t j = 0; j < cb.size(); ++j) seqc.push_back(rd<T>(cb[j]));
            obs += ",\"seq_c\":" + jarr(seqc);
            if (!cb.empty()) obs += ",\"front_c\":" + std::to_string(rd<T>(cb.front())) + ",\"back_c\":" + std::to_string(rd<T>(cb.back()));
            obs += ",\"cap\":" + std::to_string(cb.capacity());
            obs += "}";
        }
        obs += "]";
        ev.raw("obs", obs);
        if (outv) ev.arr("out", *outv);
        if (tracked) { ev.arr("live", ledger().live_values()); ev.num("blocks", g_blocks); }
        ev.num("lerr", ledger().nerr + g_alloc_err);
        ev.emit(out);
    };
    emit("reset", "", 0, 0, nullptr);
    for (size_t n = 0; n < nops; ++n) {
        int op, r; long long a; is >> op >> r >> a;
        RB& b = *s[r];
        std::vector<long long> outv; bool has_out = false;
        switch (op) {
        case 0: { T t(a); b.push_back(t); break; }
        case 1: { T t(a); b.push_front(t); break; }
        case 2: b.pop_front(); break;
        case 3: b.pop_back(); break;
        case 4: b.clear(); break;
        case 5: b.allocate(a); break;
        case 6: b.deallocate(); break;
        case 7: s[r].reset(); s[r].reset(new RB(a)); break;
        case 8: b = *s[a]; break;
        case 9: s[r].reset(); s[r].reset(new RB(*s[a])); break;
        case 10: b = std::move(*s[a]); break;
        case 11: s[r].reset(); s[r].reset(new RB(std::move(*s[a]))); break;
        case 12: { std::vector<T> v; b.move_to(&v); for (auto& x : v) outv.push_back(rd<T>(x)); has_out = true; break; }
        case 13: { std::vector<T> v; b.copy_to(&v); for (auto& x : v) outv.push_back(rd<T>(x)); has_out = true; break; }
        case 14: { T t(a); b.push_back(std::move(t)); break; }
        case 15: { T t(a); b.push_front(std::move(t)); break; }
        case 16: b.emplace_back(a); break;
        case 17: b.emplace_front(a); break;
        default: std::exit(4);
        }
        emit(NAMES[op], HOW[op], r, a, has_out ? &outv : nullptr);
    }
    s[1].reset(); s[2].reset();
    // destruction of both buffers: nothing may stay alive, every block returned
    Ev ev("reset"); ev.num("r", 0).num("a", 0).str("how", "final").str("el", tracked ? "tracked" : "int");
    ev.raw("obs", "[{\"size\":0,\"empty\":true,\"max\":0,\"seq\":[],\"seq_c\":[],\"cap\":0},{\"size\":0,\"empty\":true,\"max\":0,\"seq\":[],\"seq_c\":[],\"cap\":0}]");
    if (tracked) { ev.arr("live", ledger().live_values()); ev.num("blocks", g_blocks); }
    ev.num("lerr", ledger().nerr + g_alloc_err);
    ev.emit(out);
}

int main(int argc, char** argv) {
    if (argc < 3) return 2;
    std::ifstream in(argv[1]);
    Out out; out.open(argv[2]); install_terminate(out);
    std::string line;
    while (std::getline(in, line)) {
        if (line.empty()) continue;
        std::istringstream is(line);
        int el; size_t nops; is >> el >> nops;
        if (el == 0) run<Tracked, tlx::RingBuffer<Tracked, CountAlloc<Tracked>>>(out, true, is, nops);
        else run<int, tlx::RingBuffer<int>>(out, false, is, nops);
    }
    out.flush();
    return 0;
}
