// C13 driver: tlx::DAryHeap on {key, id} items ordered by key only.
// script line: variant nops { op k id n (k id)*n }
//   ops: 0 push(copy) 1 push(move) 2 top 3 pop 4 extract_top 5 build(iter) 6 build(const&) 7 build(&&) 8 update_all 9 clear
#include <common/ndjson.hpp>
#include <tlx/container/d_ary_heap.hpp>
#include <fstream>
using namespace vf;

struct Item { long long key; long long id; };
VF_DECOY_ORDER(Item, key)
struct ByKeyLess { bool operator()(const Item& a, const Item& b) const { return a.key < b.key; } };
struct ByKeyGreaterMirror { bool operator()(const Item& a, const Item& b) const { return -a.key > -b.key; } };
struct ByKeyWeak { bool operator()(const Item& a, const Item& b) const { return a.key < b.key; } };   // ids never consulted: equal keys are equivalent

static const char* NAMES[] = {"push", "push", "top", "pop", "pop", "build", "build", "build", "update_all", "clear", "reserve"};
static std::string pairs(const std::vector<Item>& v) {
    std::string s = "[";
    for (size_t i = 0; i < v.size(); ++i) s += std::string(i ? "," : "") + "[" + std::to_string(v[i].key) + "," + std::to_string(v[i].id) + "]";
    return s + "]";
}
static std::string pr(const Item& x) { return "[" + std::to_string(x.key) + "," + std::to_string(x.id) + "]"; }

template <class Heap>
static void run(Out& out, int variant, std::istringstream& is) {
    Heap hp{typename Heap::compare_type(1)};        // armed comparator object: see VF_Stateful
    auto emit = [&](Ev& ev) {
        std::vector<Item> drain;
        Heap c = hp;
        while (!c.empty()) drain.push_back(c.extract_top());
        ev.raw("obs", "{\"size\":" + std::to_string(hp.size()) + ",\"empty\":" + (hp.empty() ? "true" : "false") + ",\"drain\":" + pairs(drain) +
                      ",\"sane\":" + (hp.sanity_check() ? "true" : "false") + "}");
        ev.num("variant", variant);
        ev.emit(out);
    };
    { Ev ev("reset"); ev.boolean("monotone", false); emit(ev); }
    size_t nops; is >> nops;
    for (size_t n = 0; n < nops; ++n) {
        int op; long long k, id; size_t ln; is >> op >> k >> id >> ln;
        std::vector<Item> list(ln);
        for (auto& x : list) is >> x.key >> x.id;
        Ev ev(NAMES[op]); ev.num("k", k).num("id", id).num("opcode", op);
        switch (op) {
        case 0: { Item it{k, id}; hp.push(it); break; }
        case 1: hp.push(Item{k, id}); break;
        case 2: ev.raw("ret", pr(hp.top())); break;
        case 3: { Item t = hp.top(); hp.pop(); ev.raw("ret", pr(t)); break; }
        case 4: ev.raw("ret", pr(hp.extract_top())); break;
        case 5: hp.build_heap(list.begin(), list.end()); ev.raw("list", pairs(list)); break;
        case 6: hp.build_heap(list); ev.raw("list", pairs(list)); break;
        case 7: { ev.raw("list", pairs(list)); std::vector<Item> tmp = list; hp.build_heap(std::move(tmp)); break; }
        case 8: hp.update_all(); break;
        case 9: hp.clear(); break;
        case 10: hp.reserve(static_cast<size_t>(k)); ev.num("cap", (long long)hp.capacity()); break;      // no abstract effect; capacity() >= k afterwards
        }
        emit(ev);
    }
}

int main(int argc, char** argv) {
    if (argc < 3) return 2;
    std::ifstream in(argv[1]);
    Out out; out.open(argv[2]); install_terminate(out);
    std::string line;
    while (std::getline(in, line)) {
        if (line.empty()) continue;
        std::istringstream is(line);
        int variant; is >> variant;
        using namespace tlx;
        switch (variant) {
        case 0: run<DAryHeap<Item, 1, VF_Stateful<ByKeyLess>>>(out, variant, is); break;
        case 1: run<DAryHeap<Item, 2, VF_Stateful<ByKeyLess>>>(out, variant, is); break;
        case 2: run<DAryHeap<Item, 2, VF_Stateful<ByKeyGreaterMirror>>>(out, variant, is); break;
        case 3: run<DAryHeap<Item, 3, VF_Stateful<ByKeyLess>>>(out, variant, is); break;
        case 4: run<DAryHeap<Item, 4, VF_Stateful<ByKeyGreaterMirror>>>(out, variant, is); break;
        case 5: run<DAryHeap<Item, 5, VF_Stateful<ByKeyLess>>>(out, variant, is); break;
        case 6: run<DAryHeap<Item, 6, VF_Stateful<ByKeyGreaterMirror>>>(out, variant, is); break;
        case 7: run<DAryHeap<Item, 7, VF_Stateful<ByKeyLess>>>(out, variant, is); break;
        default: run<DAryHeap<Item, 8, VF_Stateful<ByKeyGreaterMirror>>>(out, variant, is); break;
        }
    }
    out.flush();
    return 0;
}
