// C17 driver (SplayTree): replays scripts on tlx::SplayTree set / multiset flavours.
// script line: variant nops  op k ...   variant: 0 set<Tracked,less>  1 multiset<Tracked,less>  2 set<int,greater>  3 multiset<int,greater>
//   keys for the greater variants are mirrored (100 - k) so the abstract order is the same
#include <common/ndjson.hpp>
#include <common/tracked.hpp>
// (the implementation-level comparison with SplayI needs the node structure; SplayTree has no accessor for its root)
#define private public
#include <tlx/container/splay_tree.hpp>
#undef private
#include <fstream>
#include <memory>
using namespace vf;

static long g_blocks = 0, g_alloc_err = 0;
static std::map<void*, size_t> g_sizes;
template <class T> struct CountAlloc {
    using value_type = T;
    CountAlloc() = default;
    template <class U> CountAlloc(const CountAlloc<U>&) {}
    T* allocate(size_t n) { T* p = static_cast<T*>(::operator new(n * sizeof(T))); ++g_blocks; g_sizes[p] = n; return p; }
    void deallocate(T* p, size_t n) {
        auto it = g_sizes.find(p);
        if (it == g_sizes.end() || it->second != n) { ++g_alloc_err; return; }   // double free / foreign pointer: record, do not crash
        g_sizes.erase(it); --g_blocks; ::operator delete(p);
    }
    template <class U> bool operator==(const CountAlloc<U>&) const { return true; }
    template <class U> bool operator!=(const CountAlloc<U>&) const { return false; }
};

static const char* NAMES[] = {"insert", "erase", "exists", "find", "clear"};
static long long un_key(const Tracked& k, bool) { return k.read(); }
static long long un_key(const int& k, bool mirror) { return mirror ? 100 - k : k; }
// nested [key, left, right] lists, [] for a null pointer
template <class K, class Node> static std::string shape(const Node* n, bool mirror, int depth = 0) {
    if (!n || depth > 200) return "[]";
    return "[" + std::to_string(un_key(n->key, mirror)) + "," + shape<K>(n->left, mirror, depth + 1) + "," + shape<K>(n->right, mirror, depth + 1) + "]";
}
template <class T> struct cmp_of;
template <class K, class C, bool D, class A> struct cmp_of<tlx::SplayTree<K, C, D, A>> { using type = C; };
struct TLess { bool operator()(const Tracked& a, const Tracked& b) const { return a < b; } };

template <class K> K mk(long long k, bool mirror);
template <> Tracked mk<Tracked>(long long k, bool) { return Tracked(k); }
template <> int mk<int>(long long k, bool mirror) { return mirror ? 100 - k : k; }
template <class K> long long un(const K& k, bool mirror);
template <> long long un<Tracked>(const Tracked& k, bool) { return k.read(); }
template <> long long un<int>(const int& k, bool mirror) { return mirror ? 100 - k : k; }

template <class K, class Tree>
static void run(Out& out, int variant, bool dup, bool mirror, std::istringstream& is, size_t nops) {
    ledger().reset(); g_blocks = 0; g_alloc_err = 0; g_sizes.clear();
    std::unique_ptr<Tree> t(new Tree(typename cmp_of<Tree>::type(1)));        // armed comparator object: see VF_Stateful
    auto emit = [&](Ev& ev, bool alive) {
        std::vector<long long> ks;
        bool chk = true; size_t sz = 0; bool em = true;
        if (alive) {
            t->traverse_preorder([&](const K& k) { ks.push_back(un<K>(k, mirror)); });
            sz = t->size(); em = t->empty();
            chk = dup ? true : t->check();       // check() uses a strict comparison and is only meaningful for the set flavour
        }
        ev.raw("obs", "{\"size\":" + std::to_string(sz) + ",\"empty\":" + (em ? "true" : "false") + ",\"keys\":" + jarr(ks) +
                      ",\"check\":" + (chk ? "true" : "false") + "}");
        ev.num("blocks", g_blocks).num("lerr", ledger().nerr + g_alloc_err + (alive ? 0 : (long long)ledger().live.size()));
        ev.num("variant", variant);
        if (alive && !mirror) ev.raw("shape", shape<K>(t->root_, mirror));      // (mirrored keys build the mirrored tree: compared for the less variants only)
        ev.emit(out);
    };
    { Ev ev("reset"); ev.boolean("dup", dup); emit(ev, true); }
    for (size_t n = 0; n < nops; ++n) {
        int op; long long k; is >> op >> k;
        Ev ev(NAMES[op]); ev.num("k", k);
        switch (op) {
        case 0: { K key = mk<K>(k, mirror); ev.boolean("ret", t->insert(key)); break; }
        case 1: { K key = mk<K>(k, mirror); ev.boolean("ret", t->erase(key)); break; }
        case 2: { K key = mk<K>(k, mirror); ev.boolean("ret", t->exists(key)); break; }
        case 3: { K key = mk<K>(k, mirror); auto* n = t->find(key); ev.num("ret", n ? un<K>(n->key, mirror) : -1000); break; }
        case 4: t->clear(); break;
        }
        emit(ev, true);
    }
    t.reset();
    // destruction: every node returned exactly once, no key instance left alive
    { Ev ev("reset"); ev.boolean("dup", dup); emit(ev, false); }
}

int main(int argc, char** argv) {
    if (argc < 3) return 2;
    std::ifstream in(argv[1]);
    Out out; out.open(argv[2]); install_terminate(out);
    std::string line;
    while (std::getline(in, line)) {
        if (line.empty()) continue;
        std::istringstream is(line);
        int variant; size_t nops; is >> variant >> nops;
        using namespace tlx;
        switch (variant) {
        case 0: run<Tracked, SplayTree<Tracked, VF_Stateful<TLess>, false, CountAlloc<Tracked>>>(out, variant, false, false, is, nops); break;
        case 1: run<Tracked, SplayTree<Tracked, VF_Stateful<TLess>, true, CountAlloc<Tracked>>>(out, variant, true, false, is, nops); break;
        case 2: run<int, SplayTree<int, VF_Stateful<std::greater<int>>, false, CountAlloc<int>>>(out, variant, false, true, is, nops); break;
        default: run<int, SplayTree<int, VF_Stateful<std::greater<int>>, true, CountAlloc<int>>>(out, variant, true, true, is, nops); break;
        }
    }
    out.flush();
    return 0;
}
