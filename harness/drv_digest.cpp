// C14 driver: MD5 / SHA-1 / SHA-256 / SHA-512 under given chunkings, SipHash variants.
// script lines:  D algo L k c1..ck expectedhex
//                S keyhex L align expectedhex16
// message byte i (0-based) of a message of length L:  (i*i*31 + i*7 + L*13 + 5) & 0xFF
#include <common/ndjson.hpp>
#include <tlx/digest.hpp>
#include <tlx/siphash.hpp>
#include <fstream>
using namespace vf;

static std::string B(const std::string& s) { std::string o = "["; for (size_t i = 0; i < s.size(); ++i) o += std::string(i ? "," : "") + std::to_string((unsigned char)s[i]); return o + "]"; }
static std::string unhex(const std::string& h) { std::string o; for (size_t i = 0; i + 1 < h.size(); i += 2) o.push_back((char)std::stoi(h.substr(i, 2), nullptr, 16)); return o; }
static std::string message(size_t L) { std::string m(L, 0); for (size_t i = 0; i < L; ++i) m[i] = (char)((i * i * 31 + i * 7 + L * 13 + 5) & 0xFF); return m; }
// long messages (2^29 bytes and more: bit counts beyond 32 bits): a pattern with a prime period, so that the reference side can feed whole periods to hashlib
static const size_t BIGP = 1048573;
static std::string big_message(size_t L) { std::string m(L, 0); size_t r = 0; for (size_t i = 0; i < L; ++i) { m[i] = (char)((r * 131 + 7) & 0xFF); if (++r == BIGP) r = 0; } return m; }
template <class H, class F1>
static void digest_big_event(Out& out, const char* algo, const std::string& msg, const std::vector<size_t>& chunks, const std::string& expected, F1 hex_p) {
    H a; size_t p = 0; bool alt = false;
    for (size_t c : chunks) { if (alt) a.process(tlx::string_view(msg.data() + p, c)); else a.process(msg.data() + p, (std::uint32_t)c); alt = !alt; p += c; }
    std::string raw = a.digest();
    std::string os = "[" + B(hex_p(msg.data(), (std::uint32_t)msg.size())) + "]";
    Ev e("digest_big"); e.str("algo", algo).num("len_mib", (long long)(msg.size() >> 20)).raw("raw", B(raw)).raw("oneshot_hex", os).raw("expected", B(expected)).boolean("partition", p == msg.size());
    e.emit(out);
}
static std::string u64le(uint64_t v) { std::string o(8, 0); for (int i = 0; i < 8; ++i) o[i] = (char)((v >> (8 * i)) & 0xFF); return o; }

template <class H, class F1, class F2, class F3, class F4>
static void digest_event(Out& out, const char* algo, const std::string& msg, const std::vector<size_t>& chunks, const std::string& expected, F1 hex_p, F2 hex_s, F3 hexuc_p, F4 hexuc_s) {
    auto feed = [&](H& h) { size_t p = 0; bool alt = false; for (size_t c : chunks) { if (alt) h.process(tlx::string_view(msg.data() + p, c)); else h.process(msg.data() + p, (std::uint32_t)c); alt = !alt; p += c; } };
    H a, b, c, d; feed(a); feed(b); feed(c); feed(d);
    std::string raw = a.digest(), hx = b.digest_hex(), hu = c.digest_hex_uc();
    std::string fr(H::kDigestLength, 0); d.finalize(&fr[0]);
    std::string os = "[" + B(hex_p(msg.data(), (std::uint32_t)msg.size())) + "," + B(hex_s(tlx::string_view(msg))) + "," + B(H(msg.data(), (std::uint32_t)msg.size()).digest_hex()) + "," + B(H(tlx::string_view(msg)).digest_hex()) + "]";
    std::string ou = "[" + B(hexuc_p(msg.data(), (std::uint32_t)msg.size())) + "," + B(hexuc_s(tlx::string_view(msg))) + "]";
    Ev e("digest"); e.str("algo", algo).num("len", (long long)msg.size()).arr("chunks", chunks).raw("raw", B(raw)).raw("hex", B(hx)).raw("hex_uc", B(hu)).raw("finalize_raw", B(fr))
        .raw("oneshot_hex", os).raw("oneshot_hex_uc", ou).raw("expected", B(expected));
    e.emit(out);
}

int main(int argc, char** argv) {
    if (argc < 3) return 2;
    std::ifstream in(argv[1]);
    Out out; out.open(argv[2]); install_terminate(out);
    Ev("reset").emit(out);
    std::string line;
    while (std::getline(in, line)) {
        if (line.empty()) continue;
        std::istringstream is(line);
        char kind; is >> kind;
        if (kind == 'D') {
            std::string algo; size_t L, k; is >> algo >> L >> k; std::vector<size_t> ch(k); for (auto& c : ch) is >> c; std::string exp; is >> exp;
            std::string msg = message(L), ex = unhex(exp);
            using sv = tlx::string_view;
            if (algo == "md5") digest_event<tlx::MD5>(out, "md5", msg, ch, ex, [](const void* p, std::uint32_t n) { return tlx::md5_hex(p, n); }, [](sv s) { return tlx::md5_hex(s); },
                                                      [](const void* p, std::uint32_t n) { return tlx::md5_hex_uc(p, n); }, [](sv s) { return tlx::md5_hex_uc(s); });
            else if (algo == "sha1") digest_event<tlx::SHA1>(out, "sha1", msg, ch, ex, [](const void* p, std::uint32_t n) { return tlx::sha1_hex(p, n); }, [](sv s) { return tlx::sha1_hex(s); },
                                                             [](const void* p, std::uint32_t n) { return tlx::sha1_hex_uc(p, n); }, [](sv s) { return tlx::sha1_hex_uc(s); });
            else if (algo == "sha256") digest_event<tlx::SHA256>(out, "sha256", msg, ch, ex, [](const void* p, std::uint32_t n) { return tlx::sha256_hex(p, n); }, [](sv s) { return tlx::sha256_hex(s); },
                                                                 [](const void* p, std::uint32_t n) { return tlx::sha256_hex_uc(p, n); }, [](sv s) { return tlx::sha256_hex_uc(s); });
            else digest_event<tlx::SHA512>(out, "sha512", msg, ch, ex, [](const void* p, std::uint32_t n) { return tlx::sha512_hex(p, n); }, [](sv s) { return tlx::sha512_hex(s); },
                                           [](const void* p, std::uint32_t n) { return tlx::sha512_hex_uc(p, n); }, [](sv s) { return tlx::sha512_hex_uc(s); });
        } else if (kind == 'G') {
            std::string algo; size_t L, k; is >> algo >> L >> k; std::vector<size_t> ch(k); for (auto& c : ch) is >> c; std::string exp; is >> exp;
            static std::string bigmsg; if (bigmsg.size() != L) bigmsg = big_message(L);
            std::string ex = unhex(exp);
            if (algo == "md5") digest_big_event<tlx::MD5>(out, "md5", bigmsg, ch, ex, [](const void* p, std::uint32_t n) { return tlx::md5_hex(p, n); });
            else if (algo == "sha1") digest_big_event<tlx::SHA1>(out, "sha1", bigmsg, ch, ex, [](const void* p, std::uint32_t n) { return tlx::sha1_hex(p, n); });
            else if (algo == "sha256") digest_big_event<tlx::SHA256>(out, "sha256", bigmsg, ch, ex, [](const void* p, std::uint32_t n) { return tlx::sha256_hex(p, n); });
            else digest_big_event<tlx::SHA512>(out, "sha512", bigmsg, ch, ex, [](const void* p, std::uint32_t n) { return tlx::sha512_hex(p, n); });
        } else {
            std::string keyhex, exp; size_t L, align; is >> keyhex >> L >> align >> exp;
            std::string key = unhex(keyhex), msg = message(L);
            alignas(16) static unsigned char buf[4096 + 32];
            unsigned char* p = buf + 16 + align;
            for (size_t i = 0; i < L; ++i) p[i] = (unsigned char)msg[i];
            const std::uint8_t* k = reinterpret_cast<const std::uint8_t*>(key.data());
            uint64_t a = tlx::siphash_plain(k, p, L);
#if defined(__SSE2__)
            uint64_t b = tlx::siphash_sse2(k, p, L);
#else
            uint64_t b = a;
#endif
            uint64_t c = tlx::siphash(k, p, L);
            Ev e("siphash"); e.num("len", (long long)L).num("align", (long long)align).raw("key", B(key)).raw("plain", B(u64le(a))).raw("vector", B(u64le(b))).raw("dispatch", B(u64le(c))).raw("expected", B(unhex(exp)));
            e.emit(out);
        }
    }
    out.flush();
    return 0;
}
