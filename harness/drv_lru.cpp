// C17 driver (LRU): replays scripts on tlx::LruCacheSet / LruCacheMap.
// script line: flavour nkeys nops  op k v ...   flavour 0 = set, 1 = map ; keys of the universe are 1..nkeys
#include <common/ndjson.hpp>
#include <tlx/container/lru_cache.hpp>
#include <fstream>
#include <stdexcept>
using namespace vf;

static const char* NAMES[] = {"put", "touch", "touch_if_exists", "erase", "erase_if_exists", "get", "get_touch", "pop", "clear"};

// key / value type whose move operations empty their source (like std::string): a moved-from key must not be used to find anything afterwards
struct MKey {
    long long v;
    MKey(long long x = 0) : v(x) {}
    MKey(const MKey&) = default;
    MKey& operator=(const MKey&) = default;
    MKey(MKey&& o) noexcept : v(o.v) { o.v = -999; }
    MKey& operator=(MKey&& o) noexcept { v = o.v; if (this != &o) o.v = -999; return *this; }
    bool operator==(const MKey& o) const { return v == o.v; }
    operator long long() const { return v; }
};
namespace std { template <> struct hash<MKey> { size_t operator()(const MKey& k) const { return std::hash<long long>()(k.v); } }; }

template <class K>
struct SetOpsT {
    tlx::LruCacheSet<K> c;
    void put(int k, int) { c.put(k); }
    int get(int k) { if (!c.exists(k)) throw std::range_error("x"); return 0; }     // the set has no get: model as value 0
    int get_touch(int k) { c.touch(k); return 0; }
    std::pair<int, int> pop() { return {c.pop(), 0}; }
    // recency order: drain a copy with pop() (pop does not use the stored list positions)
    void order(std::vector<long long>& ks, std::vector<long long>& vs) { auto d = c; while (d.size()) { ks.push_back(d.pop()); vs.push_back(0); }
        std::reverse(ks.begin(), ks.end()); std::reverse(vs.begin(), vs.end()); }
};
using SetOps = SetOpsT<int>;
template <class K, class V>
struct MapOpsT {
    tlx::LruCacheMap<K, V> c;
    void put(int k, int v) { c.put(k, v); }
    int get(int k) { return c.get(k); }
    int get_touch(int k) { return c.get_touch(k); }
    std::pair<int, int> pop() { return c.pop(); }
    void order(std::vector<long long>& ks, std::vector<long long>& vs) { auto d = c; while (d.size()) { auto p = d.pop(); ks.push_back(p.first); vs.push_back(p.second); }
        std::reverse(ks.begin(), ks.end()); std::reverse(vs.begin(), vs.end()); }
};

using MapOps = MapOpsT<int, int>;

template <class O>
static void run(Out& out, int flavour, int nkeys, std::istringstream& is, size_t nops) {
    O o;
    auto emit = [&](Ev& ev) {
        std::vector<long long> ks, vs, uni, ex;
        o.order(ks, vs);
        for (int k = 0; k <= nkeys + 1; ++k) { uni.push_back(k); ex.push_back(o.c.exists(k)); }
        std::string exs = "[";
        for (size_t i = 0; i < ex.size(); ++i) exs += std::string(i ? "," : "") + (ex[i] ? "true" : "false");
        exs += "]";
        ev.raw("obs", "{\"size\":" + std::to_string(o.c.size()) + ",\"order\":" + jarr(ks) + ",\"vals\":" + jarr(vs) +
                      ",\"universe\":" + jarr(uni) + ",\"exists\":" + exs + "}");
        ev.num("flavour", flavour);
        ev.emit(out);
    };
    { Ev ev("reset"); emit(ev); }
    for (size_t n = 0; n < nops; ++n) {
        int op, k, v; is >> op >> k >> v;
        Ev ev(NAMES[op]); ev.num("k", k); if (op != 5 && op != 6) ev.num("v", v);
        bool got = false;
        try {
            switch (op) {
            case 0: o.put(k, v); break;
            case 1: o.c.touch(k); ev.str("ret", "ok"); break;
            case 2: ev.boolean("ret", o.c.touch_if_exists(k)); break;
            case 3: o.c.erase(k); ev.str("ret", "ok"); break;
            case 4: ev.boolean("ret", o.c.erase_if_exists(k)); break;
            case 5: { int r = o.get(k); got = true; ev.num("v", r).str("ret", "ok"); break; }
            case 6: { int r = o.get_touch(k); got = true; ev.num("v", r).str("ret", "ok"); break; }
            case 7: { auto p = o.pop(); Ev e2("pop"); e2.num("k", p.first).num("v", p.second); ev = e2; break; }
            case 8: o.c.clear(); break;
            }
        } catch (const std::range_error&) { if ((op == 5 || op == 6) && !got) ev.num("v", 0); ev.str("ret", "range_error"); }
        emit(ev);
    }
}

int main(int argc, char** argv) {
    if (argc < 3) return 2;
    std::ifstream in(argv[1]);
    Out out; out.open(argv[2]); install_terminate(out);
    std::string line;
    while (std::getline(in, line)) {
        if (line.empty()) continue;
        std::istringstream is(line);
        int fl, nkeys; size_t nops; is >> fl >> nkeys >> nops;
        // flavours 2 / 3: the same scripts with keys and values whose move operations empty the source
        if (fl == 0) run<SetOps>(out, fl, nkeys, is, nops); else if (fl == 1) run<MapOps>(out, fl, nkeys, is, nops);
        else if (fl == 2) run<SetOpsT<MKey>>(out, 0, nkeys, is, nops); else run<MapOpsT<MKey, MKey>>(out, 1, nkeys, is, nops);
    }
    out.flush();
    return 0;
}
